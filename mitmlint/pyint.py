"""E3 (decision tables, general form): an interpreter for the *pure, non-generator* subset of Python found in
mitmproxy's decision functions, working on the AST only.

It exists so that decision-table rules compare **semantics**: a refactor of the decision function (dict dispatch
instead of if/elif, loops with break/continue, helper extraction, comprehension, match) is interpreted like the
original, while an edit that changes a cell of the table changes the extracted result.

* Repository code is never imported or executed; functions, classes, methods, properties and module constants are
  resolved through ``Model`` and interpreted from their AST.
* Values are Python natives, objects of *trusted* stdlib modules handed in by the rule (``ipaddress``, ``re``,
  ``struct`` ...), and ``Rec`` abstract records (optionally bound to a repository class for method/property lookup).
* Every attribute / item write on a ``Rec`` is logged in ``Interp.writes`` so that rules can compare effects.
* Anything outside the subset raises AnalysisError (exit 2) - never a guess.  A step bound guards against loops.
"""

from __future__ import annotations

import ast
import builtins

from .core import AnalysisError
from .core import norm
from .model import last_attr


class _LazyWhere:
    """source text of a call site, rendered on demand"""

    def __init__(self, node):
        self.node = node

    def __str__(self):
        return norm(self.node)[:80] if self.node is not None else "?"

    __repr__ = __str__

    def __format__(self, spec):
        return format(str(self), spec)


class NullLog:
    """Trusted stand-in for the `logging` module *and* for a logger object: nothing is enabled, every logging call is a no-op that
    accepts abstract records as arguments.  Hand it in as `trusted_modules={"logging": NullLog()}`."""

    DEBUG, INFO, WARNING, WARN, ERROR, CRITICAL, NOTSET = 10, 20, 30, 30, 40, 50, 0
    _pyint_accepts_abstract = True

    def getLogger(self, *a, **k):
        return self

    def getChild(self, *a, **k):
        return self

    def isEnabledFor(self, *a, **k):
        return False

    def getEffectiveLevel(self):
        return 100

    def __getattr__(self, name):
        if name in ("debug", "info", "warning", "warn", "error", "exception", "log", "critical", "setLevel", "addHandler", "removeHandler"):
            return _noop
        raise AttributeError(name)


def _noop(*a, **k):
    return None


_noop._pyint_accepts_abstract = True


class Raised(Exception):
    def __init__(self, name, msg=""):
        super().__init__(f"{name}: {msg}")
        self.name = name
        self.msg = msg


class _Return(Exception):
    def __init__(self, value):
        self.value = value


class _Break(Exception):
    pass


class _Yielded(Exception):
    def __init__(self, value):
        self.value = value


def _snapshot(roots):
    """[(object, saved state)] for every Rec / list / dict / set / bytearray reachable from roots (identity-preserving restore)"""
    seen, out, todo = set(), [], list(roots)
    while todo:
        v = todo.pop()
        if id(v) in seen:
            continue
        if isinstance(v, Rec):
            seen.add(id(v))
            d = dict(v.__dict__)
            out.append((v, d))
            todo.extend(d.values())
        elif isinstance(v, (list, set, bytearray)):
            seen.add(id(v))
            out.append((v, type(v)(v)))
            if not isinstance(v, bytearray):
                todo.extend(v)
        elif isinstance(v, dict):
            seen.add(id(v))
            out.append((v, dict(v)))
            todo.extend(v.values())
        elif isinstance(v, tuple):
            todo.extend(v)
    return out


def _restore(snap):
    for obj, saved in snap:
        if isinstance(obj, Rec):
            obj.__dict__.clear()
            obj.__dict__.update(saved)
        elif isinstance(obj, (list, bytearray)):
            obj[:] = saved
        elif isinstance(obj, set):
            obj.clear()
            obj.update(saved)
        elif isinstance(obj, dict):
            obj.clear()
            obj.update(saved)


class Gen:
    """A call of a repository generator function. Iteration replays the (pure) body up to the k-th yield, so the consumer's laziness is
    kept: nothing after the last value the consumer asked for is evaluated."""

    def __init__(self, interp, f, node, env, depth):
        self.interp, self.f, self.node, self.env, self.depth = interp, f, node, env, depth

        self.k = 0
        self.done = False
        self.snap = None  # state of every record / mutable container reachable from the arguments, taken at the first step

    def __iter__(self):
        return self  # stateful, like a real generator object

    def __next__(self):
        if self.done:
            raise StopIteration
        kind, v = self.interp.run_gen_until(self, self.k)
        if kind == "stop":
            self.done = True
            raise StopIteration
        self.k += 1
        return v


class _Continue(Exception):
    pass


class Rec:
    """Abstract record. ``_cls``: class name (+ ``_bases``) for isinstance; ``_impl`` = (rel, qual) binds it to a
    repository class whose methods / properties are interpreted on demand."""

    def __init__(self, _cls: str, _bases=(), _impl=None, _name=None, **attrs):
        object.__setattr__(self, "_cls", _cls)
        object.__setattr__(self, "_bases", tuple(_bases))
        object.__setattr__(self, "_impl", _impl)
        object.__setattr__(self, "_name", _name or _cls)
        object.__setattr__(self, "_items", None)
        for k, v in attrs.items():
            object.__setattr__(self, k, v)

    def isa(self, name: str) -> bool:
        return name == self._cls or name in self._bases

    def __repr__(self):
        return f"<Rec {self._name}>"


class DictRec(Rec):
    """A record that also behaves as a mapping (headers, metadata); item writes are logged."""

    def __init__(self, _cls, items=None, case_insensitive=False, **kw):
        super().__init__(_cls, **kw)
        object.__setattr__(self, "_items", dict(items or {}))
        object.__setattr__(self, "_ci", case_insensitive)

    def _k(self, k):
        return k.lower() if self._ci and isinstance(k, str) else k


class Func:
    def __init__(self, mod, node, bound=None, closure=None):
        self.mod = mod
        self.node = node
        self.bound = bound
        self.closure = closure or {}

    def __repr__(self):
        return f"<Func {getattr(self.node, 'name', 'lambda')}>"


class ClassRef:
    def __init__(self, mod, node):
        self.mod = mod
        self.node = node

    @property
    def name(self):
        return self.node.name

    def _key(self):
        return (self.mod.rel, getattr(self.node, "_qual", self.node.name))

    def __eq__(self, other):
        return isinstance(other, ClassRef) and self._key() == other._key()

    def __hash__(self):
        return hash(self._key())

    def __repr__(self):
        return f"<ClassRef {self.node.name}>"


SAFE_BUILTINS = {
    n: getattr(builtins, n)
    for n in (
        "len int bool bytes str repr any all frozenset set tuple list dict sorted min max zip enumerate range abs sum "
        "reversed ord chr hex divmod round bytearray float object format ascii bin oct pow slice id hash"
    ).split()
}
NATIVE_TYPES = (str, bytes, bytearray, int, float, bool, tuple, list, dict, set, frozenset, type(None), range)


# ---- module-level initialisation (lifted from props/_helpers_C.ModuleInitMixin): which top-level statements build a module-level object
_MUTATING_METHODS = frozenset(
    "append extend insert remove pop popitem clear update setdefault add discard sort reverse appendleft extendleft popleft "
    "__setitem__ __delitem__ move_to_end difference_update intersection_update symmetric_difference_update subtract".split()
)
_MI_SCOPES = (ast.FunctionDef, ast.AsyncFunctionDef, ast.Lambda, ast.ClassDef)
def _root_name(node):
    while isinstance(node, (ast.Attribute, ast.Subscript, ast.Starred)):
        node = node.value
    return node.id if isinstance(node, ast.Name) else None


def _walk_same_scope(node):
    """nodes of ``node`` that are evaluated in its own scope, when it runs (bodies of nested functions / classes and the targets of
    comprehensions are other scopes)"""
    todo = [node]
    while todo:
        n = todo.pop()
        yield n
        for ch in ast.iter_child_nodes(n):
            if isinstance(ch, _MI_SCOPES):
                continue
            if isinstance(ch, ast.comprehension):
                todo.extend([ch.iter, *ch.ifs])
                continue
            todo.append(ch)


def stmt_touches(st, name: str):
    """None | 'bind' | 'mutate': what the top-level statement ``st`` does to the module-level name"""
    kind = None
    for n in _walk_same_scope(st):
        if isinstance(n, ast.Name) and n.id == name and isinstance(n.ctx, (ast.Store, ast.Del)):
            return "bind"
        if isinstance(n, (ast.Attribute, ast.Subscript)) and isinstance(n.ctx, (ast.Store, ast.Del)) and _root_name(n) == name:
            kind = "mutate"
        elif isinstance(n, ast.Call) and isinstance(n.func, ast.Attribute) and _root_name(n.func) == name and n.func.attr in _MUTATING_METHODS:
            kind = "mutate"
        elif isinstance(n, ast.Expr) and isinstance(n.value, ast.Call) and isinstance(n.value.func, ast.Attribute) and _root_name(n.value.func) == name:
            kind = "mutate"  # a method call whose value is discarded is made for its effect
        elif isinstance(n, (ast.alias,)) and (n.asname or n.name.split(".")[0]) == name:
            return None  # (an import inside if/try: resolved through mod.imports, not here)
    return kind


def module_init_statements(mod, name: str):
    """The top-level statements that build the module-level object ``name``, in program order - or None when plain `NAME = expr`
    statements are all there is (pyint's own rule, last assignment wins, is exact then)."""
    cache = mod.__dict__.setdefault("_init_stmts_cache", {})
    if name not in cache:
        out, plain = [], True
        for st in mod.tree.body:
            if isinstance(st, (ast.FunctionDef, ast.AsyncFunctionDef, ast.ClassDef, ast.Import, ast.ImportFrom)):
                continue
            kind = stmt_touches(st, name)
            if kind is None:
                continue
            out.append(st)
            simple = (isinstance(st, ast.Assign) and all(isinstance(t, ast.Name) for t in st.targets)) or (isinstance(st, ast.AnnAssign) and isinstance(st.target, ast.Name))
            if not (kind == "bind" and simple):
                plain = False
        cache[name] = None if plain or not out else out
    return cache[name]



def _default_trusted():
    import base64, binascii, codecs, collections, collections.abc, enum, functools, html, ipaddress, itertools, math, operator, re, string, struct, textwrap

    return {"itertools": itertools, "functools": functools, "operator": operator, "collections": collections, "string": string, "re": re, "math": math,
            "struct": struct, "binascii": binascii, "base64": base64, "codecs": codecs, "textwrap": textwrap, "html": html, "enum": enum,
            "ipaddress": ipaddress, "logging": NullLog()}


class Interp:
    def __init__(self, model, trusted_modules=None, externals=None, max_depth=12, max_steps=400000):
        self.model = model
        # pure, deterministic stdlib modules every rule may see (a rule's own trusted_modules win); logging is a no-op stand-in:
        # a harmless `import itertools` / `logger.debug(..)` added by a maintainer must not make a check refuse
        self.trusted = {**_default_trusted(), **dict(trusted_modules or {})}
        self._cm: list = []  # frames of @contextmanager generators whose with-body runs at their yield
        self.externals = externals or {}
        self.max_depth = max_depth
        self.max_steps = max_steps
        self.steps = 0
        self.writes: list = []  # (record name, kind 'attr'|'item'|'del', key, value)
        self.calls = 0
        self._modconst: dict = {}
        self.overrides: dict = {}  # (module rel, name) -> value: rule-supplied bindings of module globals (e.g. ctx.options)
        self._gen_targets: list = []  # replay frames of generator calls: [k, yields seen]
        self._functext: dict = {}  # id(call node) -> rendered callee text (externals lookup)
        self._fnkind: dict = {}  # id(function node) -> 'plain' | 'gen' | 'coroutine' | 'asyncgen'

    # ------------------------------------------------------------------ entry
    def call(self, rel: str, qual: str, *args, **kwargs):
        fn = self.model.func(rel, qual)
        return self.apply(Func(self.model.module(rel), fn), list(args), kwargs, 0)

    def method(self, rec: Rec, name: str, *args, **kwargs):
        f = self.getattr(rec, name, None, 0)
        return self.apply(f, list(args), kwargs, 0)

    # ------------------------------------------------------------------ helpers
    def tick(self):
        self.steps += 1
        if self.steps > self.max_steps:
            raise AnalysisError(f"pyint: step bound {self.max_steps} exceeded (loop not terminating on the abstract input?)")

    def truthy(self, v) -> bool:
        if isinstance(v, DictRec):
            return bool(v._items)
        if isinstance(v, (Rec, Func, ClassRef)):
            return True
        return bool(v)

    def exc_isa(self, name: str, handler: str, mod) -> bool:
        if handler in ("BaseException",):
            return True
        if name == handler:
            return True
        b1, b2 = getattr(builtins, name, None), getattr(builtins, handler, None)
        if isinstance(b1, type) and isinstance(b2, type):
            return issubclass(b1, b2)
        if name == "error" or handler == "error":  # struct.error / binascii.Error spelled by last attribute
            return handler in ("Exception",) and name == "error"
        # repository exception classes
        if isinstance(b2, type) and b1 is None:
            anc = self._repo_ancestors(name, mod)
            return handler in anc or any(isinstance(getattr(builtins, a, None), type) and issubclass(getattr(builtins, a), b2) for a in anc)
        if b2 is None:
            return handler in self._repo_ancestors(name, mod)
        return False

    def _repo_ancestors(self, name, mod):
        out = {name}
        r = self.model.resolve_name(mod, ast.Name(id=name)) if name.isidentifier() else None
        if r and isinstance(r[1], ast.ClassDef):
            for m, c in self.model.mro(r[0].rel, getattr(r[1], "_qual", r[1].name)):
                out.add(c.name)
                for b in c.bases:
                    out.add(last_attr(b))
        return out

    def native_call(self, f, args, kwargs, where):
        import collections as _c

        container_method = isinstance(getattr(f, "__self__", None), (dict, list, set, frozenset, tuple, _c.deque)) or f in (list, tuple, set, frozenset, dict, len, bool, any, all, zip, enumerate, reversed, sorted, min, max)
        accepts = getattr(f, "_pyint_accepts_abstract", False) or getattr(getattr(f, "__self__", None), "_pyint_accepts_abstract", False)
        if not container_method and not accepts:
            # a repository function handed to a trusted native callable (re.sub(pattern, fn, ..), itertools.takewhile(pred, ..),
            # sorted(.., key=fn), functools.partial(fn, ..)) is called back into the interpreter
            def wrap(a):
                if isinstance(a, Func):
                    return lambda *aa, **kk: self.apply(a, list(aa), dict(kk), 1)
                return a

            args = [wrap(a) for a in args]
            kwargs = {k: wrap(v) for k, v in kwargs.items()}
        elif f in (sorted, min, max) and isinstance(kwargs.get("key"), Func):
            kf = kwargs["key"]
            kwargs = dict(kwargs, key=lambda x: self.apply(kf, [x], {}, 1))
        for a in list(args) + list(kwargs.values()):
            if isinstance(a, (Rec, Func, ClassRef)) and not container_method and not accepts:
                raise AnalysisError(f"pyint: abstract value passed to a native callable at {where}")
        try:
            return f(*args, **kwargs)
        except (AnalysisError, Raised):
            raise  # (an interpreted exception escaping a lazily drained generator stays what it is)
        except Exception as e:  # the trusted library raised: becomes an interpreted exception
            raise Raised(type(e).__name__, str(e))

    # ------------------------------------------------------------------ statements
    def block(self, stmts, env, mod, depth):
        for st in stmts:
            self.stmt(st, env, mod, depth)

    def stmt(self, st, env, mod, depth):
        self.tick()
        if isinstance(st, ast.Expr):
            if not isinstance(st.value, ast.Constant):
                self.ev(st.value, env, mod, depth)
        elif isinstance(st, (ast.Pass, ast.Import, ast.ImportFrom, ast.Global, ast.Nonlocal)):
            return
        elif isinstance(st, ast.Return):
            raise _Return(self.ev(st.value, env, mod, depth) if st.value is not None else None)
        elif isinstance(st, ast.Raise):
            if st.exc is None:
                raise Raised(env.get("$handling", "Exception"))
            if isinstance(st.exc, ast.Name) and st.exc.id in env and isinstance(env[st.exc.id], str) and env[st.exc.id].startswith("<exc:"):
                raise Raised(env[st.exc.id][5:-1])
            raise Raised(last_attr(st.exc))
        elif isinstance(st, ast.If):
            self.block(st.body if self.truthy(self.ev(st.test, env, mod, depth)) else st.orelse, env, mod, depth)
        elif isinstance(st, ast.Assign):
            v = self.ev(st.value, env, mod, depth)
            for t in st.targets:
                self.assign(t, v, env, mod, depth)
        elif isinstance(st, ast.AnnAssign):
            if st.value is not None:
                self.assign(st.target, self.ev(st.value, env, mod, depth), env, mod, depth)
        elif isinstance(st, ast.AugAssign):
            cur = self.ev(st.target, env, mod, depth)
            rhs = self.ev(st.value, env, mod, depth)
            inplace = {ast.Add: "__iadd__", ast.BitOr: "__ior__", ast.BitAnd: "__iand__", ast.Sub: "__isub__", ast.BitXor: "__ixor__", ast.Mult: "__imul__"}.get(type(st.op))
            if type(cur) in (bytearray, list, set, dict) and inplace and hasattr(cur, inplace) and type(rhs) in (bytes, bytearray, list, tuple, set, frozenset, dict, int):
                # mutable containers are updated in place (aliases see the change), exactly like Python
                try:
                    r = getattr(cur, inplace)(rhs)
                except (TypeError, ValueError) as e:
                    raise Raised(type(e).__name__)
                v = cur if r is NotImplemented or r is None else r
                if r is NotImplemented:
                    v = self.binop(st.op, cur, rhs, st)
            else:
                v = self.binop(st.op, cur, rhs, st)
            self.assign(st.target, v, env, mod, depth)
        elif isinstance(st, (ast.For, ast.While)):
            self.loop(st, env, mod, depth)
        elif isinstance(st, ast.Break):
            raise _Break()
        elif isinstance(st, ast.Continue):
            raise _Continue()
        elif isinstance(st, ast.Match):
            subj = self.ev(st.subject, env, mod, depth)
            for case in st.cases:
                if self.match(case.pattern, subj, env, mod, depth) and (case.guard is None or self.truthy(self.ev(case.guard, env, mod, depth))):
                    self.block(case.body, env, mod, depth)
                    break
        elif isinstance(st, ast.Try):
            self.try_(st, env, mod, depth)
        elif isinstance(st, ast.Assert):
            if not self.truthy(self.ev(st.test, env, mod, depth)):
                raise Raised("AssertionError")
        elif isinstance(st, ast.Delete):
            for t in st.targets:
                if isinstance(t, ast.Subscript):
                    base = self.ev(t.value, env, mod, depth)
                    key = self.ev(t.slice, env, mod, depth)
                    if isinstance(base, DictRec):
                        if base._k(key) not in {base._k(k) for k in base._items}:
                            raise Raised("KeyError")
                        for k in [k for k in base._items if base._k(k) == base._k(key)]:
                            del base._items[k]
                        self.writes.append((base._name, "del", key, None))
                    else:
                        try:
                            del base[key]
                        except (KeyError, IndexError, TypeError) as e:
                            raise Raised(type(e).__name__)
                elif isinstance(t, ast.Name):
                    env.pop(t.id, None)
                else:
                    raise AnalysisError(f"pyint: del target not modelled: {norm(t)}")
        elif isinstance(st, (ast.FunctionDef,)):
            env[st.name] = Func(mod, st, closure=env)
        elif isinstance(st, ast.With):
            # only the two context managers with a trivial, exactly known semantics: contextlib.suppress(*exceptions) and nullcontext()
            if len(st.items) == 1 and st.items[0].optional_vars is None and isinstance(st.items[0].context_expr, ast.Call) and last_attr(st.items[0].context_expr.func) in ("suppress", "nullcontext"):
                call = st.items[0].context_expr
                if last_attr(call.func) == "nullcontext":
                    self.block(st.body, env, mod, depth)
                    return
                names = [last_attr(a) for a in call.args]
                if call.keywords or not all(names):
                    raise AnalysisError(f"pyint: with-statement not modelled: {norm(st)[:80]}")
                try:
                    self.block(st.body, env, mod, depth)
                except Raised as r:
                    if not any(self.exc_isa(r.name, n, mod) for n in names):
                        raise
                return
            return self.with_(st, 0, env, mod, depth)
        else:
            raise AnalysisError(f"pyint: statement not modelled: {norm(st)[:100]}")

    def with_(self, st, i, env, mod, depth):
        """`with` over (a) a repository @contextmanager generator: its body is interpreted and the with-body runs AT the yield, so the
        exceptions of the with-body travel through the generator's own try/except/finally exactly like in Python; (b) a record whose
        class defines __enter__/__exit__; (c) a native context manager object of a trusted module."""
        from .model import decorators

        if i == len(st.items):
            return self.block(st.body, env, mod, depth)
        item = st.items[i]
        cm = self.ev(item.context_expr, env, mod, depth)

        def body(value):
            if item.optional_vars is not None:
                self.assign(item.optional_vars, value, env, mod, depth)
            self.with_(st, i + 1, env, mod, depth)

        if isinstance(cm, Gen):
            if not any(d.split(".")[-1] == "contextmanager" for d in decorators(cm.node)):
                raise AnalysisError(f"pyint: with over a plain generator ({cm.node.name} is not a @contextmanager)")
            fr = {"state": "pre", "gd": len(self._gen_targets), "body": body, "ctl": None}
            self._cm.append(fr)
            try:
                try:
                    self.block(cm.node.body, dict(cm.env), cm.f.mod, cm.depth)
                except _Return:
                    pass
            finally:
                self._cm.pop()
            if fr["state"] == "pre":
                raise Raised("RuntimeError", "generator didn't yield")
            if fr["ctl"] is not None:
                raise fr["ctl"]
            return None
        if isinstance(cm, Rec) and cm._impl is not None and self.model.method(*cm._impl, "__enter__") and self.model.method(*cm._impl, "__exit__"):
            v = self.apply(self.getattr(cm, "__enter__", st, depth), [], {}, depth)
            ex = self.getattr(cm, "__exit__", st, depth)
            try:
                body(v)
            except Raised as r:
                if not self.truthy(self.apply(ex, [("$exc", r.name), f"<exc:{r.name}>", None], {}, depth)):
                    raise
                return None
            except (_Return, _Break, _Continue):
                self.apply(ex, [None, None, None], {}, depth)
                raise
            self.apply(ex, [None, None, None], {}, depth)
            return None
        if not isinstance(cm, (Rec, Func, ClassRef, tuple)) and hasattr(cm, "__enter__") and hasattr(cm, "__exit__"):
            v = cm.__enter__()
            try:
                body(v)
            except Raised as r:
                if not cm.__exit__(Exception, r, None):
                    raise
                return None
            except (_Return, _Break, _Continue):
                cm.__exit__(None, None, None)
                raise
            cm.__exit__(None, None, None)
            return None
        raise AnalysisError(f"pyint: with-statement not modelled: {norm(st)[:80]}")

    def loop(self, st, env, mod, depth):
        broke = False
        if isinstance(st, ast.For):
            it = self.iterate(self.ev(st.iter, env, mod, depth), st.iter)
            for x in it:
                self.tick()
                self.assign(st.target, x, env, mod, depth)
                try:
                    self.block(st.body, env, mod, depth)
                except _Break:
                    broke = True
                    break
                except _Continue:
                    continue
        else:
            while self.truthy(self.ev(st.test, env, mod, depth)):
                self.tick()
                try:
                    self.block(st.body, env, mod, depth)
                except _Break:
                    broke = True
                    break
                except _Continue:
                    continue
        if not broke:
            self.block(st.orelse, env, mod, depth)

    def iterate(self, v, node):
        if isinstance(v, DictRec):
            return list(v._items)
        if isinstance(v, Gen):
            return iter(v)  # lazy
        if isinstance(v, (list, tuple, set, frozenset, dict, str, bytes, range)) or hasattr(v, "__next__") or type(v).__name__ in ("dict_items", "dict_keys", "dict_values", "zip", "enumerate", "map", "filter", "reversed"):
            return list(v)
        raise AnalysisError(f"pyint: iteration over {type(v).__name__} not modelled: {norm(node)}")

    def try_(self, st, env, mod, depth):
        try:
            try:
                self.block(st.body, env, mod, depth)
            except Raised as r:
                for h in st.handlers:
                    names = ["BaseException"] if h.type is None else [last_attr(e) for e in (h.type.elts if isinstance(h.type, ast.Tuple) else [h.type])]
                    if any(self.exc_isa(r.name, n, mod) for n in names):
                        if h.name:
                            env[h.name] = f"<exc:{r.name}>"
                        prev = env.get("$handling")
                        env["$handling"] = r.name
                        try:
                            self.block(h.body, env, mod, depth)
                        finally:
                            if prev is None:
                                env.pop("$handling", None)
                            else:
                                env["$handling"] = prev
                        break
                else:
                    raise
            else:
                self.block(st.orelse, env, mod, depth)
        finally:
            if st.finalbody:
                self.block(st.finalbody, env, mod, depth)

    def assign(self, target, value, env, mod, depth):
        if isinstance(target, ast.Name):
            env[target.id] = value
        elif isinstance(target, (ast.Tuple, ast.List)):
            vals = list(self.iterate(value, target))
            star = [i for i, e in enumerate(target.elts) if isinstance(e, ast.Starred)]
            if star:
                i = star[0]
                after = len(target.elts) - i - 1
                if len(vals) < len(target.elts) - 1:
                    raise Raised("ValueError")
                parts = vals[:i] + [vals[i : len(vals) - after]] + vals[len(vals) - after :]
                for t, v in zip(target.elts, parts):
                    self.assign(t.value if isinstance(t, ast.Starred) else t, v, env, mod, depth)
            else:
                if len(vals) != len(target.elts):
                    raise Raised("ValueError")
                for t, v in zip(target.elts, vals):
                    self.assign(t, v, env, mod, depth)
        elif isinstance(target, ast.Attribute):
            base = self.ev(target.value, env, mod, depth)
            if not isinstance(base, Rec):
                raise AnalysisError(f"pyint: attribute write on a non-record: {norm(target)}")
            setter = self.find_property(base, target.attr, "setter")
            if setter is not None:
                self.apply(Func(setter[0], setter[1], bound=base), [value], {}, depth)
                return
            object.__setattr__(base, target.attr, value)
            self.writes.append((base._name, "attr", target.attr, value))
        elif isinstance(target, ast.Subscript):
            base = self.ev(target.value, env, mod, depth)
            key = self.ev(target.slice, env, mod, depth)
            if isinstance(base, DictRec):
                for k in [k for k in base._items if base._k(k) == base._k(key)]:
                    del base._items[k]
                base._items[key] = value
                self.writes.append((base._name, "item", key, value))
            elif isinstance(base, (dict, list)):
                try:
                    base[key] = value
                except (IndexError, TypeError) as e:
                    raise Raised(type(e).__name__)
            else:
                raise AnalysisError(f"pyint: item write on {type(base).__name__}: {norm(target)}")
        else:
            raise AnalysisError(f"pyint: assignment target not modelled: {norm(target)}")

    def match(self, pat, subj, env, mod, depth) -> bool:
        if isinstance(pat, ast.MatchValue):
            v = self.ev(pat.value, env, mod, depth)
            return subj == v and (type(subj) is type(v) or isinstance(subj, (int, str, bytes)) and isinstance(v, type(subj)))
        if isinstance(pat, ast.MatchOr):
            return any(self.match(p, subj, env, mod, depth) for p in pat.patterns)
        if isinstance(pat, ast.MatchAs):
            if pat.pattern is not None and not self.match(pat.pattern, subj, env, mod, depth):
                return False
            if pat.name:
                env[pat.name] = subj
            return True
        if isinstance(pat, ast.MatchSingleton):
            return subj is pat.value
        if isinstance(pat, ast.MatchClass):
            cls = self.ev(pat.cls, env, mod, depth)
            if not self.isinstance_(subj, [cls]):
                return False
            for k, p in zip(pat.kwd_attrs, pat.kwd_patterns):
                if not self.match(p, self.getattr(subj, k, pat, depth), env, mod, depth):
                    return False
            if pat.patterns:
                raise AnalysisError("pyint: positional class patterns not modelled")
            return True
        if isinstance(pat, ast.MatchSequence):
            if not isinstance(subj, (list, tuple)) or len(subj) != len(pat.patterns):
                return False
            return all(self.match(p, s, env, mod, depth) for p, s in zip(pat.patterns, subj))
        raise AnalysisError(f"pyint: match pattern not modelled: {type(pat).__name__}")

    # ------------------------------------------------------------------ expressions
    def ev(self, e, env, mod, depth):
        self.tick()
        if isinstance(e, ast.Constant):
            return e.value
        if isinstance(e, ast.Name):
            return self.name(e.id, env, mod, depth, e)
        if isinstance(e, ast.NamedExpr):
            v = self.ev(e.value, env, mod, depth)
            self.assign(e.target, v, env, mod, depth)
            return v
        if isinstance(e, ast.Yield):
            return self.do_yield(self.ev(e.value, env, mod, depth) if e.value is not None else None)
        if isinstance(e, ast.YieldFrom):
            sub = self.ev(e.value, env, mod, depth)
            if isinstance(sub, Gen):
                k = 0
                while True:  # re-yield the sub-generator's values; the expression evaluates to its return value
                    kind, v = self.run_gen_until(sub, k)
                    if kind == "stop":
                        return v
                    self.do_yield(v)
                    k += 1
            for x in self.iterate(sub, e.value):
                self.do_yield(x)
            return None
        if isinstance(e, ast.Attribute):
            base = self.ev(e.value, env, mod, depth)
            return self.getattr(base, e.attr, e, depth)
        if isinstance(e, ast.BoolOp):
            v = None
            for x in e.values:
                v = self.ev(x, env, mod, depth)
                if isinstance(e.op, ast.And) and not self.truthy(v):
                    return v
                if isinstance(e.op, ast.Or) and self.truthy(v):
                    return v
            return v
        if isinstance(e, ast.UnaryOp):
            v = self.ev(e.operand, env, mod, depth)
            if isinstance(e.op, ast.Not):
                return not self.truthy(v)
            if isinstance(e.op, ast.USub):
                return -v
            if isinstance(e.op, ast.Invert):
                return ~v
            if isinstance(e.op, ast.UAdd):
                return +v
        if isinstance(e, ast.Compare):
            left = self.ev(e.left, env, mod, depth)
            for op, c in zip(e.ops, e.comparators):
                right = self.ev(c, env, mod, depth)
                if not self.cmp(op, left, right, e):
                    return False
                left = right
            return True
        if isinstance(e, ast.Tuple):
            return tuple(self.elts(e.elts, env, mod, depth))
        if isinstance(e, ast.List):
            return list(self.elts(e.elts, env, mod, depth))
        if isinstance(e, ast.Set):
            return set(self.elts(e.elts, env, mod, depth))
        if isinstance(e, ast.Dict):
            out = {}
            for k, v in zip(e.keys, e.values):
                if k is None:
                    out.update(self.ev(v, env, mod, depth))
                else:
                    out[self.hashable(self.ev(k, env, mod, depth))] = self.ev(v, env, mod, depth)
            return out
        if isinstance(e, ast.JoinedStr):
            parts = []
            for v in e.values:
                if isinstance(v, ast.Constant):
                    parts.append(str(v.value))
                else:
                    x = self.ev(v.value, env, mod, depth)
                    if isinstance(x, (Rec, Func, ClassRef)):
                        parts.append(f"<{x!r}>")
                    elif v.conversion == ord("r"):
                        parts.append(repr(x))
                    elif v.format_spec is not None:
                        spec = self.ev(v.format_spec, env, mod, depth)
                        parts.append(format(x, spec))
                    else:
                        parts.append(str(x))
            return "".join(parts)
        if isinstance(e, ast.IfExp):
            return self.ev(e.body if self.truthy(self.ev(e.test, env, mod, depth)) else e.orelse, env, mod, depth)
        if isinstance(e, ast.Subscript):
            base = self.ev(e.value, env, mod, depth)
            if isinstance(base, tuple) and base and base[0] == "$typing":
                return ("$typing", base[1], self.elts(e.slice.elts if isinstance(e.slice, ast.Tuple) else [e.slice], env, mod, depth))
            idx = self.ev(e.slice, env, mod, depth)
            if isinstance(base, DictRec):
                for k, v in base._items.items():
                    if base._k(k) == base._k(idx):
                        return v
                raise Raised("KeyError")
            if isinstance(base, Rec):
                raise AnalysisError(f"pyint: subscript of record {base!r}: {norm(e)}")
            try:
                return base[idx]
            except (IndexError, KeyError, TypeError) as ex:
                raise Raised(type(ex).__name__)
        if isinstance(e, ast.Slice):
            return slice(
                self.ev(e.lower, env, mod, depth) if e.lower else None,
                self.ev(e.upper, env, mod, depth) if e.upper else None,
                self.ev(e.step, env, mod, depth) if e.step else None,
            )
        if isinstance(e, ast.BinOp):
            return self.binop(e.op, self.ev(e.left, env, mod, depth), self.ev(e.right, env, mod, depth), e)
        if isinstance(e, ast.Call):
            return self.ev_call(e, env, mod, depth)
        if isinstance(e, (ast.ListComp, ast.SetComp, ast.GeneratorExp, ast.DictComp)):
            return self.comp(e, env, mod, depth)
        if isinstance(e, ast.Lambda):
            return Func(mod, e, closure=env)
        if isinstance(e, ast.Starred):
            raise AnalysisError("pyint: starred expression outside a call/literal")
        raise AnalysisError(f"pyint: expression not modelled: {norm(e)[:100]}")

    def hashable(self, k):
        if isinstance(k, list):
            raise Raised("TypeError")
        return k

    def elts(self, elts, env, mod, depth):
        out = []
        for x in elts:
            if isinstance(x, ast.Starred):
                out.extend(self.iterate(self.ev(x.value, env, mod, depth), x))
            else:
                out.append(self.ev(x, env, mod, depth))
        return out

    def comp(self, e, env, mod, depth):
        out = []
        local = dict(env)

        def rec(i):
            if i == len(e.generators):
                if isinstance(e, ast.DictComp):
                    out.append((self.ev(e.key, local, mod, depth), self.ev(e.value, local, mod, depth)))
                else:
                    out.append(self.ev(e.elt, local, mod, depth))
                return
            g = e.generators[i]
            for x in self.iterate(self.ev(g.iter, local, mod, depth), g.iter):
                self.tick()
                self.assign(g.target, x, local, mod, depth)
                if all(self.truthy(self.ev(c, local, mod, depth)) for c in g.ifs):
                    rec(i + 1)

        rec(0)
        if isinstance(e, ast.ListComp):
            return out
        if isinstance(e, ast.SetComp):
            return set(out)
        if isinstance(e, ast.DictComp):
            return dict(out)
        return iter(out)  # generator expression: materialised eagerly (pure subset), handed out as a one-shot iterator so next() / any() work

    def binop(self, op, l, r, node):
        if isinstance(op, ast.BitOr) and all(isinstance(x, (ClassRef, type)) or (isinstance(x, tuple) and x and x[0] == "$union") for x in (l, r)):
            flat = []
            for x in (l, r):
                flat.extend(x[1] if isinstance(x, tuple) else [x])
            return ("$union", flat)  # X | Y of classes: accepted by isinstance()
        if isinstance(l, (Rec, Func, ClassRef)) or isinstance(r, (Rec, Func, ClassRef)):
            raise AnalysisError(f"pyint: arithmetic on an abstract value: {norm(node)[:80]}")
        try:
            if isinstance(op, ast.Add):
                return l + r
            if isinstance(op, ast.Sub):
                return l - r
            if isinstance(op, ast.Mult):
                return l * r
            if isinstance(op, ast.Mod):
                return l % r
            if isinstance(op, ast.FloorDiv):
                return l // r
            if isinstance(op, ast.Div):
                return l / r
            if isinstance(op, ast.Pow):
                return l**r
            if isinstance(op, ast.BitAnd):
                return l & r
            if isinstance(op, ast.BitOr):
                return l | r
            if isinstance(op, ast.BitXor):
                return l ^ r
            if isinstance(op, ast.LShift):
                return l << r
            if isinstance(op, ast.RShift):
                return l >> r
        except (TypeError, ValueError, ZeroDivisionError, OverflowError) as ex:
            raise Raised(type(ex).__name__)
        raise AnalysisError(f"pyint: operator not modelled: {norm(node)[:80]}")

    def cmp(self, op, a, b, node) -> bool:
        if isinstance(op, (ast.Is, ast.IsNot)):
            same = a is b or (isinstance(a, ClassRef) and isinstance(b, ClassRef) and a.node is b.node) or (
                isinstance(a, (bool, type(None))) and isinstance(b, (bool, type(None))) and a == b and type(a) is type(b)
            ) or (isinstance(a, tuple) and isinstance(b, tuple) and a and a[0] == "$enum" and a == b)
            return same if isinstance(op, ast.Is) else not same
        if isinstance(op, (ast.In, ast.NotIn)):
            if isinstance(b, DictRec):
                r = any(b._k(k) == b._k(a) for k in b._items)
            elif isinstance(b, Rec):
                raise AnalysisError(f"pyint: membership in a record: {norm(node)[:80]}")
            else:
                try:
                    r = a in b
                except TypeError:
                    raise Raised("TypeError")
            return r if isinstance(op, ast.In) else not r
        try:
            if isinstance(op, ast.Eq):
                return a == b
            if isinstance(op, ast.NotEq):
                return a != b
            if isinstance(op, ast.Lt):
                return a < b
            if isinstance(op, ast.LtE):
                return a <= b
            if isinstance(op, ast.Gt):
                return a > b
            if isinstance(op, ast.GtE):
                return a >= b
        except TypeError:
            raise Raised("TypeError")
        raise AnalysisError("pyint: comparison operator not modelled")

    # ------------------------------------------------------------------ names / attributes
    def name(self, ident, env, mod, depth, node):
        if ident in env:
            return env[ident]
        clo = env.get("$closure")
        while clo is not None:
            if ident in clo:
                return clo[ident]
            clo = clo.get("$closure")
        if ident in ("True", "False", "None"):
            return {"True": True, "False": False, "None": None}[ident]
        # module level: rule overrides, definitions, imports, constants
        if (mod.rel, ident) in self.overrides:
            return self.overrides[(mod.rel, ident)]
        d = mod.get(ident)
        if isinstance(d, (ast.FunctionDef, ast.AsyncFunctionDef)):
            return Func(mod, d)
        if isinstance(d, ast.ClassDef):
            return ClassRef(mod, d)
        if ident in mod.imports:
            target = mod.imports[ident]
            root = target.split(".")[0]
            if target in self.trusted:
                return self.trusted[target]
            if root in self.trusted and target.count(".") >= 1:
                obj = self.trusted[root]
                for part in target.split(".")[1:]:
                    obj = getattr(obj, part)
                return obj
            if target == "typing" or root == "typing":
                return ("$typing", target)
            r = self.model.resolve_name(mod, ast.Name(id=ident))
            if r:
                m, dd = r
                if isinstance(dd, ast.ClassDef):
                    return ClassRef(m, dd)
                return Func(m, dd)
            m2 = self.model.module_by_dotted(target)
            if m2 is not None:
                return ("$module", m2)
            # from pkg import NAME where NAME is a module-level constant
            if "." in target:
                m3 = self.model.module_by_dotted(target.rsplit(".", 1)[0])
                if m3 is not None and m3.assigns(target.rsplit(".", 1)[1]):
                    return self.modconst(m3, target.rsplit(".", 1)[1], depth)
            raise AnalysisError(f"pyint: import {ident} -> {target} is neither trusted nor a repository definition")
        vals = mod.assigns(ident)
        if vals:
            return self.modconst(mod, ident, depth)
        # `A, B, C = <sequence>` at module level (flat tuple / list target)
        key = (mod.rel, ident)
        if key in self._modconst:
            return self._modconst[key]
        if module_init_statements(mod, ident) is not None:
            return self.modconst(mod, ident, depth)
        for st in mod.tree.body:
            if isinstance(st, ast.Assign):
                for t in st.targets:
                    if isinstance(t, (ast.Tuple, ast.List)) and all(isinstance(e, ast.Name) for e in t.elts) and any(e.id == ident for e in t.elts):
                        seq = list(self.iterate(self.ev(st.value, {}, mod, depth), st.value))
                        if len(seq) != len(t.elts):
                            raise Raised("ValueError")
                        for e, v in zip(t.elts, seq):
                            self._modconst[(mod.rel, e.id)] = v
                        return self._modconst[key]
        if ident == "__name__":
            return getattr(mod, "dotted", None) or mod.rel[:-3].replace("/", ".")
        if ident in SAFE_BUILTINS:
            return SAFE_BUILTINS[ident]
        if ident in ("isinstance", "getattr", "hasattr", "callable", "type", "issubclass", "print", "super", "setattr", "next", "iter", "filter", "map"):
            return ("$builtin", ident)
        b = getattr(builtins, ident, None)
        if isinstance(b, type) and issubclass(b, BaseException):
            return ("$exc", ident)
        raise AnalysisError(f"pyint: unbound name {ident}")

    def modconst(self, mod, name, depth):
        key = (mod.rel, name)
        if key in self._modconst:
            return self._modconst[key]
        stmts = module_init_statements(mod, name)
        if stmts is None:  # plain `NAME = expr` statements only: the last one is the value
            self._modconst[key] = self.ev(mod.assigns(name)[-1], {}, mod, depth)
            return self._modconst[key]
        # the object is completed by later top-level statements (`T = {}` .. `T[k] = f`, `T.update(..)`, a `for` filling it, `if c: N = a else: N = b`):
        # execute exactly those statements, in program order, like the import of the module does
        busy = self.__dict__.setdefault("_modinit_busy", set())
        if key in busy:
            raise AnalysisError(f"pyint: module-level initialisation of {mod.rel}::{name} depends on itself through another module-level name (not modelled)")
        busy.add(key)
        try:
            env: dict = {}
            try:
                for st in stmts:
                    self.stmt(st, env, mod, depth)
            except Raised as r:
                raise AnalysisError(f"pyint: module-level initialisation of {mod.rel}::{name} raises {r.name} (not modelled)")
            except (_Return, _Break, _Continue):
                raise AnalysisError(f"pyint: module-level initialisation of {mod.rel}::{name}: control flow not modelled")
        finally:
            busy.discard(key)
        if name not in env:
            raise AnalysisError(f"pyint: module-level initialisation of {mod.rel}::{name} leaves the name unbound on the evaluated path")
        self._modconst[key] = env[name]
        return env[name]

    def class_attr(self, cref: ClassRef, attr, depth):
        for m, c in self.model.mro(cref.mod.rel, getattr(cref.node, "_qual", cref.node.name)):
            for st in c.body:
                if isinstance(st, (ast.FunctionDef, ast.AsyncFunctionDef)) and st.name == attr:
                    return Func(m, st)
                if isinstance(st, ast.Assign) and any(isinstance(t, ast.Name) and t.id == attr for t in st.targets):
                    is_enum = any(last_attr(b) in ("Enum", "IntEnum", "Flag", "IntFlag", "StrEnum") for _, cc in self.model.mro(cref.mod.rel, getattr(cref.node, "_qual", cref.node.name)) for b in cc.bases)
                    v = self.ev(st.value, {}, m, depth)
                    return ("$enum", cref.node.name, attr, v if isinstance(v, NATIVE_TYPES) else None) if is_enum else v
                if isinstance(st, ast.AnnAssign) and isinstance(st.target, ast.Name) and st.target.id == attr and st.value is not None:
                    return self.ev(st.value, {}, m, depth)
        raise AnalysisError(f"pyint: class {cref.node.name} has no attribute {attr}")

    def find_property(self, rec: Rec, attr, kind="getter"):
        if rec._impl is None:
            return None
        for m, c in self.model.mro(*rec._impl):
            for st in c.body:
                if isinstance(st, ast.FunctionDef) and st.name == attr:
                    decs = [norm(d) for d in st.decorator_list]
                    if kind == "getter" and any(d in ("property", "cached_property", "functools.cached_property") for d in decs):
                        return m, st
                    if kind == "setter" and any(d == f"{attr}.setter" for d in decs):
                        return m, st
        return None

    def getattr(self, base, attr, node, depth):
        if isinstance(base, Rec):
            if attr in base.__dict__:
                return base.__dict__[attr]
            if isinstance(base, DictRec) and attr in ("get", "pop", "items", "keys", "values", "setdefault", "get_all", "clear", "copy"):
                return ("$dictmethod", base, attr)
            p = self.find_property(base, attr)
            if p is not None:
                return self.apply(Func(p[0], p[1], bound=base), [], {}, depth)
            if base._impl is not None:
                r = self.model.method(base._impl[0], base._impl[1], attr)
                if r is not None:
                    decs = [norm(d) for d in r[1].decorator_list]
                    if "staticmethod" in decs:
                        return Func(r[0], r[1])
                    return Func(r[0], r[1], bound=base)
                # class-level constant
                try:
                    return self.class_attr(ClassRef(self.model.module(base._impl[0]), self.model.cls(*base._impl)), attr, depth)
                except AnalysisError:
                    pass
            raise AnalysisError(f"pyint: abstract record {base!r} has no attribute '{attr}' (extend the rule's domain)")
        if isinstance(base, ClassRef):
            if attr == "__name__":
                return base.node.name
            if attr == "__qualname__":
                return getattr(base.node, "_qual", base.node.name)
            return self.class_attr(base, attr, depth)
        if isinstance(base, tuple) and base and base[0] == "$module":
            m = base[1]
            if (m.rel, attr) in self.overrides:
                return self.overrides[(m.rel, attr)]
            d = m.get(attr)
            if isinstance(d, ast.ClassDef):
                return ClassRef(m, d)
            if isinstance(d, (ast.FunctionDef, ast.AsyncFunctionDef)):
                return Func(m, d)
            if m.assigns(attr):
                return self.modconst(m, attr, depth)
            if attr in m.imports:
                return self.name(attr, {}, m, depth, node)
            raise AnalysisError(f"pyint: module {m.rel} has no attribute {attr}")
        if isinstance(base, tuple) and base and base[0] == "$typing":
            return ("$typing", base[1] + "." + attr)
        if isinstance(base, tuple) and base and base[0] == "$super":
            _, me, fnode = base
            mro = self.model.mro(*me._impl)
            # the class that defines the running method
            idx = next((i for i, (mm, cc) in enumerate(mro) if any(st is fnode for st in cc.body)), None)
            if idx is None:
                raise AnalysisError("pyint: super(): defining class not found")
            for mm, cc in mro[idx + 1 :]:
                for st in cc.body:
                    if isinstance(st, (ast.FunctionDef,)) and st.name == attr:
                        return Func(mm, st, bound=me)
            ext = me.__dict__.get("_super_stubs", {})
            if attr in ext:
                return ext[attr]
            raise AnalysisError(f"pyint: super().{attr} is neither a repository method nor a rule-supplied stub")
        if isinstance(base, tuple) and base and base[0] == "$enum":
            if attr == "value":
                return base[3]
            if attr == "name":
                return base[2]
            raise AnalysisError(f"pyint: enum member attribute {attr} not modelled")
        if isinstance(base, Func):
            if attr == "__name__":
                return base.node.name
            raise AnalysisError(f"pyint: function attribute {attr} not modelled")
        # native value or trusted module/object
        try:
            return getattr(base, attr)
        except AttributeError:
            raise Raised("AttributeError")

    # ------------------------------------------------------------------ calls
    def isinstance_(self, v, classes) -> bool:
        for c in classes:
            if isinstance(c, ClassRef):
                if isinstance(v, Rec) and v.isa(c.node.name):
                    return True
                if isinstance(v, Rec) and v._impl is not None and c.node.name in {cc.name for _, cc in self.model.mro(*v._impl)}:
                    return True
                if isinstance(v, tuple) and v and v[0] == "$enum" and v[1] == c.node.name:
                    return True
            elif isinstance(c, type):
                if not isinstance(v, (Rec, Func, ClassRef)) and isinstance(v, c):
                    return True
            elif isinstance(c, tuple) and c and c[0] == "$exc":
                continue
            elif isinstance(c, tuple) and c and c[0] == "$union":
                if self.isinstance_(v, list(c[1])):
                    return True
            elif isinstance(c, (tuple, list)):
                if self.isinstance_(v, list(c)):
                    return True
            else:
                raise AnalysisError(f"pyint: isinstance against {c!r} not modelled")
        return False

    def ev_call(self, e, env, mod, depth):
        if self.externals:
            text = self._functext.get(id(e))
            if text is None:
                text = self._functext[id(e)] = norm(e.func)
            if text in self.externals:
                args = self.elts(e.args, env, mod, depth)
                kwargs = {k.arg: self.ev(k.value, env, mod, depth) for k in e.keywords if k.arg}
                return self.externals[text](*args, **kwargs)
        f = self.ev(e.func, env, mod, depth)
        args = self.elts(e.args, env, mod, depth)
        kwargs = {}
        for k in e.keywords:
            if k.arg is None:
                kwargs.update(self.ev(k.value, env, mod, depth))
            else:
                kwargs[k.arg] = self.ev(k.value, env, mod, depth)
        if isinstance(f, tuple) and f and f[0] == "$builtin":
            return self.builtin(f[1], args, kwargs, e, env, mod, depth)
        if isinstance(f, tuple) and f and f[0] == "$dictmethod":
            return self.dictmethod(f[1], f[2], args, kwargs)
        if isinstance(f, tuple) and f and f[0] == "$typing":
            name = f[1].rsplit(".", 1)[-1]
            if name == "cast":
                return args[1]
            if name == "get_args":
                t = args[0]
                if isinstance(t, tuple) and t and t[0] == "$typing":
                    return tuple(t[2])
                raise AnalysisError("pyint: typing.get_args of a non-subscripted type")
            if name == "assert_never":
                raise Raised("AssertionError")
            raise AnalysisError(f"pyint: typing.{name} not modelled")
        if isinstance(f, tuple) and f and f[0] == "$exc":
            return f"<exc:{f[1]}>"
        return self.apply(f, args, kwargs, depth, e)

    def builtin(self, name, args, kwargs, e, env, mod, depth):
        if name == "isinstance":
            cls = args[1]
            return self.isinstance_(args[0], list(cls) if isinstance(cls, (tuple, list)) and not (cls and cls[0] in ("$exc", "$typing", "$union")) else [cls])
        if name == "hasattr":
            try:
                self.getattr(args[0], args[1], e, depth)
                return True
            except (AnalysisError, Raised):
                return False
        if name == "getattr":
            try:
                return self.getattr(args[0], args[1], e, depth)
            except (AnalysisError, Raised):
                if len(args) > 2:
                    return args[2]
                raise
        if name == "setattr":
            tgt = ast.Attribute(value=ast.Name(id="$o"), attr=args[1])
            self.assign(tgt, args[2], {"$o": args[0]}, mod, depth)
            return None
        if name == "callable":
            return isinstance(args[0], (Func, ClassRef)) or callable(args[0])
        if name == "type":
            v = args[0]
            if isinstance(v, Rec):
                if v._impl is not None:
                    return ClassRef(self.model.module(v._impl[0]), self.model.cls(*v._impl))
                raise AnalysisError(f"pyint: type() of an unbound abstract record {v!r}")
            return type(v)
        if name == "print":
            return None
        if name == "super":
            me, fnode = env.get("$self"), env.get("$fn")
            if not isinstance(me, Rec) or me._impl is None or fnode is None:
                raise AnalysisError("pyint: super() outside a method of a bound record")
            return ("$super", me, fnode)
        if name in ("filter", "map"):
            # eager (the interpreted subset is pure), handed out as one-shot iterators like the built-ins
            fn, seqs = args[0], [list(self.iterate(a, e)) for a in args[1:]]
            if name == "filter":
                if len(seqs) != 1:
                    raise Raised("TypeError", "filter expected 2 arguments")
                keep = (lambda x: self.truthy(x)) if fn is None else (lambda x: self.truthy(self.apply(fn, [x], {}, depth, e)))
                return iter([x for x in seqs[0] if keep(x)])
            return iter([self.apply(fn, list(xs), {}, depth, e) for xs in zip(*seqs)])
        if name in ("next", "iter"):
            if name == "iter":
                return iter(self.iterate(args[0], e))
            try:
                return next(args[0]) if len(args) == 1 else next(args[0], args[1])
            except StopIteration:
                raise Raised("StopIteration")
        raise AnalysisError(f"pyint: builtin {name} not modelled")

    def dictmethod(self, d: DictRec, name, args, kwargs):
        def find(k):
            for kk, v in d._items.items():
                if d._k(kk) == d._k(k):
                    return kk, v
            return None

        if name == "get":
            r = find(args[0])
            return r[1] if r else (args[1] if len(args) > 1 else kwargs.get("default"))
        if name == "get_all":
            r = find(args[0])
            return [r[1]] if r else []
        if name == "pop":
            r = find(args[0])
            if r:
                del d._items[r[0]]
                self.writes.append((d._name, "del", args[0], None))
                return r[1]
            if len(args) > 1:
                return args[1]
            raise Raised("KeyError")
        if name == "setdefault":
            r = find(args[0])
            if r:
                return r[1]
            d._items[args[0]] = args[1] if len(args) > 1 else None
            self.writes.append((d._name, "item", args[0], d._items[args[0]]))
            return d._items[args[0]]
        if name == "items":
            return list(d._items.items())
        if name == "keys":
            return list(d._items.keys())
        if name == "values":
            return list(d._items.values())
        if name == "clear":
            d._items.clear()
            self.writes.append((d._name, "clear", None, None))
            return None
        if name == "copy":
            return dict(d._items)
        raise AnalysisError(f"pyint: mapping method {name} not modelled")

    def apply(self, f, args, kwargs, depth, node=None):
        self.calls += 1
        if isinstance(f, Func):
            if depth + 1 > self.max_depth:
                raise AnalysisError(f"pyint: call depth {self.max_depth} exceeded at {norm(node)[:80] if node is not None else '?'}")
            return self.call_func(f, args, kwargs, depth + 1)
        where = _LazyWhere(node)  # rendered only if a message needs it (ast.unparse per call was a hotspot)
        if isinstance(f, ClassRef):
            return self.instantiate(f, args, kwargs, depth, where)
        if isinstance(f, (Rec,)):
            c = self.getattr(f, "__call__", node, depth)
            return self.apply(c, args, kwargs, depth, node)
        if callable(f):
            return self.native_call(f, args, kwargs, where)
        raise AnalysisError(f"pyint: call of a non-callable at {where}: {f!r}")

    def call_func(self, f: Func, args, kwargs, depth):
        node = f.node
        a = node.args
        env = {"$closure": f.closure} if f.closure else {}
        params = [p.arg for p in a.posonlyargs + a.args]
        args = list(args)
        if f.bound is not None and params and params[0] in ("self", "cls"):
            args = [f.bound] + args
            env["$self"] = f.bound
            env["$fn"] = node
        for p, v in zip(params, args):
            env[p] = v
        extra = args[len(params):]
        if a.vararg:
            env[a.vararg.arg] = tuple(extra)
        elif extra:
            raise Raised("TypeError", "too many positional arguments")
        defaults = a.defaults
        dnames = params[len(params) - len(defaults):]
        for p, d in zip(dnames, defaults):
            if p not in env and p not in kwargs:
                env[p] = self.ev(d, {}, f.mod, depth)
        for p, d in zip(a.kwonlyargs, a.kw_defaults):
            if p.arg not in kwargs and d is not None:
                env[p.arg] = self.ev(d, {}, f.mod, depth)
        known = set(params) | {p.arg for p in a.kwonlyargs}
        rest = {}
        for k, v in kwargs.items():
            if k in known:
                env[k] = v
            else:
                rest[k] = v
        if a.kwarg:
            env[a.kwarg.arg] = rest
        elif rest:
            raise Raised("TypeError", f"unexpected keyword {list(rest)}")
        for p in params + [p.arg for p in a.kwonlyargs]:
            if p not in env:
                raise Raised("TypeError", f"missing argument {p}")
        if isinstance(node, ast.Lambda):
            return self.ev(node.body, env, f.mod, depth)
        kind = self._fnkind.get(id(node))
        if kind is None:
            kind = "plain"
            for n in ast.walk(node):
                if isinstance(n, ast.Await) and self._owner(n, node):
                    kind = "coroutine"
                    break
                if isinstance(n, (ast.Yield, ast.YieldFrom)) and self._owner(n, node):
                    kind = "gen"
            if kind == "gen" and isinstance(node, ast.AsyncFunctionDef):
                kind = "asyncgen"
            self._fnkind[id(node)] = kind
        if kind == "coroutine":
            raise AnalysisError(f"pyint: {node.name} is a coroutine (not a pure decision function)")
        if kind == "asyncgen":
            raise AnalysisError(f"pyint: {node.name} is an async generator (not modelled)")
        if kind == "gen":
            return Gen(self, f, node, env, depth)
        try:
            self.block(node.body, env, f.mod, depth)
        except _Return as r:
            return r.value
        return None

    def run_gen_until(self, g: "Gen", k: int):
        """Replay the *pure* generator ``g`` from the start and stop at its k-th yield: ('yield', value) | ('stop', return value).
        Laziness is preserved (code after the k-th yield is not run), at quadratic cost - meant for short abstract inputs."""
        # a replay starts from the state the generator call saw: effects of earlier replays on records / containers reachable from
        # the arguments (self.buf += ..., self.x = ...) are undone in place first, so each effect happens once per real step.
        # (Not supported: a consumer that itself mutates those same objects between two steps.)
        if g.snap is None:
            g.snap = _snapshot(list(g.env.values()))
        else:
            _restore(g.snap)
        env = dict(g.env)
        self._gen_targets.append([k, 0])
        try:
            try:
                self.block(g.node.body, env, g.f.mod, g.depth)
            except _Yielded as y:
                return ("yield", y.value)
            except _Return as r:
                return ("stop", r.value)
            return ("stop", None)
        finally:
            self._gen_targets.pop()

    def do_yield(self, value):
        if self._cm and len(self._gen_targets) == self._cm[-1]["gd"]:
            fr = self._cm[-1]
            if fr["state"] == "pre":
                fr["state"] = "body"
                try:
                    fr["body"](value)
                except (_Return, _Break, _Continue) as c:
                    fr["ctl"] = c
                finally:
                    fr["state"] = "post"
                return None
            if fr["state"] == "post":
                raise Raised("RuntimeError", "generator didn't stop")
        if not self._gen_targets:
            raise AnalysisError("pyint: yield outside a generator replay")
        top = self._gen_targets[-1]
        if top[1] == top[0]:
            raise _Yielded(value)
        top[1] += 1
        return None

    @staticmethod
    def _owner(n, fn):
        p = getattr(n, "_parent", None)
        while p is not None and not isinstance(p, (ast.FunctionDef, ast.AsyncFunctionDef, ast.Lambda)):
            p = getattr(p, "_parent", None)
        return p is fn

    def instantiate(self, c: ClassRef, args, kwargs, depth, where):
        qual = getattr(c.node, "_qual", c.node.name)
        names = [cc.name for _, cc in self.model.mro(c.mod.rel, qual)]
        ext = {last_attr(b) for _, cc in self.model.mro(c.mod.rel, qual) for b in cc.bases}
        if ext & {"Exception", "ValueError", "BaseException", "RuntimeError", "TypeError", "KeyError"}:
            return f"<exc:{c.node.name}>"
        rec = Rec(c.node.name, _bases=tuple(names[1:]) + tuple(ext), _impl=(c.mod.rel, qual))
        init = self.model.method(c.mod.rel, qual, "__init__")
        if init is not None:
            self.apply(Func(init[0], init[1], bound=rec), list(args), kwargs, depth)
            return rec
        # dataclass-like: annotated fields in order
        fields = []
        for _, cc in reversed(self.model.mro(c.mod.rel, qual)):
            for st in cc.body:
                if isinstance(st, ast.AnnAssign) and isinstance(st.target, ast.Name) and "ClassVar" not in norm(st.annotation):
                    if st.target.id not in [f[0] for f in fields]:
                        fields.append((st.target.id, st.value, cc))
        for (name, default, _), v in zip(fields, args):
            object.__setattr__(rec, name, v)
        for k, v in kwargs.items():
            object.__setattr__(rec, k, v)
        for name, default, cc in fields:
            if name not in rec.__dict__ and default is not None:
                object.__setattr__(rec, name, self.ev(default, {}, c.mod, depth))
        return rec
