# Positive / negative examples for R49.1 (C49).  Loaded as TEXT and parsed with ast on every run - never imported.
# A call marked "EXPECT: R49.1" must be reported, one marked "CLEAN: R49.1" must be a checked sink site that stays silent.
import sys

from mitmproxy.utils import human
from mitmproxy.utils import strutils


def indent(n, text):
    pad = " " * n
    return "\n".join(pad + i for i in str(text).splitlines())


class Dumper:
    def __init__(self, outfile=None):
        self.outfp = outfile or sys.stdout
        self.last_host = ""

    def style(self, text, **style):
        return text

    def echo(self, text, ident=None, **style):
        if ident:
            text = indent(ident, text)
        text = self.style(text, **style)
        print(text, file=self.outfp)  # CLEAN: R49.1

    def _line(self, prefix, value):
        self.echo(f"{prefix}: {value}")  # CLEAN: R49.1

    def _describe(self, websocket):
        ret = f"code={websocket.close_code}"
        if websocket.close_reason:
            ret += f" (reason: {websocket.close_reason})"
        return ret

    # ---- hooks (entries: their parameters are flows) ----
    def websocket_end(self, f):
        self.echo(f"closed: {f.websocket.close_reason}")  # EXPECT: R49.1
        self.echo(f"closed: {strutils.escape_control_characters(f.websocket.close_reason)}")  # CLEAN: R49.1
        self.echo("error: " + self._describe(f.websocket), fg="red")  # EXPECT: R49.1

    def tcp_error(self, f):
        self.echo("Error: {msg}".format(msg=f.error), fg="red")  # EXPECT: R49.1
        self.echo("to %s" % human.format_address(f.server_conn.address))  # EXPECT: R49.1
        self.echo("from %s" % human.format_address(f.client_conn.peername))  # CLEAN: R49.1

    def dns_response(self, f):
        answers = ", ".join(self.style(str(x), fg="blue") for x in f.response.answers)
        self.echo(f" << {answers}")  # EXPECT: R49.1
        name = strutils.escape_control_characters(f.request.questions[0].name)
        name = name + " / " + f.request.questions[0].name
        self.echo(name)  # EXPECT: R49.1

    def request(self, f):
        self._line("path", f.request.path)  # EXPECT: R49.1
        self._line("path", strutils.escape_control_characters(f.request.path))  # CLEAN: R49.1
        self.last_host = f.request.host
        url = f.request.url
        if len(url) > 50:
            url = url[:50] + "..."
        url = strutils.escape_control_characters(url)
        self.echo(url, ident=4, bold=True)  # CLEAN: R49.1
        print(f.request.http_version, file=self.outfp)  # EXPECT: R49.1
        self.outfp.write(f.request.method)  # EXPECT: R49.1

    def response(self, f):
        self.echo("host was " + self.last_host)  # EXPECT: R49.1
        for k, v in f.response.headers.fields:
            self.echo(f"{strutils.bytes_to_escaped_str(k)}: {v}", ident=4)  # EXPECT: R49.1
