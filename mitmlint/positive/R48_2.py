# Positive / negative examples for R48.2 (C48).  Loaded as TEXT and parsed with ast on every run - never imported.
# "EXPECT: R48.2" = the printf FORMAT operand on that line must be reported; "CLEAN: R48.2" = checked and silent.
import shlex


def defective_like_today(request):
    text = request.get_text(strict=True)
    escape_control_chars = {chr(i): f"\\x{i:02x}" for i in range(32)}
    escaped_text = "".join(escape_control_chars.get(x, x) for x in text)
    return f'"$(printf {shlex.quote(escaped_text)})"'  # EXPECT: R48.2


def repaired_with_table(request):
    text = request.get_text(strict=True)
    table = {chr(i): f"\\x{i:02x}" for i in range(32)}
    table["%"] = "%%"
    table["\\"] = "\\\\"
    escaped_text = "".join(table.get(x, x) for x in text)
    return f'"$(printf {shlex.quote(escaped_text)})"'  # CLEAN: R48.2


def repaired_with_replace(request):
    text = request.get_text(strict=True)
    text = text.replace("\\", "\\\\").replace("%", "%%")
    table = {chr(i): f"\\x{i:02x}" for i in range(32)}
    escaped_text = "".join(table.get(x, x) for x in text)
    return f'"$(printf {shlex.quote(escaped_text)})"'  # CLEAN: R48.2


def data_as_argument(request):
    text = request.get_text(strict=True)
    return f"\"$(printf '%s' {shlex.quote(text)})\""  # CLEAN: R48.2


def only_percent_escaped(request):
    text = request.get_text(strict=True).replace("%", "%%")
    return '"$(printf ' + shlex.quote(text) + ')"'  # EXPECT: R48.2


def table_with_wrong_value(request):
    text = request.get_text(strict=True)
    table = {chr(i): f"\\x{i:02x}" for i in range(32)}
    table["%"] = "%"
    table["\\"] = "\\\\"
    escaped_text = "".join(table.get(x, x) for x in text)
    return f'"$(printf {shlex.quote(escaped_text)})"'  # EXPECT: R48.2


def escaped_then_raw_appended(request):
    text = request.get_text(strict=True)
    safe = text.replace("\\", "\\\\").replace("%", "%%")
    safe += request.headers.get("x-suffix", "")
    return f'"$(printf {shlex.quote(safe)})"'  # EXPECT: R48.2
