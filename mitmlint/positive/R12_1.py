# Positive / negative examples for R12.1 (C12).  Loaded as TEXT and parsed with ast on every run - never imported.
# A line marked "EXPECT: R12.1" must be reported, a line marked "CLEAN: R12.1" must be checked and stay silent.
import html

RESPONSES = {400: "Bad Request"}


def reflected_fstring(status_code: int, message: str) -> bytes:
    return f"<html><body><h1>{status_code}</h1><p>{message}</p></body></html>".encode()  # EXPECT: R12.1


def escaped_fstring(status_code: int, message: str) -> bytes:
    reason = RESPONSES.get(status_code, "Unknown")
    return f"<html><body><h1>{status_code} {reason}</h1><p>{html.escape(message)}</p></body></html>".encode()  # CLEAN: R12.1


def reflected_percent(message):
    return "<p>%s</p>" % message  # EXPECT: R12.1


def reflected_format(message):
    return "<title>{}</title>".format(message)  # EXPECT: R12.1


def reflected_concat(message):
    return "<h1>" + message + "</h1>"  # EXPECT: R12.1


def reflected_through_local(event):
    detail = "upstream said: " + event.message
    text = detail if detail else "?"
    return f"<body><p>{text}</p></body>"  # EXPECT: R12.1


def escaped_through_local(event):
    detail = "upstream said: " + event.message
    detail = html.escape(detail)
    return f"<body><p>{detail}</p></body>"  # CLEAN: R12.1


def reflected_through_helper(request):
    return "<p>{}</p>".format(_describe(request))  # EXPECT: R12.1


def _describe(request):
    parts = []
    for k, v in request.headers.items():
        parts.append(f"{k}={v}")
    return ", ".join(parts)


def escaped_too_early(message):
    safe = html.escape(message)
    safe += message
    return f"<p>{safe}</p>"  # EXPECT: R12.1


def _wrap_page(title, body):
    # a private helper: its parameters are decided at its call sites
    return f"<html><head><title>{title}</title></head><body>{body}</body></html>"  # CLEAN: R12.1


def page_through_private_helper_escaped(status_code: int, message: str):
    return _wrap_page(str(status_code), html.escape(message))


def page_through_private_helper_reflected(status_code: int, message: str):
    return _wrap_page(str(status_code), message)  # EXPECT: R12.1


_NOTE_TEMPLATE = """
    <p>{note}</p>
"""


def reflected_module_template(note):
    import textwrap

    return textwrap.dedent(_NOTE_TEMPLATE).format(note=note)  # EXPECT: R12.1


def escaped_local_template(note):
    template = "<p>%s</p>"
    return template % html.escape(note)  # CLEAN: R12.1
