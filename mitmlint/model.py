"""E1: the parsed program. Modules, classes, functions, MRO, constants, light call resolution.

Source is read from the repository working tree on every construction; ``overrides`` replaces the
text of single files in memory (used by the self-test mutants, never written to disk).
"""

from __future__ import annotations

import ast
from pathlib import Path

from .core import AnalysisError
from .core import norm


class Module:
    def __init__(self, rel: str, source: str):
        self.rel = rel
        self.source = source
        try:
            self.tree = ast.parse(source, filename=rel)
        except SyntaxError as e:  # a mutant or a broken tree
            raise AnalysisError(f"{rel}: does not parse: {e}")
        for parent in ast.walk(self.tree):
            for child in ast.iter_child_nodes(parent):
                child._parent = parent  # type: ignore[attr-defined]
        self.tree._parent = None  # type: ignore[attr-defined]
        self._defs: dict[str, ast.AST] = {}
        self._index(self.tree, "")
        self.imports = self._imports()

    @property
    def dotted(self) -> str:
        p = self.rel[:-3] if self.rel.endswith(".py") else self.rel
        if p.endswith("/__init__"):
            p = p[: -len("/__init__")]
        return p.replace("/", ".")

    def _index(self, node, prefix):
        for child in getattr(node, "body", []):
            if isinstance(child, (ast.FunctionDef, ast.AsyncFunctionDef, ast.ClassDef)):
                q = prefix + child.name
                # later definitions win (like Python), but keep the first for @overload-free code
                self._defs[q] = child
                child._qual = q  # type: ignore[attr-defined]
                self._index(child, q + ".")
            elif isinstance(child, (ast.If, ast.Try, ast.With)):
                # definitions nested in module-level if/try
                for sub in ast.iter_child_nodes(child):
                    pass
                self._index_block(child, prefix)

    def _index_block(self, node, prefix):
        for name in ("body", "orelse", "finalbody", "handlers"):
            for child in getattr(node, name, []):
                if isinstance(child, (ast.FunctionDef, ast.AsyncFunctionDef, ast.ClassDef)):
                    q = prefix + child.name
                    self._defs.setdefault(q, child)
                    child._qual = q  # type: ignore[attr-defined]
                    self._index(child, q + ".")
                elif isinstance(child, (ast.If, ast.Try, ast.With, ast.ExceptHandler)):
                    self._index_block(child, prefix)

    def _imports(self) -> dict[str, str]:
        """local name -> dotted target ('pkg.mod' or 'pkg.mod.name')."""
        out: dict[str, str] = {}
        pkg = self.dotted if self.rel.endswith("__init__.py") else self.dotted.rsplit(".", 1)[0] if "." in self.dotted else ""
        for n in ast.walk(self.tree):
            if isinstance(n, ast.Import):
                for a in n.names:
                    if a.asname:
                        out[a.asname] = a.name
                    else:
                        out[a.name.split(".")[0]] = a.name.split(".")[0]
            elif isinstance(n, ast.ImportFrom):
                base = n.module or ""
                if n.level:
                    parts = pkg.split(".") if pkg else []
                    parts = parts[: len(parts) - (n.level - 1)] if n.level > 1 else parts
                    base = ".".join(parts + ([n.module] if n.module else []))
                for a in n.names:
                    out[a.asname or a.name] = f"{base}.{a.name}"
        return out

    def get(self, qual: str):
        return self._defs.get(qual)

    def defs(self):
        return dict(self._defs)

    def assigns(self, name: str):
        """Module-level assignment value nodes to ``name`` (Assign / AnnAssign)."""
        out = []
        for st in self.tree.body:
            if isinstance(st, ast.Assign):
                for t in st.targets:
                    if isinstance(t, ast.Name) and t.id == name:
                        out.append(st.value)
            elif isinstance(st, ast.AnnAssign) and isinstance(st.target, ast.Name) and st.target.id == name and st.value:
                out.append(st.value)
        return out


class Model:
    def __init__(self, repo: Path, overrides: dict[str, str] | None = None):
        self.repo = Path(repo)
        self.overrides = overrides or {}
        self._mods: dict[str, Module] = {}
        # the sources of one Model never change: hierarchy / existence queries are memoised (interpreting rules ask them per call)
        self._mro_cache: dict = {}
        self._method_cache: dict = {}
        self._exists_cache: dict = {}

    # -- modules ---------------------------------------------------------------------------------
    def source(self, rel: str) -> str:
        if rel in self.overrides:
            return self.overrides[rel]
        p = self.repo / rel
        if not p.exists():
            raise AnalysisError(f"anchor file vanished: {rel}")
        return p.read_text(encoding="utf-8")

    def module(self, rel: str) -> Module:
        if rel not in self._mods:
            self._mods[rel] = Module(rel, self.source(rel))
        return self._mods[rel]

    def exists(self, rel: str) -> bool:
        r = self._exists_cache.get(rel)
        if r is None:
            r = self._exists_cache[rel] = rel in self.overrides or (self.repo / rel).exists()
        return r

    def all_modules(self, sub: str = "mitmproxy", exclude=("mitmproxy/contrib/",)) -> list[Module]:
        out = []
        for p in sorted((self.repo / sub).rglob("*.py")):
            rel = p.relative_to(self.repo).as_posix()
            if any(rel.startswith(e) for e in exclude):
                continue
            out.append(self.module(rel))
        return out

    def module_by_dotted(self, dotted: str) -> Module | None:
        base = dotted.replace(".", "/")
        for rel in (base + ".py", base + "/__init__.py"):
            if self.exists(rel):
                return self.module(rel)
        return None

    # -- definitions -----------------------------------------------------------------------------
    def func(self, rel: str, qual: str):
        n = self.module(rel).get(qual)
        if n is None or not isinstance(n, (ast.FunctionDef, ast.AsyncFunctionDef)):
            raise AnalysisError(f"anchor function vanished: {rel}::{qual}")
        return n

    def cls(self, rel: str, qual: str) -> ast.ClassDef:
        n = self.module(rel).get(qual)
        if n is None or not isinstance(n, ast.ClassDef):
            raise AnalysisError(f"anchor class vanished: {rel}::{qual}")
        return n

    def has(self, rel: str, qual: str) -> bool:
        return self.exists(rel) and self.module(rel).get(qual) is not None

    def const(self, rel: str, name: str):
        vals = self.module(rel).assigns(name)
        if not vals:
            raise AnalysisError(f"anchor constant vanished: {rel}::{name}")
        return vals[-1]

    def literal(self, rel: str, name: str):
        node = self.const(rel, name)
        try:
            return ast.literal_eval(node)
        except Exception:
            raise AnalysisError(f"{rel}::{name} is not a literal any more: {norm(node)}")

    # -- class hierarchy --------------------------------------------------------------------------
    def resolve_name(self, mod: Module, expr) -> tuple[Module, ast.AST] | None:
        """Resolve a Name / dotted Attribute used in ``mod`` to a definition in the repository."""
        parts = []
        e = expr
        while isinstance(e, ast.Attribute):
            parts.append(e.attr)
            e = e.value
        if isinstance(e, ast.Subscript):  # Generic[T]
            return self.resolve_name(mod, e.value)
        if not isinstance(e, ast.Name):
            return None
        parts.append(e.id)
        parts.reverse()
        head = parts[0]
        # local definition
        d = mod.get(".".join(parts))
        if d is not None:
            return mod, d
        if head in mod.imports:
            target = mod.imports[head].split(".") + parts[1:]
            # longest module prefix
            for i in range(len(target), 0, -1):
                m = self.module_by_dotted(".".join(target[:i]))
                if m is not None:
                    rest = target[i:]
                    if not rest:
                        return None
                    d = m.get(".".join(rest))
                    if d is not None:
                        return m, d
                    # re-export through that module's imports
                    if rest[0] in m.imports and m is not mod:
                        sub = ast.parse(".".join(rest), mode="eval").body
                        return self.resolve_name(m, sub)
                    return None
        return None

    def bases(self, mod: Module, cls: ast.ClassDef) -> list[tuple[Module, ast.ClassDef]]:
        out = []
        for b in cls.bases:
            r = self.resolve_name(mod, b)
            if r and isinstance(r[1], ast.ClassDef):
                out.append(r)  # type: ignore[arg-type]
        return out

    def mro(self, rel: str, qual: str) -> list[tuple[Module, ast.ClassDef]]:
        """Linearised ancestry (depth-first, left to right, duplicates removed keeping the last
        occurrence - adequate for the single-inheritance + mixin hierarchies of the repository)."""
        hit = self._mro_cache.get((rel, qual))
        if hit is not None:
            return list(hit)
        mod = self.module(rel)
        start = self.cls(rel, qual)
        order: list[tuple[Module, ast.ClassDef]] = []

        def visit(m, c):
            order.append((m, c))
            for bm, bc in self.bases(m, c):
                visit(bm, bc)

        visit(mod, start)
        seen = set()
        out = []
        for m, c in reversed(order):
            k = (m.rel, getattr(c, "_qual", c.name))
            if k not in seen:
                seen.add(k)
                out.append((m, c))
        out.reverse()
        # a class must precede its bases: the simple scheme above already guarantees it for trees;
        # for diamonds the shared base is moved to its last position, which is the C3 result.
        self._mro_cache[(rel, qual)] = tuple(out)
        return out

    def base_names(self, rel: str, qual: str) -> list[str]:
        """Names of all ancestors, including unresolved external ones (by their source text)."""
        names = []
        for m, c in self.mro(rel, qual):
            names.append(c.name)
            for b in c.bases:
                if not self.resolve_name(m, b):
                    names.append(norm(b))
        return names

    def method(self, rel: str, cls_qual: str, name: str):
        """Resolve ``name`` along the MRO. Returns (Module, FunctionDef) or None."""
        k = (rel, cls_qual, name)
        if k in self._method_cache:
            return self._method_cache[k]
        res = None
        for m, c in self.mro(rel, cls_qual):
            for st in c.body:
                if isinstance(st, (ast.FunctionDef, ast.AsyncFunctionDef)) and st.name == name:
                    res = (m, st)
                    break
            if res is not None:
                break
        self._method_cache[k] = res
        return res

    def subclasses(self, base_name: str, sub: str = "mitmproxy"):
        """All classes in the package having a class called ``base_name`` among their ancestors."""
        out = []
        for m in self.all_modules(sub):
            for q, d in m.defs().items():
                if isinstance(d, ast.ClassDef):
                    try:
                        anc = [c.name for _, c in self.mro(m.rel, q)[1:]]
                    except RecursionError:
                        continue
                    if base_name in anc:
                        out.append((m, d))
        return out


# ---------------------------------------------------------------------------------------------------
# small AST helpers shared by the rules


def qual_of(node) -> str:
    """Qualified name of the function/class enclosing ``node`` (or of node itself)."""
    n = node
    while n is not None:
        if hasattr(n, "_qual"):
            return n._qual
        n = getattr(n, "_parent", None)
    return "<module>"


def enclosing_func(node):
    n = getattr(node, "_parent", None)
    while n is not None and not isinstance(n, (ast.FunctionDef, ast.AsyncFunctionDef)):
        n = getattr(n, "_parent", None)
    return n


def call_name(call: ast.Call) -> str:
    """Dotted text of the callee: ``self.check_killed`` / ``commands.SendData`` / ``len``."""
    try:
        return ast.unparse(call.func)
    except Exception:
        return "?"


def last_attr(expr) -> str:
    if isinstance(expr, ast.Attribute):
        return expr.attr
    if isinstance(expr, ast.Name):
        return expr.id
    if isinstance(expr, ast.Call):
        return last_attr(expr.func)
    return ""


def walk_in_order(node):
    """Pre-order walk in source order (ast.walk is breadth-first)."""
    yield node
    for child in ast.iter_child_nodes(node):
        yield from walk_in_order(child)


def eval_order(node):
    """Post-order walk ~ Python evaluation order of sub-expressions (children before parent)."""
    for child in ast.iter_child_nodes(node):
        yield from eval_order(child)
    yield node


def calls_in(node, name: str | None = None, suffix: str | None = None) -> list[ast.Call]:
    out = []
    for n in walk_in_order(node):
        if isinstance(n, ast.Call):
            cn = call_name(n)
            if name is not None and cn != name:
                continue
            if suffix is not None and not (cn == suffix or cn.endswith("." + suffix)):
                continue
            out.append(n)
    return out


def yields_in(node) -> list[ast.AST]:
    return [n for n in walk_in_order(node) if isinstance(n, (ast.Yield, ast.YieldFrom))]


def yielded_class(y) -> str:
    """Class name of a ``yield Cls(...)`` / ``yield mod.Cls(...)`` expression, else ''."""
    v = getattr(y, "value", None)
    if isinstance(v, ast.Call):
        return last_attr(v.func)
    return ""


def attr_chain(expr) -> str:
    """'self.flow.request' for nested attributes on a Name, '' otherwise."""
    parts = []
    e = expr
    while isinstance(e, ast.Attribute):
        parts.append(e.attr)
        e = e.value
    if isinstance(e, ast.Name):
        parts.append(e.id)
        return ".".join(reversed(parts))
    return ""


def assigned_targets(stmt) -> list[ast.AST]:
    if isinstance(stmt, ast.Assign):
        out = []
        for t in stmt.targets:
            out.extend(t.elts if isinstance(t, (ast.Tuple, ast.List)) else [t])
        return out
    if isinstance(stmt, (ast.AugAssign, ast.AnnAssign)):
        return [stmt.target]
    return []


def decorators(fn) -> list[str]:
    return [norm(d) for d in fn.decorator_list]


def str_consts(node) -> list[str]:
    return [n.value for n in ast.walk(node) if isinstance(n, ast.Constant) and isinstance(n.value, str)]


def stmts_of(fn) -> list[ast.stmt]:
    body = list(fn.body)
    if body and isinstance(body[0], ast.Expr) and isinstance(body[0].value, ast.Constant) and isinstance(body[0].value.value, str):
        body = body[1:]
    return body
