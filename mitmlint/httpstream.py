"""Shared model extraction for ``HttpStream`` (proxy/layers/http/__init__.py), used by C01 C03 C07 C11 C20.

Alphabet of projected events:
  ('hook', HookClass)                      yield HttpXHook(self.flow)
  ('send', EventKind, 'client'|'server')   yield SendHttp(EventKind(...), self.context.<side>)
  ('getconn',) ('drop',) ('open',) ('close', side) ('child_start',) ('yield_cmd',)
  ('set', 'self.client_state', 'self.state_errored')   tracked state rebinding
  ('live', bool) ('error:=',) ('response:=',) ('buf+', 'req'|'resp') ('bufclear', 'req'|'resp')
Tracked flags (named refinements, printed in the evidence):
  self.request_body_buf / self.response_body_buf  -> non-empty?  (+= makes it non-empty: body events carry >= 1 byte)
  self.flow.response -> set?   self.flow.websocket -> set?
"""

from __future__ import annotations

import ast

from .layerx import EV
from .layerx import is_ev
from .layerx import LayerSpec
from .model import attr_chain
from .model import eval_order
from .model import last_attr
from .paths import C
from .paths import is_const
from .paths import R
from .paths import Spec
from .paths import UNKNOWN

REL = "mitmproxy/proxy/layers/http/__init__.py"
CLS = "HttpStream"

REFINEMENTS = [
    "body data events carry >= 1 byte, so `buf += data` makes the buffer non-empty",
    "a freshly created HTTPFlow has response None and websocket None",
    "paths that would trip an @expect assertion are not behaviours of the layer",
    "GetHttpConnection completes with exactly one of (connection, err)",
    "flow.websocket is only set when the response status is 101 (send_response computes is_websocket that way)",
    "an addon may change flow.response / flow.request.stream / flow.response.stream during any hook (havoc at hook yields)",
]

STATE_NAMES = (
    "state_uninitialized",
    "state_wait_for_request_headers",
    "state_stream_request_body",
    "state_consume_request_body",
    "state_wait_for_response_headers",
    "state_stream_response_body",
    "state_consume_response_body",
    "state_done",
    "state_errored",
)


def side_of(expr) -> str:
    ch = attr_chain(expr)
    if ch.endswith("context.client") or ch.endswith(".client"):
        return "client"
    if ch.endswith("context.server") or ch.endswith(".server") or ch.endswith("server_conn"):
        return "server"
    return ch or "?"


class HttpStreamSpec(LayerSpec):
    tracked = (
        "self.client_state",
        "self.server_state",
        "self._handle_event",
        "self.request_body_buf",
        "self.response_body_buf",
        "self.flow.response",
        "self.flow.websocket",
        "self.flow.request.stream",
        "self.flow.response.stream",
    )
    dispatch_attrs = ("self.client_state", "self.server_state")
    max_depth = 9
    label_inlined_call = True

    def __init__(self, model):
        super().__init__(model, REL, CLS)

    def extra_modules(self):
        return [self.model.module("mitmproxy/proxy/layers/http/_events.py"), self.model.module("mitmproxy/proxy/events.py")]

    # ---- events
    def events(self, node, st):
        out = []
        if isinstance(node, ast.Call) and attr_chain(node.func) == "self.check_killed":
            # entry of the (inlined) kill check
            return [("ck",)]
        if isinstance(node, ast.Call) and attr_chain(node.func) == "self.check_invalid":
            return [("ci",)]
        for n in eval_order(node):
            if isinstance(n, ast.Yield):
                v = n.value
                if isinstance(v, ast.Call):
                    name = last_attr(v.func)
                    if name.endswith("Hook"):
                        out.append(("hook", name))
                    elif name == "SendHttp" and len(v.args) >= 2:
                        a0 = v.args[0]
                        if isinstance(a0, ast.Call):
                            kind = last_attr(a0.func)
                        elif isinstance(a0, ast.Name):
                            kind = "event"
                            for k, val in st.env:
                                if k.endswith(":" + a0.id) and is_ev(val):
                                    kind = val[1]
                        else:
                            kind = "?"
                        out.append(("send", kind, side_of(v.args[1])))
                    elif name == "GetHttpConnection":
                        out.append(("getconn",))
                    elif name == "DropStream":
                        out.append(("drop",))
                    elif name == "OpenConnection":
                        out.append(("open",))
                    elif name in ("CloseConnection", "CloseTcpConnection"):
                        out.append(("close", side_of(v.args[0]) if v.args else "?"))
                    elif name == "Log":
                        pass
                    else:
                        out.append(("yield", name))
                elif v is not None:
                    out.append(("yield_cmd",))
            elif isinstance(n, ast.YieldFrom):
                if isinstance(n.value, ast.Call) and attr_chain(n.value.func) == "self.child_layer.handle_event":
                    out.append(("child_start",))
        if isinstance(node, ast.Assign):
            for t in node.targets:
                ch = attr_chain(t)
                if ch in ("self.client_state", "self.server_state", "self._handle_event"):
                    out.append(("set", ch, attr_chain(node.value) or "?"))
                elif ch == "self.flow.live":
                    out.append(("live", bool(getattr(node.value, "value", None))))
                elif ch == "self.flow.error":
                    out.append(("error:=",))
                elif ch == "self.flow.response":
                    out.append(("response:=",))
                elif ch in ("self.flow.request.stream", "self.flow.response.stream"):
                    out.append(("stream:=", "req" if "request" in ch else "resp", getattr(node.value, "value", "?")))
        elif isinstance(node, ast.AugAssign):
            ch = attr_chain(node.target)
            if ch == "self.request_body_buf":
                out.append(("buf+", "req"))
            elif ch == "self.response_body_buf":
                out.append(("buf+", "resp"))
        elif isinstance(node, ast.Expr) and isinstance(node.value, ast.Call):
            ch = attr_chain(node.value.func)
            if ch == "self.request_body_buf.clear":
                out.append(("bufclear", "req"))
            elif ch == "self.response_body_buf.clear":
                out.append(("bufclear", "resp"))
        return out

    # ---- effects (flags)
    def effect(self, stmt, st, depth):
        if isinstance(stmt, ast.Expr) and isinstance(stmt.value, ast.Yield) and isinstance(stmt.value.value, ast.Call):
            if last_attr(stmt.value.value.func).endswith("Hook"):
                # an addon may do anything to the flow while the hook runs
                for k in ("self.flow.request.stream", "self.flow.response.stream", "self.flow.response"):
                    st = st.set(k, UNKNOWN)
                return st
        if isinstance(stmt, ast.AugAssign):
            ch = attr_chain(stmt.target)
            if ch in ("self.request_body_buf", "self.response_body_buf"):
                return st.set(ch, C(True))
        if isinstance(stmt, ast.Expr) and isinstance(stmt.value, ast.Call):
            ch = attr_chain(stmt.value.func)
            if ch in ("self.request_body_buf.clear", "self.response_body_buf.clear"):
                return st.set(ch[: -len(".clear")], C(False))
        if isinstance(stmt, ast.Assign):
            for t in stmt.targets:
                ch = attr_chain(t)
                if ch in ("self.flow.response", "self.flow.websocket"):
                    isnone = isinstance(stmt.value, ast.Constant) and stmt.value.value is None
                    v = C(False) if isnone else C(True)
                    if ch == "self.flow.response" and attr_chain(stmt.value) == "event.response":
                        v = C(True)
                    return st.set(ch, v)
                if ch in ("self.flow.request.stream", "self.flow.response.stream"):
                    v = self.value(stmt.value, st, depth)
                    return st.set(ch, v if is_const(v) else UNKNOWN)
                if ch == "self.flow":
                    # new flow object: response/websocket unset for fresh flows, unknown for replayed ones
                    fresh = isinstance(stmt.value, ast.Call)
                    st = st.set("self.flow.response", C(False) if fresh else UNKNOWN)
                    st = st.set("self.flow.websocket", C(False))
                    st = st.set("self.flow.request.stream", UNKNOWN)
                    st = st.set("self.flow.response.stream", UNKNOWN)
                    return st
                if ch == "self.flow.request":
                    st = st.set("self.flow.request.stream", UNKNOWN)
        return LayerSpec.effect(self, stmt, st, depth)

    def value(self, expr, st, depth):
        ch = attr_chain(expr)
        if ch in ("self.flow.request.stream", "self.flow.response.stream", "self.flow.response", "self.flow.websocket"):
            return st.get(ch) if st.has(ch) else UNKNOWN
        # tuple results of GetHttpConnection are correlated; err truthy <=> connection None (both forks kept)
        return LayerSpec.value(self, expr, st, depth)

    def raises_into(self, stmt, handler_names, st):
        # the only modelled implicit raisers inside HttpStream: header validation / framing of malformed heads
        if "ValueError" in handler_names:
            for n in ast.walk(stmt):
                if isinstance(n, ast.Call) and last_attr(n.func) in ("validate_headers", "expected_http_body_size", "parse_authority"):
                    return ["ValueError"]
        return []

    def decide_extra(self, cond, st, depth):
        # named refinement: flow.websocket is only set under `status_code == 101 and ...` (send_response)
        if isinstance(cond, ast.Compare) and attr_chain(cond.left) == "self.flow.response.status_code" and len(cond.ops) == 1:
            c = cond.comparators[0]
            if isinstance(cond.ops[0], ast.Eq) and isinstance(c, ast.Constant) and c.value == 101 and st.get("self.flow.websocket") == C(True):
                return True
        return LayerSpec.decide_extra(self, cond, st, depth)

    def refs_are_distinct(self, a, b):
        names = {"self." + n for n in STATE_NAMES} | {"self.passthrough"}
        return a in names and b in names

    # ---- re-dispatch through handle_event(RequestData(...)) inside check_body_size
    def inline_special(self, call, st, depth):
        if call.args and isinstance(call.args[0], ast.Call):
            r = self.model.method(self.rel, self.cls, "_handle_event")
            return r[1] if r else None
        return None


def init_env():
    return {
        "self.client_state": R("self.state_uninitialized"),
        "self.server_state": R("self.state_uninitialized"),
        "self._handle_event": R("self._handle_event"),
        "self.request_body_buf": C(False),
        "self.response_body_buf": C(False),
        "self.flow.response": C(False),
        "self.flow.websocket": C(False),
        "self.flow.request.stream": UNKNOWN,
        "self.flow.response.stream": UNKNOWN,
    }


CLIENT_EVENTS = ("RequestHeaders", "RequestData", "RequestTrailers", "RequestEndOfMessage")
SERVER_EVENTS = ("ResponseHeaders", "ResponseData", "ResponseTrailers", "ResponseEndOfMessage")
