"""Shared model extraction for ``HttpStream`` (proxy/layers/http/__init__.py), used by C01 C03 C07 C11 C20.

Alphabet of projected events:
  ('hook', HookClass)                      yield HttpXHook(self.flow)
  ('send', EventKind, 'client'|'server')   yield SendHttp(EventKind(...), self.context.<side>)
  ('getconn',) ('drop',) ('open',) ('close', side) ('child_start',) ('yield_cmd',)
  ('set', 'self.client_state', 'self.state_errored')   tracked state rebinding
  ('live', bool) ('error:=',) ('response:=',) ('buf+', 'req'|'resp') ('bufclear', 'req'|'resp')
Tracked flags (named refinements, printed in the evidence):
  self.request_body_buf / self.response_body_buf  -> non-empty?  (+= makes it non-empty: body events carry >= 1 byte)
  self.flow.response -> set?   self.flow.websocket -> set?
"""

from __future__ import annotations

import ast

from .core import AnalysisError
from .core import norm
from .layerx import EV
from .layerx import is_ev
from .layerx import LayerSpec
from .model import attr_chain
from .model import eval_order
from .model import last_attr
from .paths import C
from .paths import is_const
from .paths import R
from .paths import Spec
from .paths import UNKNOWN

REL = "mitmproxy/proxy/layers/http/__init__.py"
CLS = "HttpStream"

REFINEMENTS = [
    "body data events carry >= 1 byte, so `buf += data` makes the buffer non-empty",
    "a freshly created HTTPFlow has response None and websocket None",
    "paths that would trip an @expect assertion are not behaviours of the layer",
    "GetHttpConnection completes with exactly one of (connection, err)",
    "flow.websocket is only set when the response status is 101 (send_response computes is_websocket that way)",
    "an addon may change flow.response / flow.request.stream / flow.response.stream during any hook (havoc at hook yields)",
    "flow.request is an http.Request and flow.response (when set) an http.Response, never the other (HTTPFlow's annotations)",
]

STATE_NAMES = (
    "state_uninitialized",
    "state_wait_for_request_headers",
    "state_stream_request_body",
    "state_consume_request_body",
    "state_wait_for_response_headers",
    "state_stream_response_body",
    "state_consume_response_body",
    "state_done",
    "state_errored",
)


def side_of_chain(ch: str) -> str:
    if ch.endswith("context.client") or ch.endswith(".client"):
        return "client"
    if ch.endswith("context.server") or ch.endswith(".server") or ch.endswith("server_conn"):
        return "server"
    return ch or "?"


def side_of(expr) -> str:
    return side_of_chain(attr_chain(expr))


BUFS = {"self.request_body_buf": "req", "self.response_body_buf": "resp"}
STATE_ATTRS = ("self.client_state", "self.server_state", "self._handle_event")
STREAM_ATTRS = ("self.flow.request.stream", "self.flow.response.stream")


def _is_ref(v):
    return isinstance(v, tuple) and len(v) == 2 and v[0] == "r"


class HttpStreamSpec(LayerSpec):
    tracked = (
        "self.client_state",
        "self.server_state",
        "self._handle_event",
        "self.request_body_buf",
        "self.response_body_buf",
        "self.flow.response",
        "self.flow.websocket",
        "self.flow.request.stream",
        "self.flow.response.stream",
    )
    dispatch_attrs = ("self.client_state", "self.server_state")
    # the body buffers and the flow's response / websocket are objects: their tracked value is a flag (non-empty / set), expressions
    # evaluate to a reference, so locals and helper parameters bound to them are aliases (`buffered = self._body_buf(request)`)
    object_attrs = ("self.request_body_buf", "self.response_body_buf", "self.flow.response", "self.flow.websocket")
    nullable_attrs = ("self.flow.response", "self.flow.websocket")
    typed_refs = {"self.flow.request": ("Request", ("Response",)), "self.flow.response": ("Response", ("Request",))}
    max_depth = 9
    label_inlined_call = True

    def __init__(self, model):
        super().__init__(model, REL, CLS)

    def extra_modules(self):
        return [self.model.module("mitmproxy/proxy/layers/http/_events.py"), self.model.module("mitmproxy/proxy/events.py")]

    # ---- value-based naming of what a statement does
    def callee_name(self, func, st, depth) -> str:
        """class / function name a call goes to; a local bound to a class (`hook = A if request else B; yield hook(flow)`) is resolved"""
        if isinstance(func, ast.Name):
            v = self.value(func, st, depth)
            if _is_ref(v):
                return v[1].rsplit(".", 1)[-1]
            if st.has(f"{depth}:{func.id}") or func.id in self._fn_locals(func):
                raise AnalysisError(f"call through the local `{func.id}` whose target is not decidable here ({norm(func._parent) if hasattr(func, '_parent') else func.id})")
        return last_attr(func)

    def side(self, expr, st, depth) -> str:
        v = self.value(expr, st, depth)
        if _is_ref(v):
            return side_of_chain(v[1])
        return side_of(expr)

    @staticmethod
    def _arg(call, i, kw):
        if len(call.args) > i:
            return call.args[i]
        for k in call.keywords:
            if k.arg == kw:
                return k.value
        return None

    def command_label(self, v, st, d) -> tuple:
        """events of yielding the command constructed by the call ``v``"""
        name = self.callee_name(v.func, st, d)
        if name.endswith("Hook"):
            return (("hook", name),)
        if name == "SendHttp" and self._arg(v, 1, "connection") is not None:
            a0 = self._arg(v, 0, "event")
            if isinstance(a0, ast.Call):
                kind = self.callee_name(a0.func, st, d)
            else:
                val = self.value(a0, st, d)
                kind = val[1] if is_ev(val) else ("event" if isinstance(a0, ast.Name) else "?")
            return (("send", kind, self.side(self._arg(v, 1, "connection"), st, d)),)
        if name == "GetHttpConnection":
            return (("getconn",),)
        if name == "DropStream":
            return (("drop",),)
        if name == "OpenConnection":
            return (("open",),)
        if name in ("CloseConnection", "CloseTcpConnection"):
            c = self._arg(v, 0, "connection")
            return (("close", self.side(c, st, d) if c is not None else "?"),)
        if name == "Log":
            return ()
        return (("yield", name),)

    COMMAND_NAMES = ("SendHttp", "GetHttpConnection", "DropStream", "OpenConnection", "CloseConnection", "CloseTcpConnection", "Log")

    # ---- events
    def events(self, node, st):
        out = []
        if isinstance(node, ast.Call) and attr_chain(node.func) == "self.check_killed":
            # entry of the (inlined) kill check
            return [("ck",)]
        if isinstance(node, ast.Call) and attr_chain(node.func) == "self.check_invalid":
            return [("ci",)]
        d = self.ev_depth(node, st)
        for n in eval_order(node):
            if isinstance(n, ast.Yield):
                v = n.value
                if isinstance(v, ast.Call):
                    out.extend(self.command_label(v, st, d))
                elif v is not None:
                    val = self.value(v, st, d)
                    if isinstance(val, tuple) and val and val[0] == "cmd":
                        out.extend(val[1])  # a command object built earlier (`cmd = SendHttp(..); yield cmd`)
                    else:
                        out.append(("yield_cmd",))
            elif isinstance(n, ast.YieldFrom):
                if isinstance(n.value, ast.Call) and self.chain(n.value.func, st, d) == "self.child_layer.handle_event":
                    out.append(("child_start",))
        if isinstance(node, (ast.Assign, ast.AnnAssign)) and node.value is not None:
            for t in node.targets if isinstance(node, ast.Assign) else [node.target]:
                ch = self.chain(t, st, d) if isinstance(t, ast.Attribute) else ""
                if ch in STATE_ATTRS:
                    out.append(("set", ch, self.chain(node.value, st, d) or "?"))
                elif ch == "self.flow.live":
                    v = self.value(node.value, st, d)
                    if not is_const(v):
                        raise AnalysisError(f"flow.live is set to a value that is not decidable here: {norm(node)}")
                    out.append(("live", bool(v[1])))
                elif ch == "self.flow.error":
                    out.append(("error:=",))
                elif ch == "self.flow.response":
                    out.append(("response:=",))
                elif ch in STREAM_ATTRS:
                    v = self.value(node.value, st, d)
                    out.append(("stream:=", "req" if "request" in ch else "resp", v[1] if is_const(v) else "?"))
        elif isinstance(node, ast.AugAssign):
            ch = self.chain(node.target, st, d)
            if ch in BUFS:
                out.append(("buf+", BUFS[ch]))
        elif isinstance(node, ast.Expr) and isinstance(node.value, ast.Call) and isinstance(node.value.func, ast.Attribute) and node.value.func.attr == "clear":
            ch = self.chain(node.value.func.value, st, d)
            if ch in BUFS:
                out.append(("bufclear", BUFS[ch]))
        return out

    # ---- effects (flags)
    def store(self, ch, v, st, value_expr=None):
        """effect of `<ch> = <value v>` on the tracked state"""
        if ch in ("self.flow.response", "self.flow.websocket"):
            return st.set(ch, C(False) if v == C(None) else C(True))
        if ch in STREAM_ATTRS:
            return st.set(ch, v if is_const(v) else UNKNOWN)
        if ch == "self.flow":
            # new flow object: response/websocket unset for fresh flows, unknown for replayed ones
            fresh = isinstance(value_expr, ast.Call)
            st = st.set("self.flow.response", C(False) if fresh else UNKNOWN)
            st = st.set("self.flow.websocket", C(False))
            st = st.set("self.flow.request.stream", UNKNOWN)
            st = st.set("self.flow.response.stream", UNKNOWN)
            return st
        if ch == "self.flow.request":
            return st.set("self.flow.request.stream", UNKNOWN)
        if ch in BUFS:
            return st.set(ch, UNKNOWN)  # a new buffer object of unknown content
        if ch in self.tracked:
            return st.set(ch, v)
        return st

    def bind(self, target, value_expr, st, depth, value=None):
        if isinstance(target, ast.Attribute):
            v = value if value is not None else self.value(value_expr, st, depth)
            ch = self.chain(target, st, depth)
            return self.store(ch, v, st, value_expr) if ch else st
        return LayerSpec.bind(self, target, value_expr, st, depth, value=value)

    def effect(self, stmt, st, depth):
        if isinstance(stmt, ast.Expr) and isinstance(stmt.value, ast.Yield) and stmt.value.value is not None:
            y = stmt.value.value
            if isinstance(y, ast.Call):
                is_hook = self.callee_name(y.func, st, depth).endswith("Hook")
            else:
                val = self.value(y, st, depth)
                is_hook = isinstance(val, tuple) and bool(val) and val[0] == "cmd" and any(e[0] == "hook" for e in val[1])
            if is_hook:
                # an addon may do anything to the flow while the hook runs
                for k in ("self.flow.request.stream", "self.flow.response.stream", "self.flow.response"):
                    st = st.set(k, UNKNOWN)
                return st
        if isinstance(stmt, ast.AugAssign):
            ch = self.chain(stmt.target, st, depth)
            if ch in BUFS:
                return st.set(ch, C(True))  # in-place append: a local alias keeps denoting the buffer
        if isinstance(stmt, ast.Expr) and isinstance(stmt.value, ast.Call) and isinstance(stmt.value.func, ast.Attribute) and stmt.value.func.attr == "clear":
            ch = self.chain(stmt.value.func.value, st, depth)
            if ch in BUFS:
                return st.set(ch, C(False))
        return LayerSpec.effect(self, stmt, st, depth)

    def value(self, expr, st, depth):
        # tuple results of GetHttpConnection are correlated; err truthy <=> connection None (both forks kept)
        if isinstance(expr, ast.Call) and not isinstance(getattr(expr, "_parent", None), ast.Yield):
            name = last_attr(expr.func)
            if isinstance(expr.func, ast.Name) and st.has(f"{depth}:{expr.func.id}"):
                fv = st.get(f"{depth}:{expr.func.id}")
                name = fv[1].rsplit(".", 1)[-1] if _is_ref(fv) else ""
            if name.endswith("Hook") or name in self.COMMAND_NAMES:
                return ("cmd", self.command_label(expr, st, depth))  # a command object, labelled where it is built
        return LayerSpec.value(self, expr, st, depth)

    def raises_into(self, stmt, handler_names, st):
        # the only modelled implicit raisers inside HttpStream: header validation / framing of malformed heads
        if "ValueError" in handler_names:
            for n in ast.walk(stmt):
                if isinstance(n, ast.Call) and last_attr(n.func) in ("validate_headers", "expected_http_body_size", "parse_authority"):
                    return ["ValueError"]
        return []

    def decide_extra(self, cond, st, depth):
        # named refinement: flow.websocket is only set under `status_code == 101 and ...` (send_response)
        if isinstance(cond, ast.Compare) and self.chain(cond.left, st, depth) == "self.flow.response.status_code" and len(cond.ops) == 1:
            c = cond.comparators[0]
            if isinstance(cond.ops[0], ast.Eq) and isinstance(c, ast.Constant) and c.value == 101 and st.get("self.flow.websocket") == C(True):
                return True
        return LayerSpec.decide_extra(self, cond, st, depth)

    def refs_are_distinct(self, a, b):
        names = {"self." + n for n in STATE_NAMES} | {"self.passthrough"}
        return a in names and b in names

    # ---- re-dispatch through handle_event(RequestData(...)) inside check_body_size
    def inline_special(self, call, st, depth):
        if call.args and (isinstance(call.args[0], ast.Call) or is_ev(self.value(call.args[0], st, depth))):
            r = self.model.method(self.rel, self.cls, "_handle_event")
            return r[1] if r else None
        return None


def init_env():
    return {
        "self.client_state": R("self.state_uninitialized"),
        "self.server_state": R("self.state_uninitialized"),
        "self._handle_event": R("self._handle_event"),
        "self.request_body_buf": C(False),
        "self.response_body_buf": C(False),
        "self.flow.response": C(False),
        "self.flow.websocket": C(False),
        "self.flow.request.stream": UNKNOWN,
        "self.flow.response.stream": UNKNOWN,
    }


CLIENT_EVENTS = ("RequestHeaders", "RequestData", "RequestTrailers", "RequestEndOfMessage")
SERVER_EVENTS = ("ResponseHeaders", "ResponseData", "ResponseTrailers", "ResponseEndOfMessage")
