"""E3 (decision tables): interpretation of a pure decision function's AST over representatives of a finite
abstract input domain.  Used to *extract* the function's decision table (input class -> returned value / raised
exception type) which a rule then compares with a reference table written from the RFC / property statement.

* Nothing from the repository is imported or executed: the analyser walks the AST itself.
* Only a whitelisted, side-effect free subset is interpreted; any other construct raises AnalysisError
  (=> exit 2, never a guess).  Whitelisted library operations (str/bytes methods, len, int, re.sub/re.match on
  literal patterns) belong to the trusted base.
* Calls to other repository functions are followed through the Model (inter-procedural), depth bounded.
"""

from __future__ import annotations

import ast
import re

from .core import AnalysisError
from .core import norm
from .model import last_attr


class Raised(Exception):
    def __init__(self, name, msg=""):
        self.name = name
        self.msg = msg


class _Return(Exception):
    def __init__(self, value):
        self.value = value


class Rec:
    """Abstract record: attributes + a class name for isinstance."""

    def __init__(self, cls: str, bases=(), **attrs):
        self._cls = cls
        self._bases = tuple(bases)
        self.__dict__.update(attrs)

    def isa(self, name: str) -> bool:
        return name == self._cls or name in self._bases


class HeadersModel:
    """Trusted model of mitmproxy.http.Headers for reads: case-insensitive, multi-valued, get() joins with ', '."""

    def __init__(self, fields):
        self.fields = tuple((k, v) for k, v in fields)

    def _all(self, name):
        n = name.lower() if isinstance(name, str) else name.decode().lower()
        return [v for k, v in self.fields if k.decode().lower() == n]

    def get(self, name, default=None):
        vals = self._all(name)
        if not vals:
            return default
        return ", ".join(v.decode("utf-8", "surrogateescape") for v in vals)

    def __contains__(self, name):
        return bool(self._all(name))


SAFE_METHODS = {
    str: {"upper", "lower", "strip", "startswith", "endswith", "isascii", "encode", "split", "isdigit", "lstrip", "rstrip"},
    bytes: {"upper", "lower", "strip", "startswith", "endswith", "isascii", "decode", "split", "isdigit", "lstrip", "rstrip"},
    list: {"append"},
    HeadersModel: {"get"},
}
SAFE_BUILTINS = {"len": len, "int": int, "bool": bool, "bytes": bytes, "str": str, "repr": repr, "any": any, "all": all,
                 "frozenset": frozenset, "set": set, "tuple": tuple, "list": list}


class Interp:
    def __init__(self, model, max_depth=4, externals=None):
        self.model = model
        self.max_depth = max_depth
        self.externals = externals or {}  # dotted callee text -> python callable (trusted summaries)
        self.calls = 0

    # ---- entry
    def call(self, rel: str, qual: str, args: dict, depth=0):
        """Interpret function ``qual`` of module ``rel`` with keyword bindings. Returns value or raises Raised."""
        if depth > self.max_depth:
            raise AnalysisError(f"absint: call depth exceeded at {rel}::{qual}")
        fn = self.model.func(rel, qual)
        mod = self.model.module(rel)
        env = dict(args)
        self.calls += 1
        try:
            self.block(fn.body, env, mod, depth)
        except _Return as r:
            return r.value
        return None

    # ---- statements
    def block(self, stmts, env, mod, depth):
        for st in stmts:
            self.stmt(st, env, mod, depth)

    def stmt(self, st, env, mod, depth):
        if isinstance(st, ast.Expr):
            if isinstance(st.value, ast.Constant):
                return
            self.ev(st.value, env, mod, depth)
        elif isinstance(st, ast.Pass):
            return
        elif isinstance(st, ast.Return):
            raise _Return(self.ev(st.value, env, mod, depth) if st.value is not None else None)
        elif isinstance(st, ast.Raise):
            if st.exc is None:
                raise Raised(env.get("$handling", "Exception"))
            raise Raised(last_attr(st.exc))
        elif isinstance(st, ast.If):
            if self.truthy(self.ev(st.test, env, mod, depth)):
                self.block(st.body, env, mod, depth)
            else:
                self.block(st.orelse, env, mod, depth)
        elif isinstance(st, ast.Assign):
            v = self.ev(st.value, env, mod, depth)
            for t in st.targets:
                self.assign(t, v, env)
        elif isinstance(st, ast.AnnAssign):
            if st.value is not None:
                self.assign(st.target, self.ev(st.value, env, mod, depth), env)
        elif isinstance(st, ast.For):
            it = self.ev(st.iter, env, mod, depth)
            if not isinstance(it, (list, tuple)):
                raise AnalysisError(f"absint: iteration over non-sequence {norm(st.iter)}")
            for x in it:
                self.assign(st.target, x, env)
                self.block(st.body, env, mod, depth)
            self.block(st.orelse, env, mod, depth)
        elif isinstance(st, ast.Match):
            subj = self.ev(st.subject, env, mod, depth)
            for case in st.cases:
                if self.match(case.pattern, subj, env) and (case.guard is None or self.truthy(self.ev(case.guard, env, mod, depth))):
                    self.block(case.body, env, mod, depth)
                    break
        elif isinstance(st, ast.Try):
            try:
                self.block(st.body, env, mod, depth)
            except Raised as r:
                for h in st.handlers:
                    names = ["BaseException"] if h.type is None else [last_attr(e) for e in (h.type.elts if isinstance(h.type, ast.Tuple) else [h.type])]
                    if any(self.exc_isa(r.name, n) for n in names):
                        if h.name:
                            env[h.name] = f"<{r.name}>"
                        env["$handling"] = r.name
                        self.block(h.body, env, mod, depth)
                        break
                else:
                    raise
            else:
                self.block(st.orelse, env, mod, depth)
            finally:
                if st.finalbody:
                    self.block(st.finalbody, env, mod, depth)
        elif isinstance(st, ast.Assert):
            if not self.truthy(self.ev(st.test, env, mod, depth)):
                raise Raised("AssertionError")
        else:
            raise AnalysisError(f"absint: statement not modelled: {norm(st)}")

    def exc_isa(self, name, handler):
        from .paths import BUILTIN_EXC_PARENTS

        e = name
        seen = set()
        while e and e not in seen:
            if e == handler:
                return True
            seen.add(e)
            e = BUILTIN_EXC_PARENTS.get(e)
        return False

    def assign(self, target, value, env):
        if isinstance(target, ast.Name):
            env[target.id] = value
        elif isinstance(target, (ast.Tuple, ast.List)):
            vals = list(value)
            if len(vals) != len(target.elts):
                raise Raised("ValueError")
            for t, v in zip(target.elts, vals):
                self.assign(t, v, env)
        else:
            raise AnalysisError(f"absint: assignment target not modelled: {norm(target)}")

    def match(self, pat, subj, env) -> bool:
        if isinstance(pat, ast.MatchValue):
            v = pat.value
            if isinstance(v, ast.Constant):
                return subj == v.value and type(subj) is type(v.value)
            raise AnalysisError(f"absint: match value not a literal: {norm(v)}")
        if isinstance(pat, ast.MatchOr):
            return any(self.match(p, subj, env) for p in pat.patterns)
        if isinstance(pat, ast.MatchAs):
            if pat.pattern is not None and not self.match(pat.pattern, subj, env):
                return False
            if pat.name:
                env[pat.name] = subj
            return True
        if isinstance(pat, ast.MatchSingleton):
            return subj is pat.value
        raise AnalysisError(f"absint: match pattern not modelled: {ast.dump(pat)[:80]}")

    # ---- expressions
    def truthy(self, v) -> bool:
        if isinstance(v, (Rec, HeadersModel)):
            return True
        return bool(v)

    def ev(self, e, env, mod, depth):
        if isinstance(e, ast.Constant):
            return e.value
        if isinstance(e, ast.Name):
            if e.id in env:
                return env[e.id]
            if e.id in ("True", "False", "None"):
                return {"True": True, "False": False, "None": None}[e.id]
            # module-level constant?
            vals = mod.assigns(e.id)
            if vals:
                return self.ev(vals[-1], {}, mod, depth)
            raise AnalysisError(f"absint: unbound name {e.id}")
        if isinstance(e, ast.NamedExpr):
            v = self.ev(e.value, env, mod, depth)
            self.assign(e.target, v, env)
            return v
        if isinstance(e, ast.Attribute):
            base = self.ev(e.value, env, mod, depth) if not self._is_module_ref(e.value, env, mod) else None
            if base is None and self._is_module_ref(e.value, env, mod):
                raise AnalysisError(f"absint: module attribute value not modelled: {norm(e)}")
            if isinstance(base, Rec):
                if not hasattr(base, e.attr):
                    raise AnalysisError(f"absint: abstract record {base._cls} has no attribute {e.attr} (extend the rule's domain)")
                return getattr(base, e.attr)
            if isinstance(base, HeadersModel) and e.attr == "fields":
                return base.fields
            raise AnalysisError(f"absint: attribute read not modelled: {norm(e)}")
        if isinstance(e, ast.BoolOp):
            if isinstance(e.op, ast.And):
                v = True
                for x in e.values:
                    v = self.ev(x, env, mod, depth)
                    if not self.truthy(v):
                        return v
                return v
            v = False
            for x in e.values:
                v = self.ev(x, env, mod, depth)
                if self.truthy(v):
                    return v
            return v
        if isinstance(e, ast.UnaryOp):
            v = self.ev(e.operand, env, mod, depth)
            if isinstance(e.op, ast.Not):
                return not self.truthy(v)
            if isinstance(e.op, ast.USub):
                return -v
            raise AnalysisError(f"absint: unary op not modelled: {norm(e)}")
        if isinstance(e, ast.Compare):
            left = self.ev(e.left, env, mod, depth)
            for op, c in zip(e.ops, e.comparators):
                right = self.ev(c, env, mod, depth)
                if not self.cmp(op, left, right):
                    return False
                left = right
            return True
        if isinstance(e, (ast.Tuple, ast.List)):
            vals = [self.ev(x, env, mod, depth) for x in e.elts]
            return tuple(vals) if isinstance(e, ast.Tuple) else vals
        if isinstance(e, ast.JoinedStr):
            return "<fstring>"
        if isinstance(e, ast.IfExp):
            return self.ev(e.body if self.truthy(self.ev(e.test, env, mod, depth)) else e.orelse, env, mod, depth)
        if isinstance(e, ast.Subscript) and norm(e.value) in ("typing.Literal", "Literal"):
            elts = e.slice.elts if isinstance(e.slice, ast.Tuple) else [e.slice]
            return ("$Literal", tuple(self.ev(x, env, mod, depth) for x in elts))
        if isinstance(e, ast.Subscript):
            base = self.ev(e.value, env, mod, depth)
            idx = self.ev(e.slice, env, mod, depth)
            try:
                return base[idx]
            except IndexError:
                raise Raised("IndexError")
            except KeyError:
                raise Raised("KeyError")
        if isinstance(e, ast.BinOp) and isinstance(e.op, (ast.Add, ast.Sub, ast.Mult)):
            l, r = self.ev(e.left, env, mod, depth), self.ev(e.right, env, mod, depth)
            return l + r if isinstance(e.op, ast.Add) else l - r if isinstance(e.op, ast.Sub) else l * r
        if isinstance(e, ast.Call):
            return self.ev_call(e, env, mod, depth)
        raise AnalysisError(f"absint: expression not modelled: {norm(e)}")

    def _is_module_ref(self, e, env, mod):
        return isinstance(e, ast.Name) and e.id not in env and e.id in mod.imports

    def cmp(self, op, a, b) -> bool:
        if isinstance(op, ast.Eq):
            return a == b
        if isinstance(op, ast.NotEq):
            return a != b
        if isinstance(op, ast.Is):
            return a is b
        if isinstance(op, ast.IsNot):
            return a is not b
        if isinstance(op, ast.In):
            return a in b
        if isinstance(op, ast.NotIn):
            return a not in b
        if isinstance(op, ast.Lt):
            return a < b
        if isinstance(op, ast.LtE):
            return a <= b
        if isinstance(op, ast.Gt):
            return a > b
        if isinstance(op, ast.GtE):
            return a >= b
        raise AnalysisError("absint: comparison operator not modelled")

    def ev_call(self, e, env, mod, depth):
        f = e.func
        text = norm(f)
        if isinstance(f, ast.Name) and f.id == "isinstance" and f.id not in env:
            args, kwargs = [], {}
        else:
            args = [self.ev(a, env, mod, depth) for a in e.args]
            kwargs = {k.arg: self.ev(k.value, env, mod, depth) for k in e.keywords if k.arg}
        if text in self.externals:
            return self.externals[text](*args, **kwargs)
        if isinstance(f, ast.Name):
            if f.id == "isinstance":
                obj, cls = e.args[0], e.args[1]
                v = self.ev(obj, env, mod, depth)
                names = [last_attr(x) for x in (cls.elts if isinstance(cls, ast.Tuple) else [cls])]
                if isinstance(v, Rec):
                    return any(v.isa(n) for n in names)
                pytypes = {"str": str, "bytes": bytes, "int": int, "bool": bool, "list": list, "tuple": tuple}
                if all(n in pytypes for n in names):
                    return isinstance(v, tuple(pytypes[n] for n in names))
                raise AnalysisError(f"absint: isinstance on a non-record against {names}")
            if f.id in SAFE_BUILTINS and f.id not in env:
                try:
                    return SAFE_BUILTINS[f.id](*args, **kwargs)
                except ValueError:
                    raise Raised("ValueError")
                except TypeError:
                    raise Raised("TypeError")
            # repository function in the same module / imported
            r = self.model.resolve_name(mod, f)
            if r and isinstance(r[1], ast.FunctionDef):
                return self._call_repo(r[0], r[1], args, kwargs, depth)
            raise AnalysisError(f"absint: call to {text} not modelled")
        if isinstance(f, ast.Attribute):
            # module.function
            if self._is_module_ref(f.value, env, mod) or (isinstance(f.value, ast.Attribute) and not self._root_in_env(f.value, env)):
                if isinstance(f.value, ast.Name) and f.value.id == "re":
                    return self._re_call(f.attr, args, kwargs)
                if isinstance(f.value, ast.Name) and f.value.id == "typing" and f.attr in ("cast", "assert_never", "get_args"):
                    if f.attr == "cast":
                        return args[1]
                    if f.attr == "get_args":
                        if isinstance(args[0], tuple) and args[0] and args[0][0] == "$Literal":
                            return args[0][1]
                        raise AnalysisError("absint: typing.get_args of a non-Literal")
                    raise Raised("AssertionError")
                r = self.model.resolve_name(mod, f)
                if r and isinstance(r[1], ast.FunctionDef):
                    return self._call_repo(r[0], r[1], args, kwargs, depth)
                raise AnalysisError(f"absint: call to {text} not resolved")
            base = self.ev(f.value, env, mod, depth)
            if isinstance(base, re.Pattern) and f.attr in ("match", "search", "fullmatch"):
                return getattr(base, f.attr)(*args) is not None and _M() or None
            for typ, names in SAFE_METHODS.items():
                if isinstance(base, typ) and f.attr in names:
                    try:
                        return getattr(base, f.attr)(*args, **kwargs)
                    except UnicodeError:
                        raise Raised("UnicodeError")
                    except ValueError:
                        raise Raised("ValueError")
            if isinstance(base, Rec) and callable(getattr(base, f.attr, None)):
                return getattr(base, f.attr)(*args, **kwargs)
            raise AnalysisError(f"absint: method call not modelled: {text} on {type(base).__name__}")
        raise AnalysisError(f"absint: call shape not modelled: {text}")

    def _root_in_env(self, e, env):
        while isinstance(e, ast.Attribute):
            e = e.value
        return isinstance(e, ast.Name) and e.id in env

    def _re_call(self, name, args, kwargs):
        if name == "compile":
            return re.compile(*args, **kwargs)
        if name == "sub":
            return re.sub(*args, **kwargs)
        if name in ("match", "search", "fullmatch"):
            return _M() if getattr(re, name)(*args, **kwargs) is not None else None
        raise AnalysisError(f"absint: re.{name} not modelled")

    def _call_repo(self, m, fn, args, kwargs, depth):
        params = [a.arg for a in fn.args.posonlyargs + fn.args.args]
        env = {}
        for p, v in zip(params, args):
            env[p] = v
        env.update(kwargs)
        defaults = fn.args.defaults
        for p, d in zip(params[len(params) - len(defaults):], defaults):
            if p not in env:
                env[p] = self.ev(d, {}, m, depth)
        if depth + 1 > self.max_depth:
            raise AnalysisError(f"absint: call depth exceeded at {fn.name}")
        self.calls += 1
        try:
            self.block(fn.body, env, m, depth + 1)
        except _Return as r:
            return r.value
        return None


class _M:
    """A truthy stand-in for a match object."""

    def __bool__(self):
        return True


def module_regex(interp: Interp, rel: str, name: str):
    """Evaluate a module-level `NAME = re.compile(<literal>, flags)` into a compiled pattern (trusted: re)."""
    mod = interp.model.module(rel)
    vals = mod.assigns(name)
    if not vals:
        raise AnalysisError(f"{rel}::{name} vanished")
    return interp.ev(vals[-1], {}, mod, 0)
