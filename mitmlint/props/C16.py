"""C16 - generated leaf certificates are valid for the identity the client asked for (identity provenance + builder obligations).

Decided:
  R16.1 provenance in ``TlsConfig.get_cert``: on every path each element added to ``altnames`` is ``_ip_or_dns_name(<source>)`` with source in
        {``upstream_cert.cn`` (only on paths where the ``upstream_cert`` option test succeeded), ``conn_context.client.sni`` (when set) /
        ``conn_context.client.sockname[0]`` (when not), ``conn_context.server.address[0]`` (when set)} or ``extend(upstream_cert.altnames)``
        under the same option, ``upstream_cert`` being ``conn_context.server.certificate_list[0]``; the SNI (else the local address) is added
        on *every* path; the only rebinding of the list is the order-preserving de-duplication; ``cn`` evaluates to the first altname's value
        (None for an empty list); ``certstore.get_cert(cn, altnames, ...)`` receives exactly these; ``_ip_or_dns_name`` maps IP literals to
        ``x509.IPAddress`` and everything else to ``x509.DNSName`` of the IDNA-encoded name; ``tls_start_client`` presents exactly the
        certificate and key of that store entry.
  R16.2 ``certs.dummy_cert`` builder obligations on every path (each builder call's result is kept): issuer = ``cacert.subject``;
        ExtendedKeyUsage contains SERVER_AUTH; ``not_valid_before < now < not_valid_after`` when evaluated with the module's
        ``CERT_VALIDITY_OFFSET`` / ``CERT_EXPIRY`` constants; SubjectAlternativeName built from the ``sans`` argument is always added and is
        critical whenever the subject ends up empty; no common name longer than 64 characters is put into the subject (both decided by
        *interpreting* dummy_cert's AST (pyint) against a recording model of the cryptography builder in 48 worlds: commonname None / short /
        63 / 64 / 65 / 300 characters x organization x crl_url x issuer with/without SKI - the subject that is really built is compared with
        the criticality that is really passed, however either is computed; the path reading is only the fall-back); the
        AuthorityKeyIdentifier comes from the issuer's SubjectKeyIdentifier with the public-key fallback; a random serial number is set; the
        certificate is signed with the ``privkey`` argument, which ``CertStore.get_cert`` binds to the store's CA key next to the CA certificate.
Not decided: acceptance by a strict X.509 verifier for concrete names (value level; library behaviour of ``cryptography``).
"""

from __future__ import annotations

import ast

from ..core import AnalysisError
from ..core import norm
from ..model import attr_chain
from ..model import call_name
from ..model import calls_in
from ..model import last_attr
from ..model import walk_in_order
from ..paths import index_of
from ..paths import traces_of
from ..selftest import Mutant
from ._helpers_B import ceval
from ._helpers_B import consistent
from ._helpers_B import FlowSpec
from ._helpers_B import local_defs
from ._helpers_B import mentions
from ._helpers_B import NotAnAtom

PROP = "C16"
REG = {
    "strength": "narrow",
    "technique": "provenance of every element of the SAN list on all paths (control-dependent sources), semantic evaluation of the CN selection, "
    "AST interpretation of dummy_cert against a recording model of the x509 builder (subject vs. SAN criticality, CN length) "
    "and of validity arithmetic with the module constants, builder-call obligations on all paths of dummy_cert",
    "claim": "the names of a generated certificate come only from SNI / local address / server address / upstream certificate (option-gated), "
    "the SNI or local address is always among them, and dummy_cert always sets issuer, serverAuth EKU, a validity window containing now, the SAN "
    "extension (critical when the subject is empty), AKI from the issuer and signs with the CA key.",
    "note": "Value-level acceptance by a verifier is library behaviour and not decided.",
}
T = "mitmproxy/addons/tlsconfig.py"
F = "mitmproxy/certs.py"

CC = "conn_context"
SRC_SNI, SRC_SOCK, SRC_ADDR, SRC_UCN, SRC_UALT = f"{CC}.client.sni", f"{CC}.client.sockname[0]", f"{CC}.server.address[0]", "upstream_cert.cn", "upstream_cert.altnames"
OPT = "ctx.options.upstream_cert"


def _r16_1(ctx):
    gc = ctx.func(T, "TlsConfig.get_cert")
    where = (T, "TlsConfig.get_cert", gc)
    ctx.require([a.arg for a in gc.args.args] == ["self", CC], "TlsConfig.get_cert signature changed")
    ud = local_defs(gc, "upstream_cert")
    ctx.require(len(ud) == 1 and norm(ud[0]) == f"{CC}.server.certificate_list[0]", "get_cert: upstream_cert is no longer conn_context.server.certificate_list[0]")

    def keep(ev):
        if ev[0] == "callx":
            return ev[1].startswith("altnames.") or ev[1] == "self.certstore.get_cert"
        if ev[0] == "assignx":
            return ev[1] in ("altnames", "cn")
        if ev[0] == "cond":
            return ev[1] in (OPT, f"{CC}.client.sni", f"{CC}.server.address", f"{CC}.server.certificate_list", "upstream_cert.cn")
        return ev[0] == "ret"

    res, eng = traces_of(gc, FlowSpec(keep=keep, call_nodes=True, assign_nodes=True, ret_nodes=True))
    term = [(t, how) for t, how, st in res if how == "return"]
    ctx.require(term, "get_cert: no returning path")
    ctx.paths += len(term)
    bad = {"source": [], "identity": 0, "rebind": 0, "sink": 0}
    sources_seen = set()
    cn_exprs = {}
    for t, how in term:
        def taken(text):
            v = [e[2] for e in t if e[0] == "cond" and e[1] == text]
            return v[-1] if v else None

        opt_on = taken(OPT) is True and taken(f"{CC}.server.certificate_list") is True
        have_identity = False
        for e in t:
            if e[0] == "callx" and e[1].startswith("altnames."):
                meth = e[1].split(".", 1)[1]
                n = e[2]
                ok = False
                if meth == "append" and len(n.args) == 1 and isinstance(n.args[0], ast.Call) and call_name(n.args[0]) == "_ip_or_dns_name" and len(n.args[0].args) == 1:
                    src = norm(n.args[0].args[0])
                    sources_seen.add(src)
                    if src == SRC_UCN:
                        ok = opt_on
                    elif src == SRC_SNI:
                        ok = taken(SRC_SNI) is True
                        have_identity |= ok
                    elif src == SRC_SOCK:
                        ok = taken(SRC_SNI) is False
                        have_identity |= ok
                    elif src == SRC_ADDR:
                        ok = taken(f"{CC}.server.address") is True
                elif meth == "extend" and len(n.args) == 1 and norm(n.args[0]) == SRC_UALT:
                    sources_seen.add(SRC_UALT)
                    ok = opt_on
                if not ok:
                    bad["source"].append(norm(n))
            elif e[0] == "assignx" and e[1] == "altnames":
                v = norm(e[2])
                if v not in ("[]", "list(dict.fromkeys(altnames))"):
                    bad["rebind"] += 1
            elif e[0] == "assignx" and e[1] == "cn":
                cn_exprs[id(e[2])] = e[2]
        if not have_identity:
            bad["identity"] += 1
        sink = [e[2] for e in t if e[0] == "callx" and e[1] == "self.certstore.get_cert"]
        ret = [e[1] for e in t if e[0] == "ret"]
        ok = len(sink) == 1 and len(ret) == 1 and ret[0] is sink[0] and [norm(a) for a in sink[0].args[:2]] == ["cn", "altnames"] and not sink[0].keywords
        # nothing is added after cn was chosen
        i_cn = index_of(t, lambda e: e[0] == "assignx" and e[1] == "cn")
        ok = ok and i_cn >= 0 and not any(e[0] in ("callx", "assignx") and (e[1].startswith("altnames.") or e[1] == "altnames") for e in t[i_cn + 1 :])
        if not ok:
            bad["sink"] += 1
    ctx.require({SRC_SNI, SRC_SOCK, SRC_ADDR} <= sources_seen or bad["source"], f"get_cert: expected identity sources not found: {sorted(sources_seen)}")
    ctx.check(not bad["source"], "R16.1", where, "altnames sources", "a name enters the certificate that is not (option-gated) upstream cn/altnames, SNI, local address or server address, "
              f"or bypasses _ip_or_dns_name: {sorted(set(bad['source']))[:3]}", desc=f"all altnames sources allowed and control-dependent: {sorted(sources_seen)}", constructs=sorted(set(bad["source"])))
    ctx.check(bad["identity"] == 0, "R16.1", where, "SNI (else local address) always among the altnames", f"{bad['identity']} path(s) build a certificate that does not name the identity the client asked for", desc="SNI / local address added on every path")
    ctx.check(bad["rebind"] == 0, "R16.1", where, "altnames only rebound by order-preserving de-duplication", f"{bad['rebind']} path(s) rebind altnames to something else", desc="altnames rebound only by list(dict.fromkeys(altnames))")
    ctx.check(bad["sink"] == 0, "R16.1", where, "return self.certstore.get_cert(cn, altnames, ...)", f"{bad['sink']} path(s) do not hand exactly (cn, altnames) to the store / modify the list after choosing cn", desc="store asked for exactly (cn, altnames)")

    # cn = value of the first altname
    class V:
        def __init__(self, value):
            self.value = value

    def atom(node, env):
        if isinstance(node, ast.Attribute) and node.attr == "value":
            base = ceval(node.value, env, atom, "cn expression")
            if isinstance(base, V):
                return base.value
        raise NotAnAtom

    ctx.require(len(cn_exprs) == 1, "get_cert: cn is not assigned exactly once")
    expr = next(iter(cn_exprs.values()))
    cases = [([V("a.example"), V("b.example")], "a.example"), ([V("10.0.0.1")], "10.0.0.1"), ([], None)]
    got = [ceval(expr, {"altnames": a}, atom, "cn expression") for a, _ in cases]
    ctx.check(got == [w for _, w in cases], "R16.1", (T, "TlsConfig.get_cert", expr), "cn = value of the first altname", f"cn evaluates to {got} on the sample lists, expected {[w for _, w in cases]}", desc="cn is the first altname's value (None if empty)")

    # _ip_or_dns_name
    fn = ctx.func(T, "_ip_or_dns_name")
    p = fn.args.args[0].arg
    res, eng = traces_of(fn, FlowSpec(keep=lambda ev: ev[0] in ("ret", "except", "assignx"), ret_nodes=True, assign_nodes=True))
    okf = True
    kinds = set()
    for t, how, st in res:
        ret = [e[1] for e in t if e[0] == "ret"]
        if how != "return" or len(ret) != 1 or not isinstance(ret[0], ast.Call):
            okf = False
            continue
        cls = call_name(ret[0])
        kinds.add(cls)
        if ("except", "ValueError") in t:
            a = ret[0].args[0] if ret[0].args else None
            okf = okf and cls == "x509.DNSName" and a is not None and mentions(a, p) and "encode('idna')" in norm(a)
        else:
            ipdef = [e[2] for e in t if e[0] == "assignx"]
            okf = okf and cls == "x509.IPAddress" and len(ipdef) == 1 and norm(ipdef[0]) == f"ipaddress.ip_address({p})" and norm(ret[0].args[0]) == [e[1] for e in t if e[0] == "assignx"][0]
    ctx.check(okf and kinds == {"x509.DNSName", "x509.IPAddress"}, "R16.1", (T, "_ip_or_dns_name", fn), "IP literal -> IPAddress, else DNSName(idna)",
              "names are not converted to the matching GeneralName type (IP SAN for addresses, IDNA-encoded DNS SAN otherwise): the certificate would not verify for that identity", desc="_ip_or_dns_name: IPAddress / DNSName(idna)")

    # the presented certificate is the store entry
    tsc = ctx.func(T, "TlsConfig.tls_start_client")
    ed = local_defs(tsc, "entry")
    uses = {call_name(c).split(".")[-1]: [norm(a) for a in c.args] for c in calls_in(tsc) if call_name(c).startswith("tls_start.ssl_conn.use_")}
    ctx.check(len(ed) == 1 and norm(ed[0]) == "self.get_cert(tls_start.context)" and uses == {"use_certificate": ["entry.cert.to_cryptography()"], "use_privatekey": ["entry.privatekey"]}, "R16.1",
              (T, "TlsConfig.tls_start_client", tsc), "ssl_conn.use_certificate(entry.cert) / use_privatekey(entry.privatekey)", f"the client connection does not present exactly the store entry of get_cert(context): {uses}", desc="tls_start_client presents get_cert(context)'s certificate and key")
    ctx.expect_instances("R16.1", 7)


# ---- R16.2 ---------------------------------------------------------------------------------------


def _days_atom(model, now):
    def atom(node, env):
        if isinstance(node, ast.Call) and call_name(node) == "datetime.timedelta":
            if node.args:
                raise AnalysisError("timedelta with positional arguments not modelled")
            unit = {"days": 1.0, "hours": 1 / 24, "minutes": 1 / 1440, "seconds": 1 / 86400, "weeks": 7.0}
            tot = 0.0
            for k in node.keywords:
                if k.arg not in unit:
                    raise AnalysisError(f"timedelta({k.arg}=...) not modelled")
                tot += unit[k.arg] * ceval(k.value, env, atom, "timedelta")
            return tot
        if isinstance(node, ast.Name) and node.id not in env:
            if node.id == "now":
                return now
            if model.module(F).assigns(node.id):
                return ceval(model.const(F, node.id), {}, atom, f"{F}::{node.id}")
        raise NotAnAtom

    return atom


def _x509_stub():
    """A recording stand-in for the parts of ``cryptography`` that dummy_cert uses (TRUSTED model of the library: builders are immutable, every
    setter returns a new builder, NameAttribute refuses a common name longer than ub-common-name = 64, get_extension_for_class raises
    ExtensionNotFound).  Only used as `trusted module` of the AST interpreter - repository code is never executed."""
    import types

    class ExtensionNotFound(Exception):
        pass

    class Named:
        def __init__(self, *a, **kw):
            self.args, self.kw = a, kw

        def __repr__(self):
            return f"{type(self).__name__}{self.args}"

    class GeneralNames(list):
        pass

    class DNSName(Named):
        value = property(lambda self: self.args[0])

    class IPAddress(Named):
        value = property(lambda self: self.args[0])

    class NameAttribute(Named):
        def __init__(self, oid, value, *a, **kw):
            if oid == "COMMON_NAME" and len(value) > 64:
                raise ValueError("Attribute's length must be >= 1 and <= 64")
            if not value:
                raise ValueError("Attribute's length must be >= 1")
            Named.__init__(self, oid, value)
            self.oid, self.value = oid, value

    class Name(Named):
        def __init__(self, attrs):
            Named.__init__(self, tuple(attrs))
            self.attrs = tuple(attrs)

    class ExtendedKeyUsage(Named):
        pass

    class SubjectAlternativeName(Named):
        def __init__(self, names):
            Named.__init__(self, tuple(names))
            self.names = tuple(names)

    class SubjectKeyIdentifier(Named):
        pass

    class AuthorityKeyIdentifier(Named):
        @classmethod
        def from_issuer_subject_key_identifier(cls, ski):
            return cls("ski", ski)

        @classmethod
        def from_issuer_public_key(cls, pk):
            return cls("public_key", pk)

    class CRLDistributionPoints(Named):
        pass

    class DistributionPoint(Named):
        pass

    class UniformResourceIdentifier(Named):
        pass

    class Certificate:
        def __init__(self, fields, key):
            self.fields, self.signed_with = dict(fields), key

    class CertificateBuilder:
        def __init__(self, fields=None):
            self.fields = dict(fields or {"extensions": ()})

        def _with(self, k, v):
            if k in self.fields:
                raise ValueError(f"{k} may only be set once")
            f = dict(self.fields)
            f[k] = v
            return CertificateBuilder(f)

        def issuer_name(self, n):
            return self._with("issuer", n)

        def subject_name(self, n):
            return self._with("subject", n)

        def public_key(self, k):
            return self._with("public_key", k)

        def serial_number(self, n):
            return self._with("serial", n)

        def not_valid_before(self, t):
            return self._with("not_before", t)

        def not_valid_after(self, t):
            return self._with("not_after", t)

        def add_extension(self, ext, critical):
            if any(type(e) is type(ext) for e, _ in self.fields["extensions"]):
                raise ValueError("This extension has already been set.")
            f = dict(self.fields)
            f["extensions"] = f["extensions"] + ((ext, bool(critical)),)
            return CertificateBuilder(f)

        def sign(self, private_key, algorithm, *a, **kw):
            for k in ("issuer", "subject", "public_key", "serial", "not_before", "not_after"):
                if k not in self.fields:
                    raise ValueError(f"A certificate must have a {k}")
            return Certificate(self.fields, private_key)

    ns = types.SimpleNamespace
    oid = lambda *names: ns(**{n: n for n in names})  # noqa: E731
    x509 = ns(ExtensionNotFound=ExtensionNotFound, GeneralNames=GeneralNames, GeneralName=Named, DNSName=DNSName, IPAddress=IPAddress, NameAttribute=NameAttribute, Name=Name,
              ExtendedKeyUsage=ExtendedKeyUsage, SubjectAlternativeName=SubjectAlternativeName, SubjectKeyIdentifier=SubjectKeyIdentifier, AuthorityKeyIdentifier=AuthorityKeyIdentifier,
              CRLDistributionPoints=CRLDistributionPoints, DistributionPoint=DistributionPoint, UniformResourceIdentifier=UniformResourceIdentifier, Certificate=Certificate,
              CertificateBuilder=CertificateBuilder, random_serial_number=lambda: "random-serial",
              NameOID=oid("COMMON_NAME", "ORGANIZATION_NAME", "ORGANIZATIONAL_UNIT_NAME", "COUNTRY_NAME", "LOCALITY_NAME", "STATE_OR_PROVINCE_NAME"),
              ExtendedKeyUsageOID=oid("SERVER_AUTH", "CLIENT_AUTH", "CODE_SIGNING", "ANY_EXTENDED_KEY_USAGE"))
    x509.oid = ns(NameOID=x509.NameOID, ExtendedKeyUsageOID=x509.ExtendedKeyUsageOID)
    hashes = ns(SHA256=lambda: "sha256", SHA384=lambda: "sha384", SHA512=lambda: "sha512")
    pkg = ns(x509=x509, hazmat=ns(primitives=ns(hashes=hashes)))

    def cacert(with_ski):
        def get_extension_for_class(cls):
            if cls is SubjectKeyIdentifier and with_ski:
                return ns(value="issuer-ski")
            raise ExtensionNotFound()

        return ns(subject=Name([NameAttribute("COMMON_NAME", "mitmproxy CA")]), issuer=Name([NameAttribute("COMMON_NAME", "some root")]), public_key=lambda: "ca-public-key",
                  extensions=ns(get_extension_for_class=get_extension_for_class))

    return pkg, cacert


def _dummy_cert_worlds(ctx):
    """Interpret dummy_cert's AST (pyint) in every world commonname x organization x crl_url x issuer-with/without-SKI and return
    [(world, ('cert', subject attrs [(oid, value)], {ext class name: (ext, critical)}, cert) | ('raise', exception name))];
    None when the function uses a construct the interpreter / library model does not cover (the caller falls back to the path reading)."""
    import datetime
    import itertools

    from ..pyint import Interp
    from ..pyint import Raised
    from ..pyint import Rec

    pkg, cacert = _x509_stub()
    out = []
    names = {"None": None, "short": "example.com", "63 chars": "a" * 59 + ".com", "64 chars": "a" * 60 + ".com", "65 chars": "a" * 61 + ".com", "300 chars": "a" * 296 + ".com"}
    try:
        for (cn_k, cn), org, crl, ski in itertools.product(names.items(), (None, "Example Org"), (None, "http://crl.example/ca.crl"), (True, False)):
            it = Interp(ctx.model, trusted_modules={"cryptography": pkg, "cryptography.x509": pkg.x509, "datetime": datetime, "warnings": __import__("warnings"), "ipaddress": __import__("ipaddress"), "collections": __import__("collections.abc").abc and __import__("collections")})
            sans = [pkg.x509.DNSName(cn or "192.0.2.1")]
            world = {"commonname": cn_k, "organization": org, "crl_url": crl, "issuer_has_ski": ski}
            ctx.cells += 1
            try:
                r = it.call(F, "dummy_cert", "ca-private-key", cacert(ski), cn, sans, organization=org, crl_url=crl)
            except Raised as e:
                out.append((world, ("raise", e.name), sans))
                continue
            cert = getattr(r, "_cert", None) if isinstance(r, Rec) else None
            if not isinstance(cert, pkg.x509.Certificate):
                raise AnalysisError("dummy_cert does not return Cert(<signed certificate>) in the interpreted model")
            attrs = [(a.oid, a.value) for a in cert.fields["subject"].attrs]
            exts = {type(e).__name__: (e, crit) for e, crit in cert.fields["extensions"]}
            out.append((world, ("cert", attrs, exts, cert), sans))
    except AnalysisError as e:
        ctx.note(f"dummy_cert could not be interpreted ({e}); falling back to the path reading of SAN criticality / CN gate")
        return None
    return out


def _r16_2(ctx):
    m = ctx.model
    dc = ctx.func(F, "dummy_cert")
    where = (F, "dummy_cert", dc)
    params = [a.arg for a in dc.args.args]
    ctx.require(params[:4] == ["privkey", "cacert", "commonname", "sans"], f"dummy_cert signature changed: {params}")
    # every builder call keeps its result
    B = "builder"
    for c in calls_in(dc):
        if isinstance(c.func, ast.Attribute) and isinstance(c.func.value, ast.Name) and c.func.value.id == B and c.func.attr != "sign":
            par = getattr(c, "_parent", None)
            ctx.require(isinstance(par, ast.Assign) and len(par.targets) == 1 and isinstance(par.targets[0], ast.Name) and par.targets[0].id == B,
                        f"dummy_cert: result of {norm(c)[:60]} is not assigned back to `{B}` (builder objects are immutable) - shape not modelled")
    nowdef = local_defs(dc, "now")
    ctx.require(len(nowdef) == 1 and isinstance(nowdef[0], ast.Call) and call_name(nowdef[0]).split(".")[-1] in ("now", "utcnow"), "dummy_cert: `now` is not taken from datetime.now()")

    def keep(ev):
        if ev[0] == "callx":
            return ev[1].startswith(B + ".") or ev[1] in ("Cert", "subject.append")
        if ev[0] == "cond":
            return ev[1] in ("is_valid_commonname", "organization is not None", "crl_url")
        return ev[0] in ("ret", "except") or (ev[0] == "assignx" and ev[1] in ("aki", "issuer_ski", "cert", "is_valid_commonname"))

    res, eng = traces_of(dc, FlowSpec(keep=keep, call_nodes=True, assign_nodes=True, ret_nodes=True))
    term = [(t, how) for t, how, st in res if how == "return"]
    ctx.require(term, "dummy_cert: no returning path")
    ctx.paths += len(term)
    bad = {k: 0 for k in ("issuer", "eku", "validity", "san", "critical", "aki", "sign", "serial")}
    worlds = _dummy_cert_worlds(ctx)
    crit_wit = cn_wit = None
    if worlds is not None:
        n_cn = 0
        for world, res, sans in worlds:
            if res[0] == "raise":
                cn_wit = cn_wit or f"dummy_cert raises {res[1]} for {world}"
                continue
            _, attrs, exts, cert = res
            cns = [v for o, v in attrs if o == "COMMON_NAME"]
            n_cn += bool(cns)
            if any(len(v) > 64 for v in cns):
                cn_wit = cn_wit or f"a {len(cns[0])}-character common name is put into the subject for {world}"
            san_ext = exts.get("SubjectAlternativeName")
            if san_ext is None or [x for x in san_ext[0].names] != sans:
                bad["san"] += 1
            elif not attrs and not san_ext[1]:
                bad["critical"] += 1
                crit_wit = crit_wit or f"commonname: {world['commonname']}, organization: {world['organization']!r} -> subject is empty, subjectAltName critical={san_ext[1]}"
        ctx.require(n_cn or cn_wit, "dummy_cert: no interpreted world puts a common name into the subject (anchor changed)")
    atom = _days_atom(m, 1000.0)
    n_fallback = 0
    for t, how in term:
        calls = {}
        for e in t:
            if e[0] == "callx" and e[1].startswith(B + "."):
                calls.setdefault(e[1][len(B) + 1 :], []).append(e[2])
        one = lambda k: calls.get(k, [None])[0] if len(calls.get(k, [])) == 1 else None  # noqa: E731
        c = one("issuer_name")
        if c is None or [norm(a) for a in c.args] != ["cacert.subject"]:
            bad["issuer"] += 1
        exts = calls.get("add_extension", [])
        ext_cls = [call_name(x.args[0]) if x.args and isinstance(x.args[0], ast.Call) else norm(x.args[0]) if x.args else "" for x in exts]
        eku = [x for x, k in zip(exts, ext_cls) if k == "x509.ExtendedKeyUsage"]
        if len(eku) != 1 or not any(last_attr(n) == "SERVER_AUTH" for n in ast.walk(eku[0].args[0])):
            bad["eku"] += 1
        nb, na = one("not_valid_before"), one("not_valid_after")
        if nb is None or na is None:
            bad["validity"] += 1
        else:
            vb, va = ceval(nb.args[0], {}, atom, "not_valid_before"), ceval(na.args[0], {}, atom, "not_valid_after")
            if not (vb < 1000.0 < va and 1000.0 - vb <= 30):
                bad["validity"] += 1
        san = [x for x, k in zip(exts, ext_cls) if k == "x509.SubjectAlternativeName"]
        if len(san) != 1 or not mentions(san[0].args[0], "sans"):
            bad["san"] += 1
        else:
            crit = {k.arg: k.value for k in san[0].keywords}.get("critical", san[0].args[1] if len(san[0].args) > 1 else None)
            valid_cn = [e[2] for e in t if e[0] == "cond" and e[1] == "is_valid_commonname"]
            subject_attrs = [e for e in t if e[0] == "callx" and e[1] == "subject.append"]
            if worlds is None:  # legacy path reading, only when the function could not be interpreted
                if crit is None or not valid_cn:
                    raise AnalysisError("dummy_cert: SAN criticality / is_valid_commonname shape not modelled")
                if not subject_attrs and not bool(ceval(crit, {"is_valid_commonname": valid_cn[-1]}, None, "SAN critical")):
                    bad["critical"] += 1
        akis = [x for x, k in zip(exts, ext_cls) if k == "aki"]
        aki_def = [norm(e[2]) for e in t if e[0] == "assignx" and e[1] == "aki"]
        ski_def = [norm(e[2]) for e in t if e[0] == "assignx" and e[1] == "issuer_ski"]
        fallback = ("except", "ExtensionNotFound") in t
        n_fallback += fallback
        want = "x509.AuthorityKeyIdentifier.from_issuer_public_key(cacert.public_key())" if fallback else "x509.AuthorityKeyIdentifier.from_issuer_subject_key_identifier(issuer_ski)"
        ok = len(akis) == 1 and aki_def[-1:] == [want]
        if not fallback:
            ok = ok and ski_def == ["cacert.extensions.get_extension_for_class(x509.SubjectKeyIdentifier).value"]
        if not ok:
            bad["aki"] += 1
        sg = one("sign")
        certdef = [e[2] for e in t if e[0] == "assignx" and e[1] == "cert"]
        ret = [e[1] for e in t if e[0] == "ret"]
        ok = sg is not None and ({k.arg: norm(k.value) for k in sg.keywords}.get("private_key") == "privkey" or (sg.args and norm(sg.args[0]) == "privkey"))
        ok = ok and len(certdef) == 1 and certdef[0] is sg and len(ret) == 1 and norm(ret[0]) == "Cert(cert)"
        if not ok:
            bad["sign"] += 1
        sn = one("serial_number")
        if sn is None or [norm(a) for a in sn.args] != ["x509.random_serial_number()"]:
            bad["serial"] += 1
    ctx.require(n_fallback > 0, "dummy_cert: AKI fallback path (issuer without SKI) not found")
    msg = {
        "issuer": ("issuer_name(cacert.subject)", "the leaf is not issued under the CA's subject name: the chain does not build"),
        "eku": ("ExtendedKeyUsage([SERVER_AUTH])", "the leaf is not marked for TLS server authentication"),
        "validity": ("not_valid_before < now < not_valid_after", "the certificate is not valid at the time of issue (or back-dated by more than 30 days)"),
        "san": ("SubjectAlternativeName(sans) always added", "a certificate without (or with other than the requested) subjectAltName is produced"),
        "critical": ("SAN critical when the subject is empty", "RFC 5280 4.2.1.6: an empty subject requires a critical subjectAltName - strict verifiers reject the certificate"),
        "aki": ("AKI from issuer SKI, public-key fallback", "authority key identifier does not match the issuer's subject key identifier: strict chain builders reject the certificate"),
        "sign": ("builder.sign(private_key=privkey); return Cert(cert)", "the returned certificate is not the one signed with the CA key"),
        "serial": ("serial_number(random_serial_number())", "no fresh serial number"),
    }
    for k, (construct, why) in msg.items():
        extra = f" [{crit_wit}]" if k == "critical" and crit_wit else ""
        unit = f"{len(worlds)} interpreted world(s)" if worlds is not None and k in ("critical",) else f"{len(term)} path(s)"
        ctx.check(bad[k] == 0, "R16.2", where, construct, f"{bad[k]} of {unit}: {why}{extra}", desc=f"{construct} on all {len(term)} paths" + (f" / {len(worlds)} interpreted worlds" if worlds is not None and k in ("san", "critical") else ""))
    # common name length gate
    if worlds is not None:
        ctx.check(cn_wit is None, "R16.2", where, "common name only if present and <= 64 characters", f"{cn_wit}: certificate generation fails or yields an invalid subject for long SNIs",
                  desc=f"CN only when present and short enough ({len(worlds)} interpreted worlds: None / 11 / 63 / 64 / 65 / 300 characters)")
    else:
        ivc = local_defs(dc, "is_valid_commonname")
        ctx.require(len(ivc) == 1, "dummy_cert: is_valid_commonname not assigned exactly once")
        lworlds = {"None": None, "65 chars": "a" * 65, "300 chars": "a" * 300}
        wrong = [k for k, v in lworlds.items() if bool(ceval(ivc[0], {"commonname": v}, None, "is_valid_commonname"))]
        cn_attr = [c for c in calls_in(dc, "x509.NameAttribute") if any(last_attr(a) == "COMMON_NAME" for a in c.args)]
        guarded = all(any(isinstance(p, ast.If) and norm(p.test) == "is_valid_commonname" for p in _parents(c)) for c in cn_attr)
        ctx.check(not wrong and guarded, "R16.2", where, "common name only if present and <= 64 characters", f"a common name is accepted for {wrong} / the COMMON_NAME attribute is not guarded by is_valid_commonname: certificate generation fails or yields an invalid subject for long SNIs", desc="CN only when present and short enough")
    # constants
    off = ceval(m.const(F, "CERT_VALIDITY_OFFSET"), {}, atom, "CERT_VALIDITY_OFFSET")
    exp = ceval(m.const(F, "CERT_EXPIRY"), {}, atom, "CERT_EXPIRY")
    ctx.check(off < 0 < exp and off + exp > 0, "R16.2", (F, "<module>", m.const(F, "CERT_EXPIRY")), "CERT_VALIDITY_OFFSET < 0 < CERT_EXPIRY", f"offset {off} days, expiry {exp} days", desc=f"CERT_VALIDITY_OFFSET={off}d, CERT_EXPIRY={exp}d")
    # issued by the store's CA: key and certificate belong together at the call site
    gc = ctx.func(F, "CertStore.get_cert")
    dcs = calls_in(gc, "dummy_cert")
    ctx.require(len(dcs) == 1, "CertStore.get_cert no longer calls dummy_cert exactly once")
    a = [norm(x) for x in dcs[0].args[:4]]
    par = getattr(dcs[0], "_parent", None)
    entry_call = par._parent if isinstance(par, ast.keyword) else par
    kw = {k.arg: norm(k.value) for k in entry_call.keywords} if isinstance(entry_call, ast.Call) else {}
    ctx.check(a == ["self.default_privatekey", "self.default_ca._cert", "commonname", "sans"] and kw.get("privatekey") == "self.default_privatekey", "R16.2", (F, "CertStore.get_cert", dcs[0]),
              "dummy_cert(self.default_privatekey, self.default_ca._cert, commonname, sans, ...)", f"the leaf is not generated from the store's CA key/certificate for the requested names, or the entry carries another key: {a}, privatekey={kw.get('privatekey')}", desc="CertStore.get_cert issues under its default CA for (commonname, sans)")
    ctx.expect_instances("R16.2", 11)


def _parents(node):
    n = getattr(node, "_parent", None)
    while n is not None:
        yield n
        n = getattr(n, "_parent", None)


def check(ctx):
    ctx.rule("R16.1", "every SAN of the generated certificate comes from SNI / local address / server address / option-gated upstream certificate; SNI always included; cn = first SAN")
    ctx.rule("R16.2", "dummy_cert builder obligations: issuer, serverAuth, validity window around now, SAN (critical if subject empty), AKI, serial, signed with the CA key")
    ctx.trust("cryptography.x509 builder semantics; ipaddress.ip_address raising ValueError for non-IP strings")
    _r16_1(ctx)
    _r16_2(ctx)


MUTANTS = [
    Mutant("upstream-names-without-option", T, "        if ctx.options.upstream_cert and conn_context.server.certificate_list:\n", "        if conn_context.server.certificate_list:\n", "R16.1"),
    Mutant("sni-missing-when-server-known", T, "        if conn_context.client.sni:\n            altnames.append(_ip_or_dns_name(conn_context.client.sni))\n        else:",
           "        if conn_context.server.address:\n            pass\n        elif conn_context.client.sni:\n            altnames.append(_ip_or_dns_name(conn_context.client.sni))\n        else:", "R16.1"),
    Mutant("host-header-style-foreign-name", T, "        if conn_context.server.address:\n            altnames.append(_ip_or_dns_name(conn_context.server.address[0]))\n",
           "        if conn_context.server.address:\n            altnames.append(_ip_or_dns_name(conn_context.server.address[0]))\n        if conn_context.server.sni:\n            altnames.append(_ip_or_dns_name(conn_context.server.sni))\n", "R16.1"),
    Mutant("raw-string-san", T, "            altnames.append(_ip_or_dns_name(conn_context.client.sockname[0]))\n", "            altnames.append(x509.DNSName(conn_context.client.sockname[0]))\n", "R16.1"),
    Mutant("cn-last-altname", T, "        cn = next((str(x.value) for x in altnames), None)\n", "        cn = next((str(x.value) for x in reversed(altnames)), None)\n", "R16.1"),
    Mutant("altnames-sorted", T, "        altnames = list(dict.fromkeys(altnames))\n", "        altnames = sorted(set(altnames), key=str)\n", "R16.1"),
    Mutant("ip-as-dns-name", T, "    else:\n        return x509.IPAddress(ip)\n", "    else:\n        return x509.DNSName(val)\n", "R16.1"),
    Mutant("no-idna", T, "        return x509.DNSName(val.encode(\"idna\").decode())\n", "        return x509.DNSName(val)\n", "R16.1"),
    Mutant("issuer-is-ca-issuer", F, "    builder = builder.issuer_name(cacert.subject)\n    builder = builder.add_extension(\n        x509.ExtendedKeyUsage", "    builder = builder.issuer_name(cacert.issuer)\n    builder = builder.add_extension(\n        x509.ExtendedKeyUsage", "R16.2"),
    Mutant("eku-client-auth", F, "        x509.ExtendedKeyUsage([ExtendedKeyUsageOID.SERVER_AUTH]), critical=False\n    )\n    builder = builder.public_key(cacert.public_key())",
           "        x509.ExtendedKeyUsage([ExtendedKeyUsageOID.CLIENT_AUTH]), critical=False\n    )\n    builder = builder.public_key(cacert.public_key())", "R16.2"),
    Mutant("validity-offset-positive", F, "CERT_VALIDITY_OFFSET = datetime.timedelta(days=-2)", "CERT_VALIDITY_OFFSET = datetime.timedelta(days=2)", "R16.2"),
    Mutant("not-after-in-the-past", F, "    builder = builder.not_valid_after(now + CERT_VALIDITY_OFFSET + CERT_EXPIRY)\n", "    builder = builder.not_valid_after(now + CERT_VALIDITY_OFFSET)\n", "R16.2"),
    Mutant("san-never-critical", F, "        critical=not is_valid_commonname,\n", "        critical=False,\n", "R16.2"),
    Mutant("san-critical-from-arguments-not-subject", F, "        critical=not is_valid_commonname,\n", "        critical=commonname is None and organization is None,\n", "R16.2"),
    Mutant("san-critical-only-without-sni-name", F, "        critical=not is_valid_commonname,\n", "        critical=commonname is None,\n", "R16.2"),
    Mutant("cn-gate-after-the-attribute", F, "    if is_valid_commonname:\n        assert commonname is not None\n", "    if commonname is not None:\n        assert commonname is not None\n", "R16.2"),
    Mutant("cn-length-unchecked", F, "    is_valid_commonname = commonname is not None and len(commonname) < 64\n", "    is_valid_commonname = commonname is not None\n", "R16.2"),
    Mutant("aki-always-from-public-key", F, "        aki = x509.AuthorityKeyIdentifier.from_issuer_subject_key_identifier(issuer_ski)\n", "        aki = x509.AuthorityKeyIdentifier.from_issuer_public_key(cacert.public_key())\n", "R16.2"),
    Mutant("san-from-commonname-only", F, "        x509.SubjectAlternativeName(_fix_legacy_sans(sans)),\n", "        x509.SubjectAlternativeName(_fix_legacy_sans([commonname] if commonname else [])),\n", "R16.2"),
    Mutant("store-signs-for-cn-only", F, "                    self.default_ca._cert,\n                    commonname,\n                    sans,\n", "                    self.default_ca._cert,\n                    commonname,\n                    [],\n", "R16.2"),
]
