"""C16 - generated leaf certificates are valid for the identity the client asked for (identity provenance + builder obligations).

Both rules are decided by *interpreting* the repository's AST (pyint) against a recording model of ``cryptography.x509`` - never by
reading the shape of the functions: locals may be renamed, branches inverted, helpers extracted / inlined / renamed, statements
reordered, logging / assertions / annotations added; what is compared is the certificate that comes out.

Decided:
  R16.1 ``TlsConfig.get_cert(conn_context)`` is interpreted end to end (through ``CertStore.get_cert`` and ``dummy_cert``, with a
        store that has no matching entry) in every world  upstream_cert option on/off  x  server certificate list (none / three
        different leaf certificates, each followed by an intermediate)  x  SNI (none with IPv4 / IPv6 local address, DNS names, an
        internationalised name, an IP literal, a name below an upstream wildcard, a name the upstream certificate also carries)  x
        server address (none / DNS name / IP literal / the SNI host) - 256 worlds in the thorough tier, a 112-world sub-grid in the quick
        tier (full SNI x address grid without / with the first upstream certificate).  For the certificate that is issued:
        every subjectAltName is one of {SNI, else local address; server address host; first server certificate's CN and SANs - only
        with the option on} (nothing from ``server.sni``, the intermediate, ...); each is of the matching GeneralName type (IP literal ->
        IPAddress(ip_address), otherwise DNSName of the IDNA A-label); the SNI (else the local address) is among them in *every* world;
        the list is a value-independent, first-occurrence-preserving de-duplication of the names as added; the subject CN is the first
        SAN's value; the returned store entry carries the CA-signed certificate and the store's key; ``tls_start_client`` presents
        exactly the certificate and key of ``self.get_cert(tls_start.context)`` (local aliases resolved).
  R16.2 ``certs.dummy_cert`` is interpreted in 48 worlds (commonname None / short / 63 / 64 / 65 / 300 characters x organization x
        crl_url x issuer with/without SubjectKeyIdentifier); on the certificate that is really built: issuer = ``cacert.subject``;
        ExtendedKeyUsage contains SERVER_AUTH; ``not_valid_before < now < not_valid_after`` (not back-dated by more than 30 days) with the
        module's real timedelta constants; SubjectAlternativeName = the ``sans`` argument, critical whenever the subject that was really
        built is empty; no common name longer than 64 characters; AuthorityKeyIdentifier from the issuer's SubjectKeyIdentifier with the
        public-key fallback; a fresh random serial number; signed with the ``privkey`` argument and returned wrapped in ``Cert``.
        ``CertStore.get_cert`` (interpreted, store miss) issues for exactly (commonname, sans, organization) under the store's CA
        certificate and key, and the entry carries that key.
Not decided: acceptance by a strict X.509 verifier for concrete names (value level; library behaviour of ``cryptography``).
"""

from __future__ import annotations

import ast

from ..core import AnalysisError
from ..core import norm
from ..model import calls_in
from ..selftest import Mutant
from ._helpers_B import local_defs

PROP = "C16"
REG = {
    "strength": "narrow",
    "technique": "AST interpretation (pyint) of TlsConfig.get_cert -> CertStore.get_cert -> dummy_cert against a recording model of the x509 "
    "builder over a finite world table (option x upstream certificates x SNI forms x server address; CN lengths x organization x CRL x "
    "issuer SKI): provenance, type and order of every SAN, CN selection, and all builder obligations are read off the certificate that is built",
    "claim": "the names of a generated certificate come only from SNI / local address / server address / upstream certificate (option-gated), "
    "the SNI or local address is always among them, and dummy_cert always sets issuer, serverAuth EKU, a validity window containing now, the SAN "
    "extension (critical when the subject is empty), AKI from the issuer and signs with the CA key.",
    "note": "Value-level acceptance by a verifier is library behaviour and not decided.",
}
T = "mitmproxy/addons/tlsconfig.py"
F = "mitmproxy/certs.py"


# ---- trusted model of the libraries ---------------------------------------------------------------


class _Tok:
    """an opaque library object (key, hash algorithm ...) with a readable name"""

    def __init__(self, name):
        self.name = name

    def __repr__(self):
        return f"<{self.name}>"


class _Opaque:
    """Value of an attribute the world model does not define.  It may be formatted (log lines) and passed around; deciding a branch on
    it, iterating, calling or indexing it is outside the model (AnalysisError, never a guess)."""

    def __init__(self, path):
        object.__setattr__(self, "_p", path)

    def __repr__(self):
        return f"<{self._p}>"

    __str__ = __repr__

    def __format__(self, spec):
        return repr(self)

    def _no(self, *a, **kw):
        raise AnalysisError(f"the certificate path depends on `{self._p}`, which the world model does not define")

    __bool__ = __len__ = __iter__ = __call__ = __getitem__ = __contains__ = _no

    def __getattr__(self, name):
        if name.startswith("__"):
            raise AttributeError(name)
        return _Opaque(f"{self._p}.{name}")


class _Obj:
    """a connection / context / options object of the world: defined attributes are values, everything else is _Opaque"""

    def __init__(self, _path, **kw):
        self.__dict__["_path"] = _path
        self.__dict__.update(kw)

    def __repr__(self):
        return f"<{self._path}>"

    def __getattr__(self, name):
        if name.startswith("__"):
            raise AttributeError(name)
        return _Opaque(f"{self._path}.{name}")


def _library():
    """A recording stand-in for the parts of ``cryptography`` / ``datetime`` / ``logging`` that the certificate path uses (TRUSTED model of
    the libraries: builders are immutable, every setter returns a new builder and may be used once, NameAttribute refuses a common name
    longer than ub-common-name = 64, DNSName refuses non-ASCII, IPAddress refuses strings, get_extension_for_class raises ExtensionNotFound;
    loggers and warnings.warn do nothing).  Only used as `trusted modules` of the AST interpreter - repository code is never executed."""
    import datetime
    import ipaddress
    import types

    from ..pyint import Func
    from ..pyint import Rec

    class ExtensionNotFound(Exception):
        pass

    class Named:
        def __init__(self, *a, **kw):
            self.__dict__["args"], self.__dict__["kw"] = a, kw

        def __repr__(self):
            return f"{type(self).__name__}{self.args}"

        def __eq__(self, other):
            return type(self) is type(other) and self.args == other.args and self.kw == other.kw

        def __ne__(self, other):
            return not self == other

        def __hash__(self):
            return hash((type(self).__name__, repr(self.args)))

        def __getattr__(self, name):
            if name.startswith("__"):
                raise AttributeError(name)
            raise AnalysisError(f"library model: {type(self).__name__}.{name} is not modelled")

    class GeneralNames(list):
        def __hash__(self):
            return hash(tuple(self))

    class DNSName(Named):
        def __init__(self, value):
            if not isinstance(value, str):
                raise TypeError("value must be string")
            if not value.isascii():
                raise ValueError("DNSName values should be passed as an A-label string.")
            Named.__init__(self, value)

        value = property(lambda self: self.args[0])

    class IPAddress(Named):
        def __init__(self, value):
            if not isinstance(value, (ipaddress.IPv4Address, ipaddress.IPv6Address, ipaddress.IPv4Network, ipaddress.IPv6Network)):
                raise TypeError("value must be an instance of ipaddress.IPv4Address, ...")
            Named.__init__(self, value)

        value = property(lambda self: self.args[0])

    class NameAttribute(Named):
        def __init__(self, oid, value, *a, **kw):
            if not isinstance(value, str):
                raise TypeError("value argument must be a str")
            if oid == "COMMON_NAME" and len(value) > 64:
                raise ValueError("Attribute's length must be >= 1 and <= 64")
            if not value:
                raise ValueError("Attribute's length must be >= 1")
            Named.__init__(self, oid, value)

        oid = property(lambda self: self.args[0])
        value = property(lambda self: self.args[1])

    class Name(Named):
        def __init__(self, attrs):
            Named.__init__(self, tuple(attrs))

        attrs = property(lambda self: self.args[0])

        def __iter__(self):
            return iter(self.args[0])

        def __len__(self):
            return len(self.args[0])

        def get_attributes_for_oid(self, oid):
            return [a for a in self.args[0] if a.oid == oid]

    class ExtendedKeyUsage(Named):
        def __init__(self, usages):
            Named.__init__(self, tuple(usages))

        def __iter__(self):
            return iter(self.args[0])

    class SubjectAlternativeName(Named):
        def __init__(self, names):
            Named.__init__(self, tuple(names))

        names = property(lambda self: self.args[0])

        def __iter__(self):
            return iter(self.args[0])

    class SubjectKeyIdentifier(Named):
        pass

    class AuthorityKeyIdentifier(Named):
        @classmethod
        def from_issuer_subject_key_identifier(cls, ski):
            return cls("ski", ski)

        @classmethod
        def from_issuer_public_key(cls, pk):
            return cls("public_key", pk)

    class CRLDistributionPoints(Named):
        pass

    class DistributionPoint(Named):
        pass

    class UniformResourceIdentifier(Named):
        value = property(lambda self: self.args[0])

    class Extension:
        def __init__(self, value, critical):
            self.value, self.critical = value, critical

    class Extensions:
        def __init__(self, exts):
            self._exts = tuple(exts)

        def get_extension_for_class(self, cls):
            for e, crit in self._exts:
                if type(e) is cls:
                    return Extension(e, crit)
            raise ExtensionNotFound()

        def __iter__(self):
            return iter(Extension(e, c) for e, c in self._exts)

        def __len__(self):
            return len(self._exts)

    class Certificate:
        def __init__(self, fields, key, algorithm=None):
            self.fields, self.signed_with, self.algorithm = dict(fields), key, algorithm

        issuer = property(lambda self: self.fields["issuer"])
        subject = property(lambda self: self.fields["subject"])
        serial_number = property(lambda self: self.fields["serial"])
        not_valid_before = property(lambda self: self.fields["not_before"])
        not_valid_after = property(lambda self: self.fields["not_after"])
        not_valid_before_utc = property(lambda self: self.fields["not_before"])
        not_valid_after_utc = property(lambda self: self.fields["not_after"])
        extensions = property(lambda self: Extensions(self.fields["extensions"]))
        signature_hash_algorithm = property(lambda self: self.algorithm)
        version = "v3"

        def public_key(self):
            return self.fields["public_key"]

        def fingerprint(self, algorithm=None):
            return b"fingerprint-%d" % self.fields["serial"]

        def __getattr__(self, name):
            if name.startswith("__"):
                raise AttributeError(name)
            raise AnalysisError(f"library model: Certificate.{name} is not modelled")

    class CertificateBuilder:
        def __init__(self, fields=None):
            self.fields = dict(fields or {"extensions": ()})

        def _with(self, k, v):
            if k in self.fields:
                raise ValueError(f"{k} may only be set once")
            f = dict(self.fields)
            f[k] = v
            return CertificateBuilder(f)

        def issuer_name(self, n):
            return self._with("issuer", n)

        def subject_name(self, n):
            return self._with("subject", n)

        def public_key(self, k):
            return self._with("public_key", k)

        def serial_number(self, n):
            return self._with("serial", n)

        def not_valid_before(self, t):
            return self._with("not_before", t)

        def not_valid_after(self, t):
            return self._with("not_after", t)

        def add_extension(self, extval, critical):
            if any(type(e) is type(extval) for e, _ in self.fields["extensions"]):
                raise ValueError("This extension has already been set.")
            f = dict(self.fields)
            f["extensions"] = f["extensions"] + ((extval, bool(critical)),)
            return CertificateBuilder(f)

        def sign(self, private_key, algorithm, *a, **kw):
            for k in ("issuer", "subject", "public_key", "serial", "not_before", "not_after"):
                if k not in self.fields:
                    raise ValueError(f"A certificate must have a {k}")
            return Certificate(self.fields, private_key, algorithm)

    ns = types.SimpleNamespace
    oid = lambda *names: ns(**{n: n for n in names})  # noqa: E731
    serials: list = []

    def random_serial_number():
        serials.append(0x5EED0000 + len(serials))
        return serials[-1]

    x509 = ns(ExtensionNotFound=ExtensionNotFound, GeneralNames=GeneralNames, GeneralName=Named, DNSName=DNSName, IPAddress=IPAddress, NameAttribute=NameAttribute, Name=Name,
              ExtendedKeyUsage=ExtendedKeyUsage, SubjectAlternativeName=SubjectAlternativeName, SubjectKeyIdentifier=SubjectKeyIdentifier, AuthorityKeyIdentifier=AuthorityKeyIdentifier,
              CRLDistributionPoints=CRLDistributionPoints, DistributionPoint=DistributionPoint, UniformResourceIdentifier=UniformResourceIdentifier, Certificate=Certificate,
              CertificateBuilder=CertificateBuilder, random_serial_number=random_serial_number, Extension=Extension, Extensions=Extensions,
              NameOID=oid("COMMON_NAME", "ORGANIZATION_NAME", "ORGANIZATIONAL_UNIT_NAME", "COUNTRY_NAME", "LOCALITY_NAME", "STATE_OR_PROVINCE_NAME"),
              ExtendedKeyUsageOID=oid("SERVER_AUTH", "CLIENT_AUTH", "CODE_SIGNING", "ANY_EXTENDED_KEY_USAGE"))
    x509.oid = ns(NameOID=x509.NameOID, ExtendedKeyUsageOID=x509.ExtendedKeyUsageOID)
    hashes = ns(SHA256=lambda: _Tok("sha256"), SHA384=lambda: _Tok("sha384"), SHA512=lambda: _Tok("sha512"))
    pkg = ns(x509=x509, hazmat=ns(primitives=ns(hashes=hashes)))

    # clock: a fixed instant, every reading is recorded
    base = datetime.datetime(2030, 1, 15, 12, 0, 0)
    nows: list = []

    class FixedDT(datetime.datetime):
        @classmethod
        def now(cls, tz=None):
            v = base.replace(tzinfo=tz) if tz is not None else base
            nows.append(v)
            return v

        @classmethod
        def utcnow(cls):
            nows.append(base)
            return base

    dt = ns(datetime=FixedDT, timedelta=datetime.timedelta, timezone=datetime.timezone, UTC=datetime.timezone.utc, date=datetime.date, time=datetime.time)

    # logging: loggers do nothing and are enabled for every level (so guarded debug code is interpreted too); they accept abstract values
    lam = lambda text: Func(None, ast.parse(text, mode="eval").body)  # noqa: E731
    noop, yes, lvl = lam("lambda *a, **k: None"), lam("lambda *a, **k: True"), lam("lambda *a, **k: 10")
    quiet = {k: noop for k in ("debug", "info", "warning", "warn", "error", "exception", "critical", "log", "setLevel", "addHandler")}

    def get_logger(*a, **k):
        return Rec("Logger", isEnabledFor=yes, getEffectiveLevel=lvl, level=10, name="stub", **quiet)

    warnings = ns(warn=noop, warn_explicit=noop, simplefilter=noop, filterwarnings=noop)
    logging = ns(getLogger=get_logger, DEBUG=10, INFO=20, WARNING=30, WARN=30, ERROR=40, CRITICAL=50, NOTSET=0, **quiet)

    def cacert(with_ski):
        def get_extension_for_class(cls):
            if cls is SubjectKeyIdentifier and with_ski:
                return ns(value="issuer-ski", critical=False)
            raise ExtensionNotFound()

        return ns(subject=Name([NameAttribute("COMMON_NAME", "mitmproxy CA")]), issuer=Name([NameAttribute("COMMON_NAME", "some root")]), public_key=lambda: "ca-public-key",
                  serial_number=0xCA5E41A1, extensions=ns(get_extension_for_class=get_extension_for_class))

    return ns(pkg=pkg, x509=x509, cacert=cacert, serials=serials, nows=nows, dt=dt, logging=logging, warnings=warnings)


def _interp(ctx, lib):
    """A fresh interpreter over the library model.  ``next`` / ``filter`` / ``map`` are supplied here (pyint materialises generator
    expressions as lists and has no ``filter``): a list handed to ``next`` can only be such a materialised generator and is consumed."""
    from ..pyint import Interp

    it = Interp(ctx.model, trusted_modules={"cryptography": lib.pkg, "cryptography.x509": lib.x509, "datetime": lib.dt, "logging": lib.logging, "warnings": lib.warnings,
                                            "ipaddress": __import__("ipaddress"), "collections": __import__("collections.abc").abc and __import__("collections"),
                                            "urllib": __import__("urllib.parse"), "contextlib": __import__("contextlib"), "itertools": __import__("itertools"),
                                            "functools": __import__("functools"), "operator": __import__("operator"), "re": __import__("re"), "string": __import__("string")})
    missing = object()

    def next_(itr, default=missing):
        from ..pyint import Raised

        try:
            if isinstance(itr, list):
                if itr:
                    return itr.pop(0)
                raise StopIteration
            return next(itr)
        except StopIteration:
            if default is missing:
                raise Raised("StopIteration")
            return default

    def filter_(f, seq):
        seq = it.iterate(seq, None)
        return [x for x in seq if (it.truthy(x) if f is None else it.truthy(it.apply(f, [x], {}, 1)))]

    def map_(f, *seqs):
        return [it.apply(f, list(xs), {}, 1) for xs in zip(*[it.iterate(s, None) for s in seqs])]

    it.externals = {"next": next_, "filter": filter_, "map": map_}
    return it


def _cert_of(it, rec, lib, what):
    """the x509 certificate inside a repository ``Cert`` record"""
    from ..pyint import Rec

    c = None
    if isinstance(rec, Rec):
        try:
            c = it.method(rec, "to_cryptography")
        except AnalysisError:
            c = rec.__dict__.get("_cert")
    if not isinstance(c, lib.x509.Certificate):
        raise AnalysisError(f"{what} does not yield Cert(<signed certificate>) in the interpreted model")
    return c


def _facts(cert, lib):
    """(subject attributes [(oid, value)], {extension class name: (extension, critical)})"""
    subj = cert.fields["subject"]
    if not isinstance(subj, lib.x509.Name):
        raise AnalysisError("subject_name() is not given an x509.Name in the interpreted model")
    return [(a.oid, a.value) for a in subj.attrs], {type(e).__name__: (e, crit) for e, crit in cert.fields["extensions"]}


def _store(it, lib, with_ski=True):
    """A CertStore record without any entry.  It is built by interpreting ``CertStore.__init__`` (so that attributes a maintainer adds
    there exist); when the constructor cannot be interpreted with today's parameter names, from the attributes the class annotates."""
    from ..pyint import ClassRef
    from ..pyint import Raised
    from ..pyint import Rec

    key = _Tok("ca-private-key")
    ca = Rec("Cert", _impl=(F, "Cert"), _cert=lib.cacert(with_ski))
    store = None
    try:
        mod = it.model.module(F)
        store = it.apply(ClassRef(mod, it.model.cls(F, "CertStore")), [], dict(default_privatekey=key, default_ca=ca, default_chain_file=None, default_crl=b"crl", dhparams=b"dh"), 0)
        if not (isinstance(store, Rec) and store.__dict__.get("default_privatekey") is key and store.__dict__.get("default_ca") is ca and store.__dict__.get("certs") == {}):
            store = None
    except (Raised, AnalysisError):
        store = None
    if store is None:
        store = Rec("CertStore", _impl=(F, "CertStore"), certs={}, expire_queue=[], default_privatekey=key, default_ca=ca, default_chain_file=None, default_chain_certs=[ca],
                    default_crl=b"crl", dhparams=b"dh")
    return store, key, ca


def _call(it, f, values, what):
    """Apply the repository function ``f`` (pyint Func) to ``values`` given in today's parameter order: positionally as far as the function has
    positional parameters, the rest to its keyword-only parameters in order (a `*,` inserted into the signature is harmless)."""
    a = f.node.args
    npos = len(a.posonlyargs) + len(a.args) - (1 if f.bound is not None else 0)
    rest = values[npos:]
    if len(rest) > len(a.kwonlyargs) and not a.vararg:
        raise AnalysisError(f"{what}: signature changed (takes fewer than {len(values)} arguments)")
    return it.apply(f, list(values[:npos]) if not a.vararg else list(values), {} if a.vararg else {k.arg: v for k, v in zip(a.kwonlyargs, rest)}, 0)


# ---- R16.1 ----------------------------------------------------------------------------------------


def _gn(lib, s):
    import ipaddress

    try:
        ip = ipaddress.ip_address(s)
    except ValueError:
        return lib.x509.DNSName(s.encode("idna").decode())
    return lib.x509.IPAddress(ip)


def _dedupe(xs):
    return list(dict.fromkeys(xs))


def _r16_1_worlds(lib, full):
    import ipaddress
    import itertools

    X = lib.x509

    def upstream(i):
        mk = lambda path, **kw: _Obj(path, **kw)  # noqa: E731
        leafs = [
            dict(cn="upstream-cn.example", altnames=X.GeneralNames([X.DNSName("up-alt.example"), X.DNSName("*.shared.example"), X.IPAddress(ipaddress.ip_address("198.51.100.9"))]),
                 organization="Upstream Org", crl_distribution_points=["http://crl.up.example/ca.crl"]),
            dict(cn=None, altnames=X.GeneralNames([]), organization=None, crl_distribution_points=[]),
            dict(cn="203.0.113.5", altnames=X.GeneralNames([X.DNSName("dup.example"), X.DNSName("yankee.example")]), organization=None, crl_distribution_points=["http://[malformed/ca.crl"]),
        ]
        inter = dict(cn="intermediate-ca.invalid", altnames=X.GeneralNames([X.DNSName("intermediate-alt.invalid")]), organization="Intermediate Org", crl_distribution_points=["http://crl.intermediate.invalid/x.crl"])
        return [mk("server.certificate_list[0]", **leafs[i]), mk("server.certificate_list[1]", **inter)]

    snis = [None, "alpha.example", "zulu.example", "bücher.example", "192.0.2.33", "api.eu.shared.example", "dup.example"]
    socks = [("192.0.2.7", 8080), ("2001:db8::7", 8080, 0, 0)]
    addrs = [None, ("mike.example", 443), ("192.0.2.80", 443), "same-as-sni"]
    if full:
        grid = list(itertools.product((True, False), (None, 0, 1, 2), snis, addrs))
    else:  # quick tier: the full SNI x address grid without / with the first upstream certificate, a reduced grid for the other combinations
        few_sni, few_addr = [None, "alpha.example", "zulu.example", "api.eu.shared.example", "dup.example"], [None, ("mike.example", 443), "same-as-sni"]
        grid = list(itertools.product((True,), (None, 0), snis, addrs)) + list(itertools.product((True,), (1, 2), few_sni, few_addr)) + list(itertools.product((False,), (0,), few_sni, few_addr))
    for opt, ci, sni, addr in grid:
        for sock in (socks if sni is None and (full or ci in (None, 0)) else socks[1:] if sni is None else socks[:1]):
            if addr == "same-as-sni":
                a = (sni or sock[0], 443)
            else:
                a = addr
            certlist = upstream(ci) if ci is not None else []
            yield {"upstream_cert option": opt, "server certificate": ci, "sni": sni, "sockname": sock, "server address": a}, certlist


def _r16_1(ctx, lib):
    from ..pyint import Raised
    from ..pyint import Rec

    gc = ctx.func(T, "TlsConfig.get_cert")
    ctx.func(F, "CertStore.get_cert")
    where = (T, "TlsConfig.get_cert", gc)
    bad = {k: [] for k in ("source", "convert", "identity", "raise", "dup", "cn", "entry")}
    seqs = []  # (world, parts [(kind, name)], issued SANs)
    seen_kinds = set()
    n = 0
    for world, certlist in _r16_1_worlds(lib, ctx.tier == "thorough"):
        n += 1
        ctx.cells += 1
        it = _interp(ctx, lib)
        store, key, ca = _store(it, lib)
        client = _Obj("conn_context.client", sni=world["sni"], sockname=world["sockname"], peername=("198.18.0.1", 51234), address=("198.18.0.1", 51234), alpn=None, tls_established=False,
                      certificate_list=[], id="client-id", transport_protocol="tcp", proxy_mode=_Obj("conn_context.client.proxy_mode", type_name="regular", full_spec="regular"))
        server = _Obj("conn_context.server", address=world["server address"], certificate_list=certlist, sni="server-sni.invalid", peername=("203.0.113.99", 443), alpn=None,
                      tls_established=bool(certlist), id="server-id", transport_protocol="tcp", via=None)
        cc = _Obj("conn_context", client=client, server=server)
        it.overrides[(T, "ctx")] = _Obj("ctx", options=_Obj("ctx.options", upstream_cert=world["upstream_cert option"]))
        me = Rec("TlsConfig", _impl=(T, "TlsConfig"), certstore=store)
        short = {k: v for k, v in world.items()}
        try:
            entry = _call(it, it.getattr(me, "get_cert", None, 0), [cc], "TlsConfig.get_cert")
        except Raised as e:
            bad["raise"].append(f"{e.name} for {short}")
            continue
        if not isinstance(entry, Rec) or "cert" not in entry.__dict__:
            raise AnalysisError("TlsConfig.get_cert does not return a store entry with a `cert` in the interpreted model")
        cert = _cert_of(it, entry.cert, lib, "TlsConfig.get_cert(...).cert")
        attrs, exts = _facts(cert, lib)
        if cert.signed_with is not key or entry.__dict__.get("privatekey") is not key or cert.fields["issuer"] is not ca._cert.subject:
            bad["entry"].append(f"{short}")
        san = exts.get("SubjectAlternativeName")
        names = list(san[0].names) if san else []
        # what may be named in this world
        ident = _gn(lib, world["sni"] or world["sockname"][0])
        parts = []
        if world["upstream_cert option"] and certlist:
            up = certlist[0]
            if up.cn:
                parts.append(("upstream cn", _gn(lib, up.cn)))
            parts += [(f"upstream altname {i}", a) for i, a in enumerate(up.altnames)]
        parts.append(("sni / local address", ident))
        if world["server address"]:
            parts.append(("server address", _gn(lib, world["server address"][0])))
        allowed = {g for _, g in parts}
        raw = {str(g.value) for g in allowed} | {s for s in (world["sni"], world["sockname"][0], (world["server address"] or [None])[0]) if s}
        for r in names:
            if r in allowed:
                continue
            if str(getattr(r, "value", r)) in raw:
                bad["convert"].append(f"{r!r} for {short}")
            else:
                bad["source"].append(f"{r!r} for {short}")
        if ident not in names:
            bad["identity"].append(f"{short} -> {names}")
        cns = [v for o, v in attrs if o == "COMMON_NAME"]
        want_cn = [str(names[0].value)] if names else []
        if cns != want_cn:
            bad["cn"].append(f"CN {cns} but SANs {names} for {short}")
        if all(r in allowed for r in names):
            seqs.append((short, parts, names))
            seen_kinds |= {k.split(" altname")[0] for k, g in parts if g in names}
        if n in (1, 40, 100):
            ctx.sample({"world": {k: str(v) for k, v in short.items()}, "subject": attrs, "subjectAltName": [repr(x) for x in names]})
    ctx.require(len(seqs) + len(bad["raise"]) > 0 or bad["source"] or bad["convert"], "get_cert: no interpreted world yields a certificate")
    ctx.require({"upstream cn", "upstream", "sni / local address", "server address"} <= seen_kinds or any(bad.values()),
                f"get_cert: expected identity sources not found in any interpreted world: {sorted(seen_kinds)}")

    # order: value-independent, first occurrence kept
    orient = {}
    for short, parts, names in seqs:
        if len({g for _, g in parts}) != len(parts):
            continue
        kind = {g: k for k, g in parts}
        ks = [kind[r] for r in _dedupe(names)]
        for i, a in enumerate(ks):
            for b in ks[i + 1 :]:
                orient.setdefault((a, b), short)
    conflicts = sorted((a, b) for (a, b) in orient if (b, a) in orient and a < b)
    canon = {}
    for _, parts, _ in seqs:
        for k, _g in parts:
            canon.setdefault(k, len(canon))
    rank = {k: (sum(1 for (a, b) in orient if b == k), canon[k]) for k in canon}
    order_bad = []
    if conflicts:
        a, b = conflicts[0]
        order_bad.append(f"`{a}` comes before `{b}` for {orient[(a, b)]} but after it for {orient[(b, a)]}")
    else:
        for short, parts, names in seqs:
            want = [g for g in _dedupe([g for _, g in sorted(parts, key=lambda p: rank[p[0]])]) if g in names]
            if _dedupe(names) != want:
                order_bad.append(f"{names} for {short}, expected {want}")
            if len(names) != len(set(names)):
                bad["dup"].append(f"{names} for {short}")
    ctx.paths += n

    def first(xs):
        return f"{len(xs)} case(s) in {n} world(s), e.g. {xs[0][:420]}" if xs else ""

    ctx.check(not bad["raise"], "R16.1", where, "a certificate is issued in every world", f"get_cert raises instead of issuing a certificate: {first(bad['raise'])}", desc=f"get_cert issues a certificate in all {n} interpreted worlds")
    ctx.check(not bad["source"], "R16.1", where, "altnames sources", "a name enters the certificate that is not (option-gated) upstream cn/altnames, SNI, local address or server address: "
              f"{first(bad['source'])}", desc=f"every SAN comes from an allowed, control-dependent source ({n} worlds; sources seen: {sorted(seen_kinds)})")
    ctx.check(not bad["convert"], "R16.1", where, "IP literal -> IPAddress, else DNSName(idna)",
              f"names are not converted to the matching GeneralName type (IP SAN for addresses, IDNA-encoded DNS SAN otherwise): the certificate would not verify for that identity: {first(bad['convert'])}",
              desc="every name is an IPAddress (IP literal) / DNSName of the IDNA A-label (IPv4, IPv6, IDN worlds)")
    ctx.check(not bad["identity"], "R16.1", where, "SNI (else local address) always among the altnames", f"the certificate does not name the identity the client asked for: {first(bad['identity'])}", desc=f"SNI / local address named in all {n} worlds")
    ctx.check(not order_bad and not bad["dup"], "R16.1", where, "altnames only rebound by order-preserving de-duplication",
              f"the SAN list is not the order-preserving (first occurrence) de-duplication of the names as added: {first(order_bad or bad['dup'])}", desc="SAN order is value-independent and keeps first occurrences; no duplicates")
    ctx.check(not bad["cn"], "R16.1", where, "cn = value of the first altname", f"the subject CN is not the first SAN's value: {first(bad['cn'])}", desc="CN is the first SAN's value in every world")
    ctx.check(not bad["entry"], "R16.1", where, "return self.certstore.get_cert(cn, altnames, ...)", f"the returned entry is not the store's CA-signed certificate with the store's key: {first(bad['entry'])}", desc="the returned entry carries the CA-signed certificate and the store's key")

    # the presented certificate is the store entry
    tsc = ctx.func(T, "TlsConfig.tls_start_client")
    params = [a.arg for a in tsc.args.args]
    ctx.require(len(params) >= 2, "tls_start_client signature changed")
    p = params[1]

    tmod = ctx.model.module(T)

    def resolved(e, fn, binds, depth=0):
        """text of ``e`` (an expression of ``fn``) with the callee's parameters (``binds``: name -> caller's text) and single-assignment
        local temporaries substituted"""
        e = ast.parse(ast.unparse(e), mode="eval").body  # a private copy without parent links
        fparams = [a.arg for a in fn.args.posonlyargs + fn.args.args + fn.args.kwonlyargs]

        class Sub(ast.NodeTransformer):
            def visit_Name(self, node):
                if not isinstance(node.ctx, ast.Load) or depth >= 8:
                    return node
                if node.id in binds:
                    return ast.parse(binds[node.id], mode="eval").body
                if node.id not in fparams:
                    d = local_defs(fn, node.id)
                    par = getattr(d[0], "_parent", None) if len(d) == 1 else None
                    if (isinstance(par, ast.Assign) and len(par.targets) == 1 and isinstance(par.targets[0], ast.Name)) or isinstance(par, ast.AnnAssign):
                        return ast.parse(resolved(d[0], fn, binds, depth + 1), mode="eval").body
                return node

        return " ".join(ast.unparse(Sub().visit(e)).split())

    uses = {}

    def scan(fn, binds, depth):
        for c in calls_in(fn):
            if isinstance(c.func, ast.Attribute) and c.func.attr in ("use_certificate", "use_privatekey"):
                uses.setdefault(c.func.attr, []).append(([resolved(a, fn, binds) for a in c.args], resolved(c.func.value, fn, binds)))
                continue
            # a private helper of the addon / module that is handed the connection or the entry: follow it (one binding per parameter)
            callee = None
            if isinstance(c.func, ast.Attribute) and isinstance(c.func.value, ast.Name) and c.func.value.id == "self" and ctx.model.has(T, f"TlsConfig.{c.func.attr}"):
                callee, skip = ctx.model.func(T, f"TlsConfig.{c.func.attr}"), 1
                if any(norm(d) == "staticmethod" for d in callee.decorator_list):
                    skip = 0
            elif isinstance(c.func, ast.Name) and isinstance(tmod.get(c.func.id), ast.FunctionDef):
                callee, skip = tmod.get(c.func.id), 0
            if callee is None or depth >= 3 or callee is fn or callee.name in ("get_cert",) or any(isinstance(a, ast.Starred) for a in c.args) or any(k.arg is None for k in c.keywords):
                continue
            if not any(isinstance(x, ast.Attribute) and x.attr in ("use_certificate", "use_privatekey") for x in ast.walk(callee)) and not any(
                isinstance(x, ast.Call) and isinstance(x.func, (ast.Attribute, ast.Name)) for x in ast.walk(callee)
            ):
                continue
            cparams = [a.arg for a in callee.args.posonlyargs + callee.args.args][skip:]
            b2 = {"self": "self"} if skip else {}
            for name, arg in list(zip(cparams, c.args)) + [(k.arg, k.value) for k in c.keywords]:
                b2[name] = resolved(arg, fn, binds)
            scan(callee, b2, depth + 1)

    scan(tsc, {}, 0)
    ctx.require(set(uses) == {"use_certificate", "use_privatekey"}, f"tls_start_client: use_certificate / use_privatekey calls not found: {sorted(uses)}")
    e = f"self.get_cert({p}.context)"
    okc = [a for a, recv in uses["use_certificate"]] == [[f"{e}.cert.to_cryptography()"]] or [a for a, recv in uses["use_certificate"]] == [[f"{e}.cert._cert"]]
    okk = [a for a, recv in uses["use_privatekey"]] == [[f"{e}.privatekey"]]
    same = uses["use_certificate"][0][1] == uses["use_privatekey"][0][1]
    ctx.check(okc and okk and same, "R16.1", (T, "TlsConfig.tls_start_client", tsc), "ssl_conn.use_certificate(entry.cert) / use_privatekey(entry.privatekey)",
              f"the client connection does not present exactly the store entry of get_cert(context): {uses}", desc="tls_start_client presents get_cert(context)'s certificate and key")
    ctx.expect_instances("R16.1", 8)


# ---- R16.2 ----------------------------------------------------------------------------------------


def _dummy_cert_worlds(ctx, lib):
    """Interpret dummy_cert's AST in every world commonname x organization x crl_url x issuer-with/without-SKI:
    [(world, ('cert', certificate, returned-is-Cert-of-it) | ('raise', exception name), sans, cacert, key, now readings, serials drawn)]"""
    import itertools

    from ..pyint import Func
    from ..pyint import Raised

    out = []
    names = {"None": None, "short": "example.com", "63 chars": "a" * 59 + ".com", "64 chars": "a" * 60 + ".com", "65 chars": "a" * 61 + ".com", "300 chars": "a" * 296 + ".com"}
    for (cn_k, cn), org, crl, ski in itertools.product(names.items(), (None, "Example Org"), (None, "http://crl.example/ca.crl"), (True, False)):
        it = _interp(ctx, lib)
        sans = [lib.x509.DNSName(cn or "fallback.example"), _gn(lib, "192.0.2.1")]
        world = {"commonname": cn_k, "organization": org, "crl_url": crl, "issuer_has_ski": ski}
        ctx.cells += 1
        key, cacert = _Tok("ca-private-key"), lib.cacert(ski)
        n0, s0 = len(lib.nows), len(lib.serials)
        try:
            r = _call(it, Func(ctx.model.module(F), ctx.model.func(F, "dummy_cert")), [key, cacert, cn, sans, org, crl], "dummy_cert")
        except Raised as e:
            out.append((world, ("raise", e.name), sans, cacert, key, [], []))
            continue
        cert = _cert_of(it, r, lib, "dummy_cert")
        out.append((world, ("cert", cert), sans, cacert, key, lib.nows[n0:], lib.serials[s0:]))
    return out


def _r16_2(ctx, lib):
    import datetime

    from ..pyint import Raised
    from ..pyint import Rec

    dc = ctx.func(F, "dummy_cert")
    where = (F, "dummy_cert", dc)
    worlds = _dummy_cert_worlds(ctx, lib)
    bad = {k: [] for k in ("issuer", "eku", "validity", "san", "critical", "aki", "sign", "serial")}
    cn_wit = None
    n_cn = n_fallback = 0
    for world, res, sans, cacert, key, nows, serials in worlds:
        if res[0] == "raise":
            cn_wit = cn_wit or f"dummy_cert raises {res[1]} for {world}"
            continue
        cert = res[1]
        attrs, exts = _facts(cert, lib)
        f = cert.fields
        w = str(world)
        if f["issuer"] is not cacert.subject and f["issuer"] != cacert.subject:
            bad["issuer"].append(w)
        eku = exts.get("ExtendedKeyUsage")
        try:
            usages = list(eku[0].args[0]) if eku else []
        except TypeError:
            raise AnalysisError("ExtendedKeyUsage is not given a sequence in the interpreted model")
        if "SERVER_AUTH" not in usages:
            bad["eku"].append(f"{usages} for {w}")
        nb, na = f["not_before"], f["not_after"]
        if len(set(nows)) != 1 or not isinstance(nb, datetime.datetime) or not isinstance(na, datetime.datetime):
            raise AnalysisError("dummy_cert: the validity window is not computed from one reading of datetime.now() - not modelled")
        try:
            okv = nb < nows[0] < na and nows[0] - nb <= datetime.timedelta(days=30)
        except TypeError:
            okv = False
        if not okv:
            bad["validity"].append(f"not_before = now{_delta(nb, nows[0])}, not_after = now{_delta(na, nows[0])}")
        cns = [v for o, v in attrs if o == "COMMON_NAME"]
        n_cn += bool(cns)
        if any(len(v) > 64 for v in cns):
            cn_wit = cn_wit or f"a {len(cns[0])}-character common name is put into the subject for {world}"
        san_ext = exts.get("SubjectAlternativeName")
        if san_ext is None or list(san_ext[0].names) != sans:
            bad["san"].append(w)
        elif not attrs and not san_ext[1]:
            bad["critical"].append(f"commonname: {world['commonname']}, organization: {world['organization']!r} -> subject is empty, subjectAltName critical={san_ext[1]}")
        aki = exts.get("AuthorityKeyIdentifier")
        want = ("ski", "issuer-ski") if world["issuer_has_ski"] else ("public_key", "ca-public-key")
        n_fallback += not world["issuer_has_ski"]
        if aki is None or aki[0].args != want:
            bad["aki"].append(f"{aki[0] if aki else None} for {w}")
        if cert.signed_with is not key:
            bad["sign"].append(w)
        if len(serials) != 1 or f["serial"] != serials[0]:
            bad["serial"].append(w)
    ctx.require(n_cn or cn_wit, "dummy_cert: no interpreted world puts a common name into the subject (anchor changed)")
    ctx.require(n_fallback > 0 or cn_wit, "dummy_cert: AKI fallback world (issuer without SKI) not reached")
    nw = len(worlds)
    msg = {
        "issuer": ("issuer_name(cacert.subject)", "the leaf is not issued under the CA's subject name: the chain does not build"),
        "eku": ("ExtendedKeyUsage([SERVER_AUTH])", "the leaf is not marked for TLS server authentication"),
        "validity": ("not_valid_before < now < not_valid_after", "the certificate is not valid at the time of issue (or back-dated by more than 30 days)"),
        "san": ("SubjectAlternativeName(sans) always added", "a certificate without (or with other than the requested) subjectAltName is produced"),
        "critical": ("SAN critical when the subject is empty", "RFC 5280 4.2.1.6: an empty subject requires a critical subjectAltName - strict verifiers reject the certificate"),
        "aki": ("AKI from issuer SKI, public-key fallback", "authority key identifier does not match the issuer's subject key identifier: strict chain builders reject the certificate"),
        "sign": ("builder.sign(private_key=privkey); return Cert(cert)", "the returned certificate is not the one signed with the CA key"),
        "serial": ("serial_number(random_serial_number())", "no fresh serial number"),
    }
    for k, (construct, why) in msg.items():
        ctx.check(not bad[k], "R16.2", where, construct, f"{len(bad[k])} of {nw} interpreted world(s): {why}" + (f" [{bad[k][0][:300]}]" if bad[k] else ""), desc=f"{construct} in all {nw} interpreted worlds")
    ctx.check(cn_wit is None, "R16.2", where, "common name only if present and <= 64 characters", f"{cn_wit}: certificate generation fails or yields an invalid subject for long SNIs",
              desc=f"CN only when present and short enough ({nw} interpreted worlds: None / 11 / 63 / 64 / 65 / 300 characters)")

    # issued by the store's CA for exactly the requested names: CertStore.get_cert interpreted on a store without a matching entry
    gc = ctx.func(F, "CertStore.get_cert")
    sbad = []
    for cn, org, crl in (("leaf.example", None, None), ("leaf.example", "Leaf Org", "http://crl.example/ca.crl"), (None, None, None)):
        it = _interp(ctx, lib)
        store, key, ca = _store(it, lib)
        sans = [lib.x509.DNSName("leaf.example"), lib.x509.DNSName("www.leaf.example"), _gn(lib, "2001:db8::1")]
        ctx.cells += 1
        try:
            entry = _call(it, it.getattr(store, "get_cert", None, 0), [cn, list(sans), org, crl], "CertStore.get_cert")
        except Raised as e:
            sbad.append(f"raises {e.name} for commonname={cn!r}")
            continue
        if not isinstance(entry, Rec) or "cert" not in entry.__dict__:
            raise AnalysisError("CertStore.get_cert does not return an entry with a `cert` in the interpreted model")
        cert = _cert_of(it, entry.cert, lib, "CertStore.get_cert(...).cert")
        attrs, exts = _facts(cert, lib)
        san = exts.get("SubjectAlternativeName")
        got = {"signed with": cert.signed_with, "issuer": cert.fields["issuer"], "entry.privatekey": entry.__dict__.get("privatekey"), "SANs": list(san[0].names) if san else None,
               "CN": [v for o, v in attrs if o == "COMMON_NAME"], "O": [v for o, v in attrs if o == "ORGANIZATION_NAME"]}
        want = {"signed with": key, "issuer": ca._cert.subject, "entry.privatekey": key, "SANs": sans, "CN": [cn] if cn else [], "O": [org] if org else []}
        diff = [f"{k}: {got[k]!r}, expected {want[k]!r}" for k in want if got[k] != want[k]]
        if diff:
            sbad.append(f"commonname={cn!r}: " + "; ".join(diff))
    ctx.check(not sbad, "R16.2", (F, "CertStore.get_cert", gc), "dummy_cert(self.default_privatekey, self.default_ca._cert, commonname, sans, ...)",
              f"the leaf is not generated from the store's CA key/certificate for the requested names, or the entry carries another key: {sbad[:2]}", desc="CertStore.get_cert issues under its default CA for (commonname, sans)")
    ctx.expect_instances("R16.2", 10)


def _delta(t, now):
    try:
        d = (t - now).total_seconds() / 86400
    except TypeError:
        return " (incomparable)"
    return f"{d:+.1f}d"


def check(ctx):
    ctx.rule("R16.1", "every SAN of the generated certificate comes from SNI / local address / server address / option-gated upstream certificate; SNI always included; cn = first SAN")
    ctx.rule("R16.2", "dummy_cert builder obligations: issuer, serverAuth, validity window around now, SAN (critical if subject empty), AKI, serial, signed with the CA key")
    ctx.trust("cryptography.x509 builder semantics (recording model); ipaddress.ip_address raising ValueError for non-IP strings; loggers have no effect on the certificate")
    lib = _library()
    _r16_1(ctx, lib)
    _r16_2(ctx, lib)


MUTANTS = [
    Mutant("upstream-names-without-option", T, "        if ctx.options.upstream_cert and conn_context.server.certificate_list:\n", "        if conn_context.server.certificate_list:\n", "R16.1"),
    Mutant("sni-missing-when-server-known", T, "        if conn_context.client.sni:\n            altnames.append(_ip_or_dns_name(conn_context.client.sni))\n        else:",
           "        if conn_context.server.address:\n            pass\n        elif conn_context.client.sni:\n            altnames.append(_ip_or_dns_name(conn_context.client.sni))\n        else:", "R16.1"),
    Mutant("host-header-style-foreign-name", T, "        if conn_context.server.address:\n            altnames.append(_ip_or_dns_name(conn_context.server.address[0]))\n",
           "        if conn_context.server.address:\n            altnames.append(_ip_or_dns_name(conn_context.server.address[0]))\n        if conn_context.server.sni:\n            altnames.append(_ip_or_dns_name(conn_context.server.sni))\n", "R16.1"),
    Mutant("raw-string-san", T, "            altnames.append(_ip_or_dns_name(conn_context.client.sockname[0]))\n", "            altnames.append(x509.DNSName(conn_context.client.sockname[0]))\n", "R16.1"),
    Mutant("cn-last-altname", T, "        cn = next((str(x.value) for x in altnames), None)\n", "        cn = next((str(x.value) for x in reversed(altnames)), None)\n", "R16.1"),
    Mutant("altnames-sorted", T, "        altnames = list(dict.fromkeys(altnames))\n", "        altnames = sorted(set(altnames), key=str)\n", "R16.1"),
    Mutant("ip-as-dns-name", T, "    else:\n        return x509.IPAddress(ip)\n", "    else:\n        return x509.DNSName(val)\n", "R16.1"),
    Mutant("no-idna", T, "        return x509.DNSName(val.encode(\"idna\").decode())\n", "        return x509.DNSName(val)\n", "R16.1"),
    Mutant("upstream-names-from-last-certificate", T, "            upstream_cert: certs.Cert = conn_context.server.certificate_list[0]\n", "            upstream_cert: certs.Cert = conn_context.server.certificate_list[-1]\n", "R16.1"),
    Mutant("sni-skipped-when-upstream-wildcard-seems-to-cover-it", T, "        if conn_context.client.sni:\n            altnames.append(_ip_or_dns_name(conn_context.client.sni))\n",
           "        if conn_context.client.sni:\n            if not any(str(x.value).startswith(\"*.\") and conn_context.client.sni.endswith(str(x.value)[1:]) for x in altnames):\n                altnames.append(_ip_or_dns_name(conn_context.client.sni))\n", "R16.1"),
    Mutant("client-gets-default-key-instead-of-entry-key", T, "        tls_start.ssl_conn.use_privatekey(entry.privatekey)\n", "        tls_start.ssl_conn.use_privatekey(self.certstore.default_privatekey)\n", "R16.1"),
    Mutant("issuer-is-ca-issuer", F, "    builder = builder.issuer_name(cacert.subject)\n    builder = builder.add_extension(\n        x509.ExtendedKeyUsage", "    builder = builder.issuer_name(cacert.issuer)\n    builder = builder.add_extension(\n        x509.ExtendedKeyUsage", "R16.2"),
    Mutant("eku-client-auth", F, "        x509.ExtendedKeyUsage([ExtendedKeyUsageOID.SERVER_AUTH]), critical=False\n    )\n    builder = builder.public_key(cacert.public_key())",
           "        x509.ExtendedKeyUsage([ExtendedKeyUsageOID.CLIENT_AUTH]), critical=False\n    )\n    builder = builder.public_key(cacert.public_key())", "R16.2"),
    Mutant("validity-offset-positive", F, "CERT_VALIDITY_OFFSET = datetime.timedelta(days=-2)", "CERT_VALIDITY_OFFSET = datetime.timedelta(days=2)", "R16.2"),
    Mutant("not-after-in-the-past", F, "    builder = builder.not_valid_after(now + CERT_VALIDITY_OFFSET + CERT_EXPIRY)\n", "    builder = builder.not_valid_after(now + CERT_VALIDITY_OFFSET)\n", "R16.2"),
    Mutant("san-never-critical", F, "        critical=not is_valid_commonname,\n", "        critical=False,\n", "R16.2"),
    Mutant("san-critical-from-arguments-not-subject", F, "        critical=not is_valid_commonname,\n", "        critical=commonname is None and organization is None,\n", "R16.2"),
    Mutant("san-critical-only-without-sni-name", F, "        critical=not is_valid_commonname,\n", "        critical=commonname is None,\n", "R16.2"),
    Mutant("cn-gate-after-the-attribute", F, "    if is_valid_commonname:\n        assert commonname is not None\n", "    if commonname is not None:\n        assert commonname is not None\n", "R16.2"),
    Mutant("cn-length-unchecked", F, "    is_valid_commonname = commonname is not None and len(commonname) < 64\n", "    is_valid_commonname = commonname is not None\n", "R16.2"),
    Mutant("aki-always-from-public-key", F, "        aki = x509.AuthorityKeyIdentifier.from_issuer_subject_key_identifier(issuer_ski)\n", "        aki = x509.AuthorityKeyIdentifier.from_issuer_public_key(cacert.public_key())\n", "R16.2"),
    Mutant("san-from-commonname-only", F, "        x509.SubjectAlternativeName(_fix_legacy_sans(sans)),\n", "        x509.SubjectAlternativeName(_fix_legacy_sans([commonname] if commonname else [])),\n", "R16.2"),
    Mutant("store-signs-for-cn-only", F, "                    self.default_ca._cert,\n                    commonname,\n                    sans,\n", "                    self.default_ca._cert,\n                    commonname,\n                    [],\n", "R16.2"),
]
