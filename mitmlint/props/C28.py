"""C28 - WebSocket messages are relayed exactly once with their exact content.

Decided:
  R28.1  symbolic path analysis of `WebsocketLayer.relay_messages`, case-split on direction and text/binary: per
         finished message exactly one `messages.append(M)`, then one WebsocketMessageHook; M = WebSocketMessage(TEXT iff
         text, from_client, b"".join(frame buffer), injected=..); the frame buffer is reset to [b""]; forwarding happens
         only under `not M.dropped`, after the hook, to the OTHER peer, as `fragmentizer(M.content)` where the
         fragmentizer was built from the pre-reset buffer and the same text flag; an unfinished frame end appends a new
         buffer element and nothing else happens; Ping/Pong are forwarded once to the other peer; on CloseConnection the
         recorded close_code / close_reason / closed_by_client come from the event and the direction, one
         WebsocketEndHook fires and the layer enters `done`, which is silent.
  R28.2  finite evaluation of the `Fragmentizer` class AST on TEXT content (1-4 byte UTF-8 characters, every
         FRAGMENT_SIZE 1..6, same-length and changed-length re-fragmentation): the concatenated text of the produced
         TextMessages equals the content and no U+FFFD is introduced.  Any sound idiom passes (incremental decoder,
         slicing the decoded str, boundary scan); decoding byte-offset slices independently fails.   (F-C28, repaired)
  R28.3  finite evaluation of `Fragmentizer.__call__` on BINARY content for all fragment-length lists (incl. empty
         frames) up to total 6 x all content lengths 0..9 x FRAGMENT_SIZE 1..4: pieces concatenate to the content
         (every byte exactly once, in order), at least one piece, exactly the last piece has message_finished=True,
         unchanged length => the original fragment lengths are kept.
  R28.4  ("with or without permessage-deflate") finite evaluation of `WebsocketLayer.start` (its AST, on stubs that
         implement the documented contract of the trusted wsproto library) over a set of `Sec-WebSocket-Extensions`
         response headers (absent; permessage-deflate without / with one / with several parameters, any spacing around
         ';'; unknown extensions before / after it): each of mitmproxy's two wsproto connections is created with
         exactly one *own* PerMessageDeflate object per negotiated permessage-deflate entry, finalised exactly once with
         EXACTLY the negotiated parameter list (so its compression context / window equals the peers'), none
         otherwise; `client_ws` is the SERVER-role connection on `context.client`, `server_ws` the CLIENT-role one on
         `context.server`.  A parameter that is lost, invented, or an extension object shared by both connections
         makes a later compressed message undecodable for the receiving peer (close 1007): the recorded message is
         never delivered.  The comparison is on the *parameters that arrive in the library*, not on how the header is
         cut up: any spelling that hands the library the full entry passes.
NOT decided: wsproto framing / the deflate codec itself (library), real sockets.
"""

from __future__ import annotations

import ast
import codecs

from ..core import AnalysisError
from ..core import norm
from ..model import attr_chain
from ..model import last_attr
from ..model import yields_in
from ..paths import C
from ..paths import is_const
from ..paths import traces_of
from ..selftest import Mutant
from ._helpers_D import attr_of
from ._helpers_D import Concrete
from ._helpers_D import Raised
from ._helpers_D import show
from ._helpers_D import sym
from ._helpers_D import SymSpec
from ._helpers_D import call_args
from ._helpers_D import last_attr_name
from ._helpers_D import SendSpec

PROP = "C28"
REG = {
    "strength": "partial",
    "technique": "symbolic path analysis of WebsocketLayer.relay_messages (case split direction x text/binary) + finite evaluation of the "
    "Fragmentizer class AST (all small fragment patterns, chunk sizes, multi-byte UTF-8 contents)",
    "claim": "each finished message is recorded once, hooked once, and (unless dropped) forwarded once to the other peer as the re-fragmented "
    "post-hook content with the right type; re-fragmentation covers the content exactly once, keeps original boundaries for unchanged "
    "length, finishes only the last fragment and never garbles multi-byte text; ping/pong relayed; close code/reason recorded from the event.",
    "note": "wsproto and codecs (stdlib incremental decoder) are trusted libraries; loops unrolled once in the path analysis. R28.4 relies on "
    "the library contract: split_comma_header splits at ',' and strips; PerMessageDeflate.finalize(offer) reads the parameters from the "
    "';'-separated items AFTER the first one of the complete extension entry.",
}

WS = "mitmproxy/proxy/layers/websocket.py"


# ---------------------------------------------------------------------------------------------------
# R28.1


class WsSpec(SendSpec):
    def stmt_events(self, stmt, st, depth):
        out = SendSpec.stmt_events(self, stmt, st, depth)
        v = stmt.value if isinstance(stmt, (ast.Expr, ast.Assign)) else None
        if isinstance(v, ast.Yield) and isinstance(v.value, ast.Call):
            c = v.value
            if isinstance(c.func, ast.Attribute) and c.func.attr == "send2" and len(c.args) == 1:
                out.append(("send2", self.value(c.func.value, st, depth), self.value(c.args[0], st, depth)))
            elif last_attr(c.func) in ("CloseConnection",):
                out.append(("closeconn",))
            elif last_attr(c.func) == "SendData":
                out.append(("rawsend",))
        if isinstance(stmt, ast.Assign):
            for t in stmt.targets:
                ch = attr_chain(t)
                if ch and "." in ch:
                    out.append(("set", ch, self.value(stmt.value, st, depth)))
        return out

    def events(self, node, st):
        # for-loop iterables: a call of a local that holds a Fragmentizer
        if isinstance(node, ast.Call) and isinstance(node.func, ast.Name):
            f = self.value(node.func, st, self._depth)
            if isinstance(f, tuple) and f and f[0] == "call" and last_attr_name(f) == "Fragmentizer":
                return [("refrag", f, tuple(self.value(a, st, self._depth) for a in node.args))]
        return []


def check_r281(ctx):
    m = ctx.model
    fn = ctx.func(WS, "WebsocketLayer.relay_messages")
    where = (WS, "WebsocketLayer.relay_messages", fn)
    flags = [n.targets[0].id for n in ast.walk(fn) if isinstance(n, ast.Assign) and len(n.targets) == 1 and isinstance(n.targets[0], ast.Name)]
    ctx.require("from_client" in flags and "is_text" in flags, "relay_messages: locals from_client / is_text vanished")
    loop_vars = SymSpec.loop_vars_of(fn)
    ctx.require("ws_event" in loop_vars and "msg" in loop_vars, f"relay_messages: loop variables changed: {sorted(loop_vars)}")
    seen = {"finished": 0, "sent": 0, "dropped": 0, "frame_end": 0, "ping": 0, "close": 0}
    for from_client in (True, False):
        src, dst = ("self.client_ws", "self.server_ws") if from_client else ("self.server_ws", "self.client_ws")
        for is_text in (True, False):
            spec = WsSpec(loop_vars=loop_vars, forced={"from_client": from_client, "is_text": is_text})
            traces, eng = traces_of(fn, spec)
            ctx.paths += len(traces)
            tag = f"{'client' if from_client else 'server'}->{'TEXT' if is_text else 'BINARY'}"
            EVT = ("elem", ("call", "src_ws.events", (), 0))
            for trace, how, st in traces:
                if how != "return":
                    continue
                conds = {e[1]: e[2] for e in trace if e[0] == "cond"}
                appends = [(i, e) for i, e in enumerate(trace) if e[0] == "append" and e[1] == sym("self.flow.websocket.messages")]
                hooks = [(i, e) for i, e in enumerate(trace) if e[0] == "hook"]
                sends = [(i, e) for i, e in enumerate(trace) if e[0] == "send2"]
                is_msg = conds.get("isinstance(ws_event, wsproto.events.Message)")
                if is_msg and conds.get("ws_event.message_finished"):
                    seen["finished"] += 1
                    mh = [h for h in hooks if h[1][1] == "WebsocketMessageHook"]
                    ok = len(appends) == 1 and len(mh) == 1 and appends[0][0] < mh[0][0]
                    ctx.check(ok, "R28.1", where, "finished message: one messages.append, then one WebsocketMessageHook",
                              f"[{tag}] a finished message is recorded {len(appends)}x and hooked {len(mh)}x (order {[e[0] for _, e in sorted(appends + mh)]})",
                              desc=f"[{tag}] recorded once, hooked once")
                    if not ok:
                        continue
                    M = appends[0][1][2]
                    a = call_args(M, ["type", "from_client", "content", "timestamp", "dropped", "injected"][:])
                    margs = None
                    if isinstance(M, tuple) and M[0] == "call" and last_attr_name(M) == "WebSocketMessage":
                        pos = [x for x in M[2] if not (isinstance(x, tuple) and x and x[0] == "kw")]
                        kws = {x[1]: x[2] for x in M[2] if isinstance(x, tuple) and x and x[0] == "kw"}
                        names = ["type", "from_client", "content", "timestamp", "dropped", "injected"]
                        margs = dict(zip(names, pos))
                        margs.update(kws)
                    if margs is None:
                        raise AnalysisError(f"relay_messages records something that is not WebSocketMessage(...): {show(M)}")
                    buf = sym(f"{src}.frame_buf")
                    want_content = ("call", "b''.join", (buf,), 0)
                    okm = (
                        margs.get("type") == sym("Opcode.TEXT" if is_text else "Opcode.BINARY")
                        and margs.get("from_client") == C(from_client)
                        and isinstance(margs.get("content"), tuple) and margs["content"][:3] == want_content[:3]
                        and "dropped" not in margs
                    )
                    ctx.check(okm, "R28.1", where, "recorded message = WebSocketMessage(TEXT iff text, from_client, join(frame_buf))",
                              f"[{tag}] recorded message is {show(M)}: type/direction/content must be those of the received message",
                              desc=f"[{tag}] message type, direction and joined content")
                    # payload accumulation: text is encoded, binary raw
                    adds = [e for e in trace[: appends[0][0]] if e[0] == "extend" and e[1] == ("idx", buf, C(-1))]
                    want_add = ("call", "ws_event.data.encode", (), 0) if is_text else attr_of(EVT, "data")
                    oka = len(adds) == 1 and (adds[0][2][:2] == want_add[:2] if is_text else adds[0][2] == want_add)
                    ctx.check(oka, "R28.1", where, "frame payload appended to the last buffer element",
                              f"[{tag}] the frame payload is accumulated as {[show(e[2]) for e in adds]}", desc=f"[{tag}] payload appended to frame_buf[-1]")
                    resets = [e for e in trace if e[0] == "set" and e[1] == "src_ws.frame_buf"]
                    okr = len(resets) == 1 and resets[0][2] == ("tuple", C(b""))
                    ctx.check(okr, "R28.1", where, "frame buffer reset to [b''] after a finished message",
                              f"[{tag}] frame buffer after a finished message: {[show(e[2]) for e in resets] or 'not reset'}: the next message would contain this one again",
                              desc=f"[{tag}] frame_buf reset")
                    dropped = conds.get("message.dropped")
                    refr = [(i, e) for i, e in enumerate(trace) if e[0] == "refrag"]
                    if dropped is None:
                        ctx.fail("R28.1", where, "forwarding is not conditional on message.dropped", f"[{tag}] a path forwards / skips without consulting message.dropped")
                        continue
                    if dropped:
                        seen["dropped"] += 1
                        ctx.check(not sends and not refr, "R28.1", where, "dropped message is not forwarded", f"[{tag}] a dropped message is still sent", desc=f"[{tag}] dropped => nothing sent")
                        continue
                    if not sends:
                        # zero iterations of the send loop (empty fragment iterator) - the iterator itself must still be the right one
                        ok0 = len(refr) == 1
                        ctx.check(ok0, "R28.1", where, "kept message is handed to the fragmentizer", f"[{tag}] a message that was not dropped is never forwarded", desc=f"[{tag}] kept => fragmentizer(message.content)")
                        continue
                    seen["sent"] += 1
                    F = ("call", "Fragmentizer", (buf, C(is_text)), 0)
                    oks = True
                    why = ""
                    if len(refr) != 1 or refr[0][0] < mh[0][0]:
                        oks, why = False, "content is fragmented before the hook ran (addon edits are lost)"
                    else:
                        f, args = refr[0][1][1], refr[0][1][2]
                        if f[:3] != F[:3]:
                            oks, why = False, f"fragmentizer is {show(f)}, expected Fragmentizer(<pre-reset frame buffer>, is_text={is_text})"
                        elif args != (attr_of(M, "content"),):
                            oks, why = False, f"fragmentizer is applied to {[show(x) for x in args]}, not to the recorded message's content"
                        for i, e in sends:
                            if i < mh[0][0]:
                                oks, why = False, "a fragment is sent before the hook"
                            elif e[1] != sym(dst):
                                oks, why = False, f"fragments are sent to {show(e[1])} instead of the other peer {dst}"
                            elif not (isinstance(e[2], tuple) and e[2][0] == "elem" and e[2][1][:3] == ("call", "fragmentizer", args)):
                                oks, why = False, f"what is sent ({show(e[2])}) is not an element of fragmentizer(message.content)"
                    ctx.check(oks, "R28.1", where, "kept message forwarded once as fragmentizer(message.content) to the other peer after the hook",
                              f"[{tag}] {why}", desc=f"[{tag}] forwarded after hook to {dst}")
                elif is_msg:
                    fe = conds.get("ws_event.frame_finished")
                    newbuf = [e for e in trace if e[0] == "append" and e[1] == sym(f"{src}.frame_buf")]
                    if fe:
                        seen["frame_end"] += 1
                    ok = not hooks and not sends and not appends and ((len(newbuf) == 1 and newbuf[0][2] == C(b"")) if fe else not newbuf)
                    ctx.check(ok, "R28.1", where, "unfinished message: only buffering",
                              f"[{tag}] an unfinished message (frame_finished={fe}) causes hooks={len(hooks)} sends={len(sends)} new buffer elements={[show(e[2]) for e in newbuf]}",
                              desc=f"[{tag}] unfinished message (frame_finished={bool(fe)}) only buffers")
                elif conds.get("isinstance(ws_event, (wsproto.events.Ping, wsproto.events.Pong))"):
                    seen["ping"] += 1
                    ok = len(sends) == 1 and sends[0][1][1] == sym(dst) and sends[0][1][2] == EVT and not appends
                    ctx.check(ok, "R28.1", where, "ping/pong relayed once to the other peer", f"[{tag}] ping/pong handling sends {[(show(e[1]), show(e[2])) for _, e in sends]}",
                              desc=f"[{tag}] ping/pong -> {dst}")
                elif conds.get("isinstance(ws_event, wsproto.events.CloseConnection)"):
                    seen["close"] += 1
                    sets = {e[1]: e[2] for e in trace if e[0] == "set"}
                    eh = [h for h in hooks if h[1][1] == "WebsocketEndHook"]
                    ok = (
                        sets.get("self.flow.websocket.close_code") == attr_of(EVT, "code")
                        and sets.get("self.flow.websocket.close_reason") == attr_of(EVT, "reason")
                        and sets.get("self.flow.websocket.closed_by_client") == C(from_client)
                        and len(eh) == 1 and not appends
                        and sets.get("self._handle_event") == sym("self.done")
                    )
                    ctx.check(ok, "R28.1", where, "close: code/reason/closed_by_client from the event, one end hook, done",
                              f"[{tag}] close handling records {[(k, show(v)) for k, v in sets.items()]} and fires {len(eh)} end hooks",
                              desc=f"[{tag}] close recorded from the event; end hook; done")
    if seen["finished"] and not seen["frame_end"]:
        ctx.fail("R28.1", where, "frame ends inside an unfinished message are not recorded",
                 "no path consults ws_event.frame_finished for an unfinished message: the original frame boundaries are lost, unmodified messages are re-framed")
    need = {"finished": 8, "sent": 4, "dropped": 4, "frame_end": 4, "ping": 4, "close": 4}
    if not ctx.findings:
        for k, n in need.items():
            ctx.require(seen[k] >= n, f"relay_messages: only {seen[k]} '{k}' paths analysed (expected >= {n}): the path model collapsed")
    done = ctx.func(WS, "WebsocketLayer.done")
    loud = [y for y in yields_in(done) if not (isinstance(y, ast.YieldFrom) and isinstance(y.value, ast.Tuple) and not y.value.elts)]
    ctx.check(not loud, "R28.1", (WS, "WebsocketLayer.done", done), "done yields nothing", "the finished WebSocket layer still emits commands", desc="done is silent")


# ---------------------------------------------------------------------------------------------------
# R28.2 / R28.3: finite evaluation of the Fragmentizer class


class FragHarness:
    def __init__(self, ctx):
        m = ctx.model
        self.cls = m.cls(WS, "Fragmentizer")
        self.init = ctx.func(WS, "Fragmentizer.__init__")
        self.call = ctx.func(WS, "Fragmentizer.__call__")
        self.methods = {f"self.{st.name}": st for st in self.cls.body if isinstance(st, ast.FunctionDef) and not st.name.startswith("__")}
        ctx.require([a.arg for a in self.init.args.args] == ["self", "fragments", "is_text"], "Fragmentizer.__init__ signature changed")
        ctx.require([a.arg for a in self.call.args.args] == ["self", "content"], "Fragmentizer.__call__ signature changed")
        self.consts = {}
        for st in self.cls.body:
            if isinstance(st, ast.Assign) and len(st.targets) == 1 and isinstance(st.targets[0], ast.Name) and isinstance(st.value, ast.Constant):
                self.consts[st.targets[0].id] = st.value.value
        ctx.require(isinstance(self.consts.get("FRAGMENT_SIZE"), int) and self.consts["FRAGMENT_SIZE"] > 0, "Fragmentizer.FRAGMENT_SIZE is no positive int literal")
        self.steps = 0

    def run(self, fragments, is_text, content, fragment_size):
        """-> list of (kind, data, finished)"""
        attrs = dict(self.consts)
        attrs["FRAGMENT_SIZE"] = fragment_size
        funcs = dict(self.methods)
        funcs.update({
            "wsproto.events.TextMessage": lambda data, message_finished=True, frame_finished=True: ("text", data, message_finished),
            "wsproto.events.BytesMessage": lambda data, message_finished=True, frame_finished=True: ("bytes", data, message_finished),
            "codecs.getincrementaldecoder": codecs.getincrementaldecoder,
            "codecs.iterdecode": lambda it, enc, errors="strict": list(codecs.iterdecode(it, enc, errors)),
            "codecs.decode": codecs.decode,
            "str": str,
        })
        ev = Concrete(lambda n: (_ for _ in ()).throw(KeyError(n)), attrs, funcs, max_steps=100000)
        ev.trusted_types = (codecs.IncrementalDecoder, type)
        try:
            ev.call(self.init, list(fragments), is_text)
            out = ev.call_gen(self.call, bytes(content))
        except Raised as r:
            self.steps += ev.steps
            return [("raise", r.name, True)]
        self.steps += ev.steps
        for o in out:
            if not (isinstance(o, tuple) and len(o) == 3 and o[0] in ("text", "bytes")):
                raise AnalysisError(f"Fragmentizer yields something that is not a Text/BytesMessage: {o!r}")
        return out


def fragment_lists(total_max, parts_max):
    """all lists of fragment lengths (zeros allowed) with <= parts_max parts and sum <= total_max"""
    out = [[]]
    frontier = [[]]
    for _ in range(parts_max):
        nxt = []
        for f in frontier:
            for k in range(0, total_max - sum(f) + 1):
                nxt.append(f + [k])
        out += nxt
        frontier = nxt
    return out


def check_r283(ctx, h):
    where = (WS, "Fragmentizer.__call__", h.call)
    thorough = ctx.tier == "thorough"
    total_max, parts_max = (6, 4) if thorough else (5, 3)
    bad = {}
    n = 0
    for lens in fragment_lists(total_max, parts_max):
        frags = []
        pos = 0
        for k in lens:
            frags.append(bytes(range(65 + pos, 65 + pos + k)))
            pos += k
        for clen in range(0, total_max + 4):
            content = bytes(range(97, 97 + clen))
            for fs in ((1, 2, 3, 4) if thorough else (1, 2, 3)):
                out = h.run(frags, False, content, fs)
                n += 1
                kinds = {o[0] for o in out}
                data = b"".join(o[1] for o in out if isinstance(o[1], (bytes, bytearray))) if kinds <= {"bytes"} else None
                fin = [o[2] for o in out]
                case = (lens, clen, fs, [(o[0], o[1], o[2]) for o in out])
                if kinds - {"bytes"}:
                    bad.setdefault("binary content is not re-fragmented into BytesMessages", case)
                elif data != content:
                    bad.setdefault("fragments do not concatenate to the content (bytes lost, duplicated or reordered)", case)
                elif not out:
                    bad.setdefault("no fragment at all is produced (the message is never finished)", case)
                elif fin != [False] * (len(out) - 1) + [True]:
                    bad.setdefault("message_finished is not set on exactly the last fragment", case)
                elif lens and clen == sum(lens) and [len(o[1]) for o in out] != lens:
                    bad.setdefault("unchanged length but the original frame boundaries are not kept", case)
    ctx.cells += n
    for why, (lens, clen, fs, out) in bad.items():
        ctx.fail("R28.3", where, why, f"original fragment lengths {lens}, content of {clen} bytes, FRAGMENT_SIZE={fs}: produced {out}")
    if not bad:
        ctx.ok("R28.3", f"Fragmentizer (binary): {n} (fragment pattern, content length, FRAGMENT_SIZE) cases: exact cover, last-only finished, boundaries kept")
    return n


def check_r282(ctx, h):
    where = (WS, "Fragmentizer", h.cls)
    texts = ["aäb€c\U0001f600d", "€€€", "\U0001f600\U0001f600", "xä", "äöüß"]
    bad = {}
    n = 0
    for text in texts:
        content = text.encode("utf-8")
        patterns = [[b"zz"], []]  # changed length -> FRAGMENT_SIZE chunks (also the injected-message path: no fragments)
        # same byte length but other boundaries -> original sizes reused
        for cut in range(0, len(content) + 1):
            patterns.append([b"q" * cut, b"q" * (len(content) - cut)])
        for frags in patterns:
            for fs in range(1, 7):
                out = h.run(frags, True, content, fs)
                n += 1
                case = ([len(f) for f in frags], text, fs, out)
                if any(o[0] != "text" or not isinstance(o[1], str) for o in out):
                    bad.setdefault("text content is not re-fragmented into TextMessages carrying str", case)
                    continue
                joined = "".join(o[1] for o in out)
                fin = [o[2] for o in out]
                if joined != text:
                    bad.setdefault("text is garbled by re-fragmentation (multi-byte character cut at a byte offset)", case)
                elif fin != [False] * (len(out) - 1) + [True]:
                    bad.setdefault("message_finished is not set on exactly the last text fragment", case)
    ctx.cells += n
    for why, (lens, text, fs, out) in bad.items():
        ctx.fail("R28.2", where, why,
                 f"text {text!r} ({len(text.encode())} bytes), original fragment lengths {lens}, FRAGMENT_SIZE={fs}: peer receives "
                 f"{''.join(o[1] for o in out if isinstance(o[1], str))!r} in pieces {[o[1] for o in out]}")
    if not bad:
        ctx.ok("R28.2", f"Fragmentizer (text): {n} cases with 2/3/4-byte characters across every cut: text arrives intact")


# ---------------------------------------------------------------------------------------------------
# R28.4: extension negotiation reaches both wsproto connections


class _Unmodelled(Exception):
    pass


class _Opaque:
    """result of a call the evaluation does not model; any attempt to *decide* something with it is fail-closed"""

    def __init__(self, name):
        self.name = name

    def _no(self, *a, **k):
        raise _Unmodelled(f"a decision depends on the unmodelled value {self.name}")

    __bool__ = __eq__ = __ne__ = __iter__ = __len__ = __getitem__ = __contains__ = _no
    __hash__ = object.__hash__

    def __repr__(self):
        return f"<opaque {self.name}>"


class _PMD:
    """wsproto.extensions.PerMessageDeflate, reduced to its contract: finalize(offer) reads the parameters from the
    ';'-separated items after the first one (the extension name) of the complete extension entry."""

    def __init__(self, *a, **k):
        self.finalized = []

    def finalize(self, offer):
        if not isinstance(offer, str):
            raise _Unmodelled(f"PerMessageDeflate.finalize is called with {offer!r}")
        self.finalized.append([b.strip() for b in offer.split(";")][1:])


class _Headers:
    def __init__(self, fields):
        self.fields = {k.lower(): v for k, v in fields.items()}

    def get(self, key, default=None):
        return self.fields.get(key.lower(), default)

    def get_all(self, key):
        return [self.fields[key.lower()]] if key.lower() in self.fields else []

    def __getitem__(self, key):
        return self.fields[key.lower()]

    def __contains__(self, key):
        return key.lower() in self.fields


class _StartEval(Concrete):
    SAFE_METHODS = Concrete.SAFE_METHODS | {"strip", "lstrip", "rstrip", "partition", "rpartition", "replace", "removeprefix", "removesuffix", "find", "casefold", "title"}

    def expr(self, e, env):
        if isinstance(e, ast.JoinedStr):  # real f-string semantics: the text may flow into finalize()
            parts = []
            for v in e.values:
                if isinstance(v, ast.Constant):
                    parts.append(str(v.value))
                    continue
                x = self.expr(v.value, env)
                if isinstance(x, _Opaque) or v.format_spec is not None:
                    return _Opaque(norm(e))
                parts.append(repr(x) if v.conversion == ord("r") else str(x))
            return "".join(parts)
        try:
            return Concrete.expr(self, e, env)
        except AnalysisError as x:
            if isinstance(e, ast.Call) and "outside the supported subset" in str(x):
                return _Opaque(norm(e.func))
            raise


PMD_NAME = "permessage-deflate"
EXT_HEADERS = [
    None,
    "permessage-deflate",
    "permessage-deflate; server_no_context_takeover",
    "permessage-deflate; client_no_context_takeover",
    "permessage-deflate; server_max_window_bits=10",
    "permessage-deflate; client_max_window_bits=9; server_no_context_takeover",
    "permessage-deflate;client_no_context_takeover;server_no_context_takeover;server_max_window_bits=12",
    "permessage-deflate ; server_max_window_bits=11 ; client_no_context_takeover",
    "x-webkit-deflate-frame, permessage-deflate; server_no_context_takeover",
    "permessage-deflate; client_no_context_takeover, x-unknown; q=1",
    "x-unknown",
]


def negotiated(header):
    """parameter lists of the permessage-deflate entries of a Sec-WebSocket-Extensions value (RFC 6455 s.9.1 / RFC 7692 grammar)"""
    out = []
    for entry in (header or "").split(","):
        items = [b.strip() for b in entry.split(";")]
        if items[0] == PMD_NAME:
            out.append(items[1:])
    return out


def check_r284(ctx):
    fn = ctx.func(WS, "WebsocketLayer.start")
    where = (WS, "WebsocketLayer.start", fn)
    params = [a.arg for a in fn.args.args]
    ctx.require(len(params) == 2 and params[0] == "self", f"WebsocketLayer.start signature changed: {params}")
    bad = {}
    n = 0
    for header in EXT_HEADERS:
        want = negotiated(header)
        conns = []
        pmds = []

        def make_pmd(*a, **k):
            p = _PMD()
            pmds.append(p)
            return p

        def make_conn(connection_type=None, extensions=None, trailing_data=b"", *, conn=None):
            conns.append({"role": connection_type, "extensions": extensions, "conn": conn})
            return ("ws", len(conns) - 1)

        known = {
            "self.flow.response": "response",
            "self.flow.response.headers": _Headers({} if header is None else {"Sec-WebSocket-Extensions": header}),
            "wsproto.extensions.PerMessageDeflate.name": PMD_NAME,
            "PerMessageDeflate.name": PMD_NAME,
            "self.context.client": "context.client",
            "self.context.server": "context.server",
        }
        for pre in ("wsproto.ConnectionType.", "ConnectionType.", "wsproto.connection.ConnectionType."):
            known[pre + "SERVER"] = "SERVER"
            known[pre + "CLIENT"] = "CLIENT"

        def resolve(name):
            if name in known:
                return known[name]
            return _Opaque(name)

        funcs = {
            "wsproto.utilities.split_comma_header": lambda value: [piece.decode("ascii").strip() for piece in value.split(b",")],
            "split_comma_header": lambda value: [piece.decode("ascii").strip() for piece in value.split(b",")],
            "wsproto.extensions.PerMessageDeflate": make_pmd,
            "PerMessageDeflate": make_pmd,
            "WebsocketConnection": make_conn,
            "commands.Log": lambda *a, **k: ("log",),
            "WebsocketStartHook": lambda *a, **k: ("hook",),
            "str": str,
        }
        attrs = {"flow": "flow"}
        ev = _StartEval(resolve, attrs, funcs, max_steps=20000)
        ev.trusted_types = (_PMD, _Headers)
        try:
            ev.call_gen(fn, "start-event")
        except Raised as r:
            raise AnalysisError(f"WebsocketLayer.start raises {r.name} for the response header Sec-WebSocket-Extensions: {header!r} (not modelled)")
        except (_Unmodelled, TypeError, AttributeError, ValueError, KeyError) as x:
            raise AnalysisError(f"WebsocketLayer.start: shape not modelled by the R28.4 evaluation ({type(x).__name__}: {x})")
        n += 1
        sides = {}
        for name, role, conn in (("client_ws", "SERVER", "context.client"), ("server_ws", "CLIENT", "context.server")):
            w = attrs.get(name)
            if not (isinstance(w, tuple) and len(w) == 2 and w[0] == "ws"):
                raise AnalysisError(f"WebsocketLayer.start does not bind self.{name} to a WebsocketConnection (got {w!r})")
            c = conns[w[1]]
            if isinstance(c["role"], _Opaque) or isinstance(c["conn"], _Opaque) or isinstance(c["extensions"], _Opaque):
                raise AnalysisError(f"WebsocketLayer.start: arguments of self.{name} = WebsocketConnection(...) not modelled: {c}")
            if c["role"] != role or c["conn"] != conn:
                bad.setdefault(f"self.{name} must be the wsproto {role} endpoint on {conn}", (header, f"it is created as {c['role']} endpoint on {c['conn']}"))
            exts = list(c["extensions"] or [])
            if any(not isinstance(x, _PMD) for x in exts):
                raise AnalysisError(f"WebsocketLayer.start: self.{name} gets extensions that are no PerMessageDeflate objects: {exts!r}")
            sides[name] = exts
            got = [x.finalized for x in exts]
            if len(exts) != len(want):
                bad.setdefault("one PerMessageDeflate per negotiated permessage-deflate entry on each connection, none otherwise",
                               (header, f"self.{name} gets {len(exts)} deflate extension(s), the header negotiates {len(want)}"))
            elif any(len(f) != 1 for f in got):
                bad.setdefault("every PerMessageDeflate handed to a connection is finalised exactly once (an unfinalised extension stays disabled)",
                               (header, f"self.{name}: finalize() was called {[len(f) for f in got]} times on its extension(s)"))
            elif [f[0] for f in got] != want:
                bad.setdefault("negotiated permessage-deflate parameters reach both wsproto connections",
                               (header, f"self.{name} deflates with parameters {[f[0] for f in got]}, negotiated were {want} "
                                        "(PerMessageDeflate.finalize(offer) skips the first ';'-item: it must get the complete extension entry)"))
        if any(a is b for a in sides["client_ws"] for b in sides["server_ws"]):
            bad.setdefault("the two connections use separate PerMessageDeflate objects (separate compression contexts)",
                           (header, "the same extension object is handed to self.client_ws and self.server_ws"))
    ctx.cells += n
    for why, (header, what) in bad.items():
        ctx.fail("R28.4", where, why, f"response header Sec-WebSocket-Extensions: {header!r}: {what}")
    if not bad:
        ctx.ok("R28.4", f"WebsocketLayer.start: {n} Sec-WebSocket-Extensions headers: both wsproto connections get their own PerMessageDeflate finalised with exactly the negotiated parameters; roles client_ws=SERVER/context.client, server_ws=CLIENT/context.server")


def check(ctx):
    ctx.rule("R28.1", "relay_messages: record once, hook once, forward fragmentizer(message.content) once to the other peer unless dropped; ping/pong; close bookkeeping")
    ctx.rule("R28.2", "Fragmentizer never garbles multi-byte text (finite evaluation over every cut position and chunk size)")
    ctx.rule("R28.3", "Fragmentizer covers the content exactly once, finishes only the last fragment, keeps boundaries for unchanged length")
    ctx.rule("R28.4", "permessage-deflate negotiation: both wsproto connections get their own extension finalised with exactly the negotiated parameters; connection roles")
    ctx.trust("wsproto events / framing; codecs incremental decoder (stdlib)")
    ctx.trust("wsproto contract: split_comma_header(b) = stripped ','-pieces; PerMessageDeflate.finalize(offer) takes the complete extension entry and reads the parameters from its ';'-items after the first")
    check_r281(ctx)
    h = FragHarness(ctx)
    check_r282(ctx, h)
    check_r283(ctx, h)
    check_r284(ctx)
    ctx.note(f"Fragmentizer AST interpreted for {h.steps} steps")
    for rule, n in (("R28.1", 40), ("R28.2", 1), ("R28.3", 1), ("R28.4", 1)):
        if not any(f.rule == rule for f in ctx.findings):
            ctx.expect_instances(rule, n)


MUTANTS = [
    # R28.2 (first = reverse of the F-C28 repair)
    Mutant("text-fragments-decoded-independently", WS, "            data_str = self.decoder.decode(data, message_finished)\n", "            data_str = data.decode(errors=\"replace\")\n", "R28.2"),
    Mutant("incremental-decoder-never-flushed-or-reset-per-fragment", WS, "            data_str = self.decoder.decode(data, message_finished)\n",
           "            data_str = codecs.getincrementaldecoder(\"utf-8\")(errors=\"replace\").decode(data, message_finished)\n", "R28.2"),
    Mutant("text-sent-as-bytes", WS, "        if self.is_text:\n            data_str", "        if not self.is_text:\n            data_str", "R28.2"),
    # R28.3
    Mutant("rechunk-skips-a-byte", WS, "                offset += self.FRAGMENT_SIZE\n            yield self.msg(content[offset:], True)", "                offset += self.FRAGMENT_SIZE + 1\n            yield self.msg(content[offset:], True)", "R28.3"),
    Mutant("rechunk-overlap", WS, "                yield self.msg(content[offset : offset + self.FRAGMENT_SIZE], False)\n                offset += self.FRAGMENT_SIZE\n",
           "                yield self.msg(content[offset : offset + self.FRAGMENT_SIZE + 1], False)\n                offset += self.FRAGMENT_SIZE\n", "R28.3"),
    Mutant("same-length-last-fragment-not-final", WS, "                offset += fl\n            yield self.msg(content[offset:], True)", "                offset += fl\n            yield self.msg(content[offset:], False)", "R28.3"),
    Mutant("same-length-offset-not-advanced", WS, "                yield self.msg(content[offset : offset + fl], False)\n                offset += fl\n", "                yield self.msg(content[offset : offset + fl], False)\n", "R28.3"),
    Mutant("boundaries-not-kept", WS, "        if len(content) == sum(self.fragment_lengths):", "        if len(content) == sum(self.fragment_lengths) and False:", "R28.3"),
    Mutant("every-chunk-finished", WS, "                yield self.msg(content[offset : offset + self.FRAGMENT_SIZE], False)\n", "                yield self.msg(content[offset : offset + self.FRAGMENT_SIZE], True)\n", "R28.3"),
    # R28.1
    Mutant("forward-even-if-dropped", WS, "                    if not message.dropped:\n                        for msg in fragmentizer(message.content):\n                            yield dst_ws.send2(msg)\n",
           "                    for msg in fragmentizer(message.content):\n                        yield dst_ws.send2(msg)\n", "R28.1"),
    Mutant("forward-original-not-edited-content", WS, "for msg in fragmentizer(message.content):", "for msg in fragmentizer(content):", "R28.1"),
    Mutant("forward-before-hook", WS, "                    self.flow.websocket.messages.append(message)\n                    yield WebsocketMessageHook(self.flow)\n\n                    if not message.dropped:\n                        for msg in fragmentizer(message.content):\n                            yield dst_ws.send2(msg)\n",
           "                    self.flow.websocket.messages.append(message)\n                    if not message.dropped:\n                        for msg in fragmentizer(message.content):\n                            yield dst_ws.send2(msg)\n                    yield WebsocketMessageHook(self.flow)\n", "R28.1"),
    Mutant("echo-to-sender", WS, "                            yield dst_ws.send2(msg)\n", "                            yield src_ws.send2(msg)\n", "R28.1"),
    Mutant("frame-buffer-not-reset", WS, "                    src_ws.frame_buf = [b\"\"]\n", "", "R28.1"),
    Mutant("fragmentizer-after-reset", WS, "                    fragmentizer = Fragmentizer(src_ws.frame_buf, is_text)\n                    src_ws.frame_buf = [b\"\"]\n",
           "                    src_ws.frame_buf = [b\"\"]\n                    fragmentizer = Fragmentizer(src_ws.frame_buf, is_text)\n", "R28.1"),
    Mutant("message-not-recorded", WS, "                    self.flow.websocket.messages.append(message)\n", "", "R28.1"),
    Mutant("text-recorded-as-binary", WS, "                    typ = Opcode.TEXT\n", "                    typ = Opcode.BINARY\n", "R28.1"),
    Mutant("direction-flag-constant", WS, "                        typ, from_client, content, injected=injected\n", "                        typ, True, content, injected=injected\n", "R28.1"),
    Mutant("frame-end-not-buffered", WS, "                elif ws_event.frame_finished:\n                    src_ws.frame_buf.append(b\"\")\n", "", "R28.1"),
    Mutant("pong-not-relayed", WS, "                yield dst_ws.send2(ws_event)\n            elif isinstance(ws_event, wsproto.events.CloseConnection):", "            elif isinstance(ws_event, wsproto.events.CloseConnection):", "R28.1"),
    Mutant("close-code-constant", WS, "                self.flow.websocket.close_code = ws_event.code\n", "                self.flow.websocket.close_code = 1000\n", "R28.1"),
    Mutant("closed-by-client-inverted", WS, "                self.flow.websocket.closed_by_client = from_client\n", "                self.flow.websocket.closed_by_client = not from_client\n", "R28.1"),
    Mutant("close-keeps-relaying", WS, "                self.flow.live = False\n                self._handle_event = self.done\n", "                self.flow.live = False\n", "R28.1"),
    # R28.4 (first = the essence of seed C28b: only the text after the first ';' reaches finalize(), which skips one more item)
    Mutant("deflate-finalized-with-params-only", WS, "                ext_name = ext.split(\";\", 1)[0].strip()\n", "                ext_name, _, ext = ext.partition(\";\")\n                ext_name = ext_name.strip()\n", "R28.4"),
    Mutant("deflate-finalized-with-name-only", WS, "                    server_deflate.finalize(ext)\n", "                    server_deflate.finalize(ext_name)\n", "R28.4"),
    Mutant("server-side-deflate-never-finalized", WS, "                    server_deflate.finalize(ext)\n", "", "R28.4"),
    Mutant("one-deflate-object-shared-by-both-connections", WS, "                    server_extensions.append(server_deflate)\n", "                    server_extensions.append(client_deflate)\n", "R28.4"),
    Mutant("extension-name-not-stripped", WS, "                ext_name = ext.split(\";\", 1)[0].strip()\n", "                ext_name = ext.split(\";\", 1)[0]\n", "R28.4"),
    Mutant("deflate-only-towards-the-client", WS, "wsproto.ConnectionType.CLIENT, server_extensions, conn=self.context.server", "wsproto.ConnectionType.CLIENT, [], conn=self.context.server", "R28.4"),
    Mutant("connection-roles-swapped", WS, "wsproto.ConnectionType.SERVER, client_extensions, conn=self.context.client", "wsproto.ConnectionType.CLIENT, client_extensions, conn=self.context.client", "R28.4"),
]
