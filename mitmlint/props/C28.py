"""C28 - WebSocket messages are relayed exactly once with their exact content.

All four rules are decided by *interpreting* the repository code (mitmlint.pyint on the AST; nothing is imported or run) against a stub of the
trusted wsproto library, and comparing what the two peers, the flow and the addons observe - never the shape of the code.

Decided:
  R28.1  `WebsocketLayer.relay_messages` (with everything it reaches: WebsocketConnection helpers, Fragmentizer, websocket.WebSocketMessage,
         commands.*, extracted (generator) helpers) is interpreted between two stub wsproto connections, a recording proxy core and an addon
         that keeps / edits (same length, longer than FRAGMENT_SIZE, shorter, empty) / drops the message at the hook, for both directions, on
         scripted wsproto event sequences (single-frame text, fragmented binary with partial and empty frames, a message split over several
         reads with an interleaved ping, ping / pong, close frame, lost connection, injected text / binary).  Per finished message: exactly one
         new entry in flow.websocket.messages when exactly one WebsocketMessageHook fires; the entry has type TEXT iff text, the direction,
         the joined payload, dropped=False; after the hook and only unless dropped the OTHER peer's connection sends one fragment sequence
         of the right event type whose concatenation is the post-hook content, only the last fragment finished, and with the original frame
         boundaries when the addon did not touch the message (=> frame ends are tracked and the buffer is reset per message); nothing is
         sent before the hook or to the sender; every wsproto send() result reaches the connection; an unfinished message only buffers;
         Ping/Pong are forwarded once to the other peer; on CloseConnection (frame or lost connection) close_code / close_reason /
         closed_by_client seen by the one WebsocketEndHook are the event's and the direction, and the handler installed afterwards is silent.
  R28.2  finite evaluation of the `Fragmentizer` class on TEXT content (1-4 byte UTF-8 characters, every FRAGMENT_SIZE 1..6, same-length
         and changed-length re-fragmentation): the concatenated text of the produced TextMessages equals the content and no U+FFFD is
         introduced.  Any sound idiom passes (incremental decoder, slicing the decoded str, boundary scan); decoding byte-offset slices
         independently fails.   (F-C28, repaired)
  R28.3  finite evaluation of `Fragmentizer.__call__` on BINARY content for all fragment-length lists (incl. empty frames) up to total 6 x
         all content lengths 0..9 x FRAGMENT_SIZE 1..4: pieces concatenate to the content (every byte exactly once, in order), at least one
         piece, exactly the last piece has message_finished=True, unchanged length => the original fragment lengths are kept.
  R28.4  ("with or without permessage-deflate") evaluation of `WebsocketLayer.start` (on stubs that implement the documented contract of the
         trusted wsproto library) over a set of `Sec-WebSocket-Extensions` response headers (absent; permessage-deflate without / with one /
         with several parameters, any spacing around ';'; unknown extensions before / after it): each of mitmproxy's two wsproto connections
         is created with exactly one *own* PerMessageDeflate object per negotiated permessage-deflate entry, finalised exactly once with
         EXACTLY the negotiated parameter list (so its compression context / window equals the peers'), none otherwise; `client_ws` is the
         SERVER-role connection on `context.client`, `server_ws` the CLIENT-role one on `context.server`.  A parameter that is lost,
         invented, or an extension object shared by both connections makes a later compressed message undecodable for the receiving peer
         (close 1007): the recorded message is never delivered.  The comparison is on the *parameters that arrive in the library*, not on
         how the header is cut up: any spelling that hands the library the full entry passes.
NOT decided: wsproto framing / the deflate codec itself (library), real sockets.  Generators that are *iterated* (Fragmentizer) are run
eagerly (their laziness is not modelled); code outside the interpreter's subset gives ANALYSIS-ERROR, never a guess.
"""

from __future__ import annotations

import ast
import codecs
import enum
import re
import types

from ..core import AnalysisError
from ..pyint import ClassRef as PClassRef
from ..pyint import DictRec as PDictRec
from ..pyint import Func as PFunc
from ..pyint import Gen as PGen
from ..pyint import Interp as PInterp
from ..pyint import Raised as PRaised
from ..pyint import Rec as PRec
from ..selftest import Mutant

PROP = "C28"
REG = {
    "strength": "partial",
    "technique": "interpretation (pyint) of WebsocketLayer.relay_messages and its helpers between stub wsproto connections with a recording proxy core "
    "and an editing / dropping addon (scripted event sequences x both directions x addon policies) + finite evaluation of the Fragmentizer class "
    "(all small fragment patterns, chunk sizes, multi-byte UTF-8 contents) + evaluation of WebsocketLayer.start over extension headers",
    "claim": "each finished message is recorded once, hooked once, and (unless dropped) forwarded once to the other peer as the re-fragmented "
    "post-hook content with the right type; re-fragmentation covers the content exactly once, keeps original boundaries for unchanged "
    "length, finishes only the last fragment and never garbles multi-byte text; ping/pong relayed; close code/reason recorded from the event.",
    "note": "wsproto and codecs (stdlib incremental decoder) are trusted libraries, modelled by stubs of their documented contract; the relay is decided on "
    "a finite set of scripted scenarios (not on all paths); iterated generators are evaluated eagerly. R28.4 relies on "
    "the library contract: split_comma_header splits at ',' and strips; PerMessageDeflate.finalize(offer) reads the parameters from the "
    "';'-separated items AFTER the first one of the complete extension entry.",
}

WS = "mitmproxy/proxy/layers/websocket.py"


# ---------------------------------------------------------------------------------------------------
# R28.1: the relay decided by interpretation (mitmlint.pyint) of `WebsocketLayer.relay_messages` and everything it calls
# (WebsocketConnection.send2 / helpers, Fragmentizer, websocket.WebSocketMessage, commands.*) against a stub of the trusted
# wsproto library and a recording proxy core + addon.  The rule compares *what the peers and the flow observe*, never the
# shape of the code: renamed locals, inverted / early-continue branches, extracted (generator) helpers, match statements,
# logging, assertions and annotations are interpreted like the original.


class _Opcode(enum.IntEnum):
    CONTINUATION = 0x0
    TEXT = 0x1
    BINARY = 0x2
    CLOSE = 0x8
    PING = 0x9
    PONG = 0xA


class _ConnectionState(enum.Enum):
    CONNECTING = 0
    OPEN = 1
    REMOTE_CLOSING = 2
    LOCAL_CLOSING = 3
    CLOSED = 4
    REJECTING = 5


class _ConnectionType(enum.Enum):
    CLIENT = 1
    SERVER = 2


class _WsEvent:
    def __repr__(self):
        return f"{type(self).__name__}({', '.join(f'{k}={v!r}' for k, v in self.__dict__.items())})"


class _Message(_WsEvent):
    def __init__(self, data, frame_finished=True, message_finished=True):
        self.data, self.frame_finished, self.message_finished = data, frame_finished, message_finished


class _TextMessage(_Message):
    pass


class _BytesMessage(_Message):
    pass


class _Ping(_WsEvent):
    def __init__(self, payload=b""):
        self.payload = payload

    def response(self):
        return _Pong(self.payload)


class _Pong(_WsEvent):
    def __init__(self, payload=b""):
        self.payload = payload


class _CloseConnection(_WsEvent):
    def __init__(self, code, reason=None):
        self.code, self.reason = code, reason

    def response(self):
        return _CloseConnection(self.code, self.reason)


class _Logger:
    """stdlib logging reduced to 'has no effect on the relay'; enabled, so that guarded logging statements are interpreted too"""

    def isEnabledFor(self, level):
        return True

    def _noop(self, *a, **k):
        return None

    debug = info = warning = error = exception = critical = log = _noop


_EVENTS_NS = types.SimpleNamespace(Event=_WsEvent, Message=_Message, TextMessage=_TextMessage, BytesMessage=_BytesMessage, Ping=_Ping, Pong=_Pong, CloseConnection=_CloseConnection)
_WSPROTO = types.SimpleNamespace(
    events=_EVENTS_NS,
    frame_protocol=types.SimpleNamespace(Opcode=_Opcode),
    connection=types.SimpleNamespace(ConnectionState=_ConnectionState, ConnectionType=_ConnectionType),
    ConnectionState=_ConnectionState,
    ConnectionType=_ConnectionType,
)
_TRUSTED = {
    "wsproto": _WSPROTO,
    "codecs": codecs,
    "time": types.SimpleNamespace(time=lambda: 1.0, monotonic=lambda: 1.0, perf_counter=lambda: 1.0),
    "logging": types.SimpleNamespace(getLogger=lambda *a: _Logger(), DEBUG=10, INFO=20, WARNING=30, ERROR=40, CRITICAL=50),
}

WSM = "mitmproxy/websocket.py"
PEV = "mitmproxy/proxy/events.py"


def _classlike(v):
    return isinstance(v, (PClassRef, type)) or (isinstance(v, tuple) and bool(v) and all(_classlike(x) for x in v))


class _Eager(PInterp):
    """pyint with *run-once* generators: a generator body is executed exactly once and every value it yields is handed to the
    consumer of the frame it runs in - the driver's sink for the entry generator and for everything reached through
    ``yield from`` (exact delegation semantics: the sink, i.e. the proxy core and the addons, acts *at* the yield, before the
    code after it runs), a list for a generator that is iterated (``for x in gen()`` / ``list.extend(gen())``).  The latter
    gives up the laziness of the iterated generator (the repository's Fragmentizer is pure with respect to the relay's state),
    in exchange nothing is ever replayed, so stateful trusted objects (incremental decoder, the wsproto stub) stay exact."""

    def __init__(self, *a, **k):
        PInterp.__init__(self, *a, **k)
        self._emit = []

    def drain(self, g, emit):
        if getattr(g, "_c28_started", False):
            raise AnalysisError("relay evaluation: a generator object is consumed twice (not modelled)")
        g._c28_started = True
        self._emit.append(emit)
        try:
            return PInterp.run_gen_until(self, g, -1)[1]  # k = -1: no yield is ever the "target", the body runs to its end
        finally:
            self._emit.pop()

    def run_gen_until(self, g, k):
        if not hasattr(g, "_c28_items"):
            items = []
            g._c28_ret = self.drain(g, items.append)
            g._c28_items = items
        return ("yield", g._c28_items[k]) if k < len(g._c28_items) else ("stop", g._c28_ret)

    def do_yield(self, value):
        if not self._emit:
            raise AnalysisError("relay evaluation: yield outside a driven generator")
        self._emit[-1](value)
        return None

    def ev(self, e, env, mod, depth):
        if isinstance(e, ast.YieldFrom):
            sub = self.ev(e.value, env, mod, depth)
            if isinstance(sub, PGen):
                return self.drain(sub, self._emit[-1] if self._emit else None)
            for x in self.iterate(sub, e.value):
                self.do_yield(x)
            return None
        return PInterp.ev(self, e, env, mod, depth)

    def binop(self, op, left, right, node):
        if isinstance(op, ast.BitOr) and _classlike(left) and _classlike(right):  # isinstance(x, A | B)
            return (left if isinstance(left, tuple) else (left,)) + (right if isinstance(right, tuple) else (right,))
        return PInterp.binop(self, op, left, right, node)


def _T(s, ff=True, mf=True):
    return _TextMessage(s, frame_finished=ff, message_finished=mf)


def _B(b, ff=True, mf=True):
    return _BytesMessage(b, frame_finished=ff, message_finished=mf)


def _payload(ev) -> bytes:
    return ev.data.encode("utf-8") if isinstance(ev.data, str) else bytes(ev.data)


# addon behaviours at the websocket_message hook: content -> (dropped, new content | None)
POLICIES = {
    "keep": lambda c: (False, None),
    "same-length edit": lambda c: (False, c.swapcase()),
    "longer": lambda c: (False, c + b"+" * 9001),
    "shorter": lambda c: (False, c[:1]),
    "empty": lambda c: (False, b""),
    "drop": lambda c: (True, None),
    "edit and drop": lambda c: (True, c + b"!"),
}

CATS = {
    "record": "finished message: one messages.append, then one WebsocketMessageHook",
    "message": "recorded message = WebSocketMessage(TEXT iff text, from_client, join(frame_buf))",
    "forward": "kept message forwarded once as fragmentizer(message.content) to the other peer after the hook",
    "dropped": "dropped message is not forwarded",
    "boundaries": "unmodified message keeps its original frame boundaries (frame buffer tracks frame ends and is reset per message)",
    "unfinished": "unfinished message: only buffering",
    "ping": "ping/pong relayed once to the other peer",
    "close": "close: code/reason/closed_by_client from the event, one end hook, done",
    "done": "done yields nothing",
    "raises": "relay_messages handles every wsproto event without raising",
}


class _Mismatch(Exception):
    def __init__(self, cat, why):
        self.cat, self.why = cat, why


class _RelayWorld:
    """one WebSocket flow: the layer under interpretation between two stub wsproto connections, a recording proxy core and an addon"""

    def __init__(self, ctx, policies):
        m = ctx.model
        self.it = it = _Eager(m, trusted_modules=_TRUSTED, max_steps=2_000_000)
        self.policies = list(policies)
        self.log = []  # what the proxy core gets from the layer, in order
        self.hooked = 0  # messages seen by hooks so far
        self.finals = []  # per hooked message: (dropped, content) after the addon ran
        self.wire = {}  # wire token -> (peer name, wsproto event that was serialised)
        self.inbox = {}  # wire token -> wsproto events the stub parses from it
        self.drained = []
        self.peers = {"client": PRec("Client", _bases=("Connection",), _name="client"), "server": PRec("Server", _bases=("Connection",), _name="server")}
        self.messages = []
        self.wsdata = PRec("WebSocketData", _name="flow.websocket", messages=self.messages, closed_by_client=None, close_code=None, close_reason=None, timestamp_end=None)
        self.flow = PRec("HTTPFlow", _bases=("Flow",), _name="flow", websocket=self.wsdata, live=True, response=PRec("Response"), request=PRec("Request"))
        self.ws = {"client": self._conn("client", _ConnectionType.SERVER), "server": self._conn("server", _ConnectionType.CLIENT)}
        self.me = PRec("WebsocketLayer", _bases=("Layer",), _impl=(WS, "WebsocketLayer"), _name="layer", flow=self.flow, debug=None,
                       context=PRec("Context", client=self.peers["client"], server=self.peers["server"], options=PRec("Options")),
                       client_ws=self.ws["client"], server_ws=self.ws["server"])
        self.relay = it.getattr(self.me, "relay_messages", None, 0)
        object.__setattr__(self.me, "_handle_event", self.relay)

    # ---- the trusted wsproto.Connection, reduced to: bytes in -> queued events out; event in -> opaque wire bytes out
    def _conn(self, side, role):
        rec = PRec("WebsocketConnection", _bases=("Connection",), _impl=(WS, "WebsocketConnection"), _name=f"{side}_ws", state=_ConnectionState.OPEN, _events=[],
                   _super_stubs={"__init__": lambda *a, **k: None})

        def receive_data(data):
            if data is None:
                rec._events.append(_CloseConnection(1006, ""))
            else:
                rec._events.extend(self.inbox.pop(bytes(data)))

        def events():
            out = list(rec._events)
            del rec._events[:]
            self.drained.extend(out)
            return out

        def send(event):
            tok = b"\x00W%d\x01" % len(self.wire)
            self.wire[tok] = (side, event)
            return tok

        for k, f in (("receive_data", receive_data), ("events", events), ("send", send)):
            object.__setattr__(rec, k, f)
        try:
            self.it.method(rec, "__init__", role, [], conn=self.peers[side])
        except PRaised as r:
            raise AnalysisError(f"WebsocketConnection.__init__ raises {r.name} on (type, extensions, conn=...) (not modelled)")
        return rec

    # ---- the proxy core + addon
    def sink(self, cmd):
        if not isinstance(cmd, PRec):
            raise AnalysisError(f"relay_messages yields {cmd!r}, which is no proxy command (not modelled)")
        if cmd.isa("Log"):
            return
        if cmd.isa("SendData"):
            conn, data = cmd.__dict__.get("connection"), cmd.__dict__.get("data")
            to = next((k for k, v in self.peers.items() if v is conn), None)
            toks = re.findall(rb"\x00W\d+\x01", data) if isinstance(data, (bytes, bytearray)) else []
            if to is None or not isinstance(data, (bytes, bytearray)) or b"".join(toks) != bytes(data) or any(t not in self.wire for t in toks):
                raise AnalysisError(f"relay_messages sends {data!r} to {conn!r}: not the output of a wsproto connection's send() (not modelled)")
            for t in toks:
                side, event = self.wire.pop(t)
                self.log.append(("send", to, side, event))
        elif cmd.isa("WebsocketMessageHook"):
            if not any(v is self.flow for v in cmd.__dict__.values()):
                raise AnalysisError("WebsocketMessageHook is not given the layer's flow (not modelled)")
            new = self.messages[self.hooked:]
            self.hooked = len(self.messages)
            snaps = [dict(m.__dict__) if isinstance(m, PRec) else {"?": m} for m in new]
            self.log.append(("hook", snaps))
            if len(new) == 1 and isinstance(new[0], PRec) and isinstance(new[0].__dict__.get("content"), bytes):
                pol = self.policies.pop(0) if self.policies else "keep"
                dropped, content = POLICIES[pol](new[0].content)
                if content is not None:
                    new[0].content = content
                if dropped:
                    new[0].dropped = True
                self.finals.append((pol, bool(new[0].__dict__.get("dropped")), new[0].content))
        elif cmd.isa("WebsocketEndHook"):
            self.log.append(("endhook", {k: self.wsdata.__dict__.get(k) for k in ("close_code", "close_reason", "closed_by_client")}))
        elif cmd.isa("CloseConnection"):
            self.log.append(("closeconn", cmd.__dict__.get("connection")))
        else:
            raise AnalysisError(f"relay_messages yields a {cmd._cls} command (not modelled by R28.1)")

    def feed(self, handler, event):
        """one proxy event through ``handler``; -> (log items of this step, name of the exception it raised | None)"""
        start = len(self.log)
        raised = None
        try:
            out = self.it.apply(handler, [event], {}, 0)
            if isinstance(out, PGen):
                self.it.drain(out, self.sink)
            elif out is not None:
                for c in self.it.iterate(out, None):
                    self.sink(c)
        except PRaised as r:
            raised = r.name
        return self.log[start:], raised

    def data_event(self, side, ws_events):
        tok = b"<bytes %d>" % len(self.inbox)
        self.inbox[tok] = list(ws_events)
        return PRec("DataReceived", _impl=(PEV, "DataReceived"), _name="DataReceived", connection=self.peers[side], data=tok)

    def closed_event(self, side):
        return PRec("ConnectionClosed", _impl=(PEV, "ConnectionClosed"), _name="ConnectionClosed", connection=self.peers[side])

    def inject_event(self, side, is_text, content):
        msg = PRec("WebSocketMessage", _impl=(WSM, "WebSocketMessage"), _name="injected message", type=_Opcode.TEXT if is_text else _Opcode.BINARY,
                   from_client=side == "client", content=content, timestamp=1.0, dropped=False, injected=True)
        return PRec("WebSocketMessageInjected", _impl=(WS, "WebSocketMessageInjected"), _name="WebSocketMessageInjected", flow=self.flow, message=msg)


def _relay_scenarios(thorough):
    """(name, steps, addon policies per finished message).  step = ('data', [wsproto events]) | ('closed',) | ('inject', is_text, content)"""
    def two():
        return [("data", [_T("Hello"), _B(b"ab", ff=False, mf=False), _B(b"cd", mf=False), _B(b"", mf=False), _B(b"efg")])]

    out = [
        ("two messages in one read, untouched", two(), ["keep", "keep"]),
        ("same-length edit / longer than FRAGMENT_SIZE", two(), ["same-length edit", "longer"]),
        ("first dropped, second kept", two(), ["drop", "keep"]),
        ("first kept, second dropped", two(), ["keep", "edit and drop"]),
        ("shortened / emptied by the addon", two(), ["shorter", "empty"]),
        ("message split over two reads with an interleaved ping",
         [("data", [_T("hé", mf=False)]), ("data", [_T("l", ff=False, mf=False)]), ("data", [_Ping(b"p"), _T("lo €")]), ("data", [_B(b"next")])], ["keep", "keep"]),
        ("both directions interleaved, one buffer per connection",
         [("data", [_T("ab", mf=False)]), ("data@other", [_B(b"xyz"), _Ping(b"o")]), ("data", [_T("cd")]), ("data@other", [_T("t", ff=False, mf=False)]), ("data", [_B(b"q")]), ("data@other", [_T("u")])],
         ["keep", "keep", "same-length edit", "keep"]),
        ("ping, pong, message", [("data", [_Ping(b"1"), _Pong(b"2"), _B(b"x"), _Ping(b"")])], ["keep"]),
        ("close frame", [("data", [_B(b"last"), _CloseConnection(1001, "going away")]), ("data", [_T("late"), _Ping(b"x")]), ("inject", True, b"late")], ["keep"]),
        ("connection lost", [("data", [_T("a", mf=False)]), ("closed",), ("data", [_B(b"late")])], []),
        ("injected text", [("inject", True, b"injected text")], ["keep"]),
        ("injected binary, several fragments", [("inject", False, bytes(range(256)) * 36)], ["keep"]),
        ("injected, then edited", [("inject", True, b"inj"), ("data", [_T("z")])], ["longer", "drop"]),
    ]
    if thorough:
        names = list(POLICIES)
        for a in names:
            for b in names:
                out.append((f"policies {a} / {b}", two(), [a, b]))
    return out


def _run_relay_scenario(ctx, side, name, steps, policies, fails, ran):
    """interpret one scenario for messages coming from ``side``; first deviation per category -> fails[cat]"""
    other = "server" if side == "client" else "client"
    w = _RelayWorld(ctx, policies)
    parts = {"client": [], "server": []}  # per sender: wsproto Message events of the message in progress (the reference model of frame_buf)
    n_msg = 0
    closed = False
    tag = f"[{side}->{other}] {name}"

    def fail(cat, why):
        fails.setdefault(cat, f"{tag}: {why}")

    for step in steps:
        src = other if step[0].endswith("@other") else side  # who sends in this step
        dst = side if src == other else other
        step = (step[0].split("@")[0],) + tuple(step[1:])
        partial = parts[src]
        if step[0] == "data":
            event = w.data_event(src, step[1])
        elif step[0] == "closed":
            event = w.closed_event(src)
        else:
            event = w.inject_event(src, step[1], step[2])
        del w.drained[:]
        handler = w.me.__dict__.get("_handle_event")
        items, raised = w.feed(w.relay if not closed else handler, event)
        ctx.cells += 1
        if closed:
            ran["done"] += 1
            if items or raised or len(w.messages) != w.hooked:
                fail("done", f"after the close the layer still reacts to {event._cls}: {_show_items(items)}{' raises ' + raised if raised else ''}")
            continue
        if raised:
            ran["raises"] += 1
            fail("raises", f"{event._cls} with wsproto events {w.drained or step[1:]} raises {raised}")
            return
        ws_events = list(step[1]) if step[0] == "data" else list(w.drained)
        if step[0] == "inject":
            body = b"".join(_payload(e) for e in ws_events if isinstance(e, _Message))
            kinds = {type(e) for e in ws_events}
            if body != step[2] or kinds != {_TextMessage if step[1] else _BytesMessage} or partial_unfinished(ws_events):
                fail("message", f"an injected {'TEXT' if step[1] else 'BINARY'} message {step[2][:20]!r} enters the relay as {ws_events!r:.200}")
                return
        # ---- the reference trace of this step
        pos = 0
        try:
            for ev in ws_events:
                if isinstance(ev, _Message):
                    partial.append(ev)
                    if not ev.message_finished:
                        continue
                    is_text = isinstance(ev, _TextMessage)
                    content = b"".join(_payload(e) for e in partial)
                    frames = [0]
                    for e in partial:
                        frames[-1] += len(_payload(e))
                        if e.frame_finished and not e.message_finished:
                            frames.append(0)
                    del partial[:]
                    ran["record"] += 1
                    if pos < len(items) and items[pos][0] == "send" and isinstance(items[pos][3], _Message):
                        raise _Mismatch("forward", "a fragment is sent before the hook ran (addon edits / drops are lost)")
                    if pos >= len(items) or items[pos][0] != "hook" or len(items[pos][1]) != 1:
                        got = "no WebsocketMessageHook" if pos >= len(items) or items[pos][0] != "hook" else f"a hook that finds {len(items[pos][1])} new entries in flow.websocket.messages"
                        raise _Mismatch("record", f"a finished {'TEXT' if is_text else 'BINARY'} message of {len(content)} bytes causes {got}")
                    snap = items[pos][1][0]
                    pos += 1
                    ran["message"] += 1
                    want = {"type": _Opcode.TEXT if is_text else _Opcode.BINARY, "from_client": src == "client", "content": content, "dropped": False}
                    bad = {k: snap.get(k, "<unset>") for k, v in want.items() if not (k in snap and type(snap[k]) is type(v) and snap[k] == v)}
                    if bad:
                        raise _Mismatch("message", f"message {content[:24]!r} (frames {frames}) is recorded with {bad}")
                    pol, dropped, final = w.finals[n_msg]
                    n_msg += 1
                    group = []
                    while pos < len(items) and items[pos][0] == "send" and isinstance(items[pos][3], _Message):
                        group.append(items[pos])
                        pos += 1
                        if group[-1][3].message_finished:
                            break
                    if dropped:
                        ran["dropped"] += 1
                        if group:
                            raise _Mismatch("dropped", f"a message dropped by the addon ({pol}) is still sent: {_show_items(group)}")
                        continue
                    ran["forward"] += 1
                    if not group:
                        raise _Mismatch("forward", f"a message that was not dropped ({pol}) is never forwarded")
                    evs = [g[3] for g in group]
                    if any(g[1] != dst or g[2] != dst for g in group):
                        raise _Mismatch("forward", f"fragments are sent to {sorted({g[1] for g in group})} via {sorted({g[2] + '_ws' for g in group})} instead of the other peer ({dst})")
                    if any(type(e) is not (_TextMessage if is_text else _BytesMessage) or not isinstance(e.data, str if is_text else (bytes, bytearray)) for e in evs):
                        raise _Mismatch("forward", f"a {'TEXT' if is_text else 'BINARY'} message is forwarded as {[type(e).__name__.lstrip('_') for e in evs]}")
                    joined = "".join(e.data for e in evs).encode("utf-8") if is_text else b"".join(bytes(e.data) for e in evs)
                    if joined != final:
                        raise _Mismatch("forward", f"policy '{pol}': recorded content after the hook is {final[:40]!r} ({len(final)} bytes), the peer receives {joined[:40]!r} ({len(joined)} bytes)")
                    if [e.message_finished for e in evs] != [False] * (len(evs) - 1) + [True]:
                        raise _Mismatch("forward", f"message_finished flags of the forwarded fragments: {[e.message_finished for e in evs]}")
                    if pol == "keep":
                        ran["boundaries"] += 1
                        if [len(_payload(e)) for e in evs] != frames:
                            raise _Mismatch("boundaries", f"an unmodified message received in frames of {frames} bytes is forwarded in frames of {[len(_payload(e)) for e in evs]} bytes")
                elif isinstance(ev, (_Ping, _Pong)):
                    ran["ping"] += 1
                    if pos >= len(items) or items[pos][0] != "send" or items[pos][3] is not ev or items[pos][1] != dst or items[pos][2] != dst:
                        raise _Mismatch("ping", f"{type(ev).__name__.lstrip('_')} is answered with {_show_items(items[pos:pos + 1]) or 'nothing'}")
                    pos += 1
                elif isinstance(ev, _CloseConnection):
                    ran["close"] += 1
                    closed = True
                    rest = items[pos:]
                    pos = len(items)
                    hooks = [i for i in rest if i[0] == "endhook"]
                    want = {"close_code": ev.code, "close_reason": ev.reason, "closed_by_client": src == "client"}
                    if len(hooks) != 1 or hooks[0][1] != want or any(i[0] == "hook" for i in rest) or len(w.messages) != w.hooked:
                        raise _Mismatch("close", f"close {ev.code} {ev.reason!r} from the {src}: {len(hooks)} end hook(s), the flow records {hooks[0][1] if hooks else None}")
                    h = w.me.__dict__.get("_handle_event")
                    if not isinstance(h, PFunc) or h.node is w.relay.node:
                        raise _Mismatch("close", f"after the close the layer's event handler is {'still relay_messages' if isinstance(h, PFunc) else repr(h)}")
            if partial and not any(isinstance(e, (_Message,)) and e.message_finished for e in ws_events):
                ran["unfinished"] += 1
            if pos < len(items):
                extra = items[pos:]
                cat = "unfinished" if partial and pos == 0 else "record" if extra[0][0] == "hook" else "ping" if extra[0][0] == "send" and not isinstance(extra[0][3], _Message) else "forward"
                raise _Mismatch(cat, f"unexpected after {ws_events!r:.160}: {_show_items(extra)}")
            if len(w.messages) != w.hooked:
                raise _Mismatch("record" if not partial else "unfinished", f"{len(w.messages) - w.hooked} message(s) appended to flow.websocket.messages without a WebsocketMessageHook")
            if w.wire:
                raise _Mismatch("forward", f"{len(w.wire)} wsproto send() result(s) never reach the connection (the peer's stream state is corrupted)")
        except _Mismatch as x:
            fail(x.cat, x.why)
            return


def partial_unfinished(ws_events):
    msgs = [e for e in ws_events if isinstance(e, _Message)]
    return not msgs or not msgs[-1].message_finished or any(e.message_finished for e in msgs[:-1])


def _show_items(items):
    out = []
    for i in items[:6]:
        if i[0] == "send":
            out.append(f"send({i[3]!r:.80} via {i[2]}_ws to {i[1]})")
        elif i[0] == "hook":
            out.append(f"WebsocketMessageHook({len(i[1])} new)")
        elif i[0] == "endhook":
            out.append("WebsocketEndHook")
        else:
            out.append(i[0])
    return ", ".join(out) + (" ..." if len(items) > 6 else "")


def check_r281(ctx):
    m = ctx.model
    fn = ctx.func(WS, "WebsocketLayer.relay_messages")
    done = ctx.func(WS, "WebsocketLayer.done") if m.has(WS, "WebsocketLayer.done") else None  # whatever handler is installed after the close is evaluated
    where = (WS, "WebsocketLayer.relay_messages", fn)
    for rel, qual in ((WS, "WebsocketConnection"), (WS, "WebSocketMessageInjected"), (WS, "Fragmentizer"), (WSM, "WebSocketMessage"), (PEV, "DataReceived"), (PEV, "ConnectionClosed")):
        ctx.require(m.has(rel, qual), f"R28.1: class {qual} vanished from {rel}")
    for side in ("client", "server"):
        scenarios = _relay_scenarios(ctx.tier == "thorough")
        fails = {}
        ran = dict.fromkeys(CATS, 0)
        for name, steps, policies in scenarios:
            _run_relay_scenario(ctx, side, name, steps, policies, fails, ran)
        tag = f"{side}->{'server' if side == 'client' else 'client'}"
        for cat, construct in CATS.items():
            if cat == "raises":
                if cat in fails:
                    ctx.fail("R28.1", where, construct, fails[cat])
                continue
            if cat not in fails and not ran[cat] and not fails:
                raise AnalysisError(f"R28.1: no scenario exercised '{cat}' for {tag} (the evaluation collapsed)")
            w = (WS, "WebsocketLayer.done", done) if cat == "done" and done is not None else where
            ctx.check(cat not in fails, "R28.1", w, construct, fails.get(cat, ""), desc=f"[{tag}] {construct} ({ran[cat]} cases)")


# ---------------------------------------------------------------------------------------------------
# R28.2 / R28.3: finite evaluation of the Fragmentizer class


_NOLIT = object()


def _literal(node):
    """value of a literal expression (constants, + - * // % ** << on ints, tuples / lists of literals) or _NOLIT"""
    if isinstance(node, ast.Constant):
        return node.value
    if isinstance(node, (ast.Tuple, ast.List)):
        vs = [_literal(e) for e in node.elts]
        return _NOLIT if any(v is _NOLIT for v in vs) else (tuple(vs) if isinstance(node, ast.Tuple) else vs)
    if isinstance(node, ast.UnaryOp) and isinstance(node.op, (ast.USub, ast.UAdd)):
        v = _literal(node.operand)
        return _NOLIT if v is _NOLIT or not isinstance(v, int) else (-v if isinstance(node.op, ast.USub) else v)
    if isinstance(node, ast.BinOp):
        a, b = _literal(node.left), _literal(node.right)
        if a is _NOLIT or b is _NOLIT or not (type(a) is int and type(b) is int):
            return _NOLIT
        try:
            if isinstance(node.op, ast.Add):
                return a + b
            if isinstance(node.op, ast.Sub):
                return a - b
            if isinstance(node.op, ast.Mult):
                return a * b
            if isinstance(node.op, ast.FloorDiv):
                return a // b
            if isinstance(node.op, ast.Mod):
                return a % b
            if isinstance(node.op, ast.LShift) and 0 <= b < 64:
                return a << b
            if isinstance(node.op, ast.Pow) and 0 <= b < 64:
                return a**b
        except ZeroDivisionError:
            return _NOLIT
    return _NOLIT


class FragHarness:
    """The Fragmentizer class interpreted from its AST (pyint, run-once generators): any spelling inside the interpreter's subset -
    renamed / extracted helpers, merged or split loops, comprehensions, class-level access to FRAGMENT_SIZE - is evaluated like the
    original.  FRAGMENT_SIZE is the documented monkeypatch point: for one evaluation its class-level literal is replaced in the
    (in-memory) AST, so `self.FRAGMENT_SIZE`, `type(self).FRAGMENT_SIZE` and `Fragmentizer.FRAGMENT_SIZE` all see the small test size."""

    def __init__(self, ctx):
        m = ctx.model
        self.cls = m.cls(WS, "Fragmentizer")
        self.init = ctx.func(WS, "Fragmentizer.__init__")
        self.call = ctx.func(WS, "Fragmentizer.__call__")
        for fn, n in ((self.init, 3), (self.call, 2)):
            a = fn.args
            npos = len(a.posonlyargs) + len(a.args)
            ctx.require(npos - len(a.defaults) <= n <= npos or (a.vararg is not None and npos - len(a.defaults) <= n) and not [k for k, d in zip(a.kwonlyargs, a.kw_defaults) if d is None],
                        f"Fragmentizer.{fn.name} no longer takes {n - 1} positional argument(s): {[x.arg for x in a.args]}")
        self.size_stmt = None
        for st in self.cls.body:  # class-level constant: FRAGMENT_SIZE = <literal> | FRAGMENT_SIZE: int = <literal> (literal arithmetic allowed)
            tgt = st.targets[0] if isinstance(st, ast.Assign) and len(st.targets) == 1 else st.target if isinstance(st, ast.AnnAssign) and st.value is not None else None
            if isinstance(tgt, ast.Name) and tgt.id == "FRAGMENT_SIZE":
                self.size_stmt = st
        v = _literal(self.size_stmt.value) if self.size_stmt is not None else _NOLIT
        ctx.require(type(v) is int and v > 0, "Fragmentizer.FRAGMENT_SIZE is no positive int literal")
        self.it = _Eager(m, trusted_modules=_TRUSTED, max_steps=10**9)
        self.cref = PClassRef(m.module(WS), self.cls)

    @property
    def steps(self):
        return self.it.steps

    def run(self, fragments, is_text, content, fragment_size):
        """-> list of (kind, data, finished)"""
        saved = self.size_stmt.value
        self.size_stmt.value = ast.Constant(fragment_size)
        try:
            frag = self.it.apply(self.cref, [list(fragments), is_text], {}, 0)
            res = self.it.apply(frag, [bytes(content)], {}, 0)
            res = list(res) if isinstance(res, PGen) else self.it.iterate(res, self.call)
        except PRaised as r:
            return [("raise", r.name, True)]
        finally:
            self.size_stmt.value = saved
        out = []
        for o in res:
            if type(o) not in (_TextMessage, _BytesMessage):
                raise AnalysisError(f"Fragmentizer yields something that is not a Text/BytesMessage: {o!r}")
            out.append(("text" if type(o) is _TextMessage else "bytes", o.data, o.message_finished))
        return out


def fragment_lists(total_max, parts_max):
    """all lists of fragment lengths (zeros allowed) with <= parts_max parts and sum <= total_max"""
    out = [[]]
    frontier = [[]]
    for _ in range(parts_max):
        nxt = []
        for f in frontier:
            for k in range(0, total_max - sum(f) + 1):
                nxt.append(f + [k])
        out += nxt
        frontier = nxt
    return out


def check_r283(ctx, h):
    where = (WS, "Fragmentizer.__call__", h.call)
    thorough = ctx.tier == "thorough"
    total_max, parts_max = (6, 4) if thorough else (5, 3)
    bad = {}
    n = 0
    for lens in fragment_lists(total_max, parts_max):
        frags = []
        pos = 0
        for k in lens:
            frags.append(bytes(range(65 + pos, 65 + pos + k)))
            pos += k
        for clen in range(0, total_max + 4):
            content = bytes(range(97, 97 + clen))
            for fs in ((1, 2, 3, 4) if thorough else (1, 2, 3)):
                out = h.run(frags, False, content, fs)
                n += 1
                kinds = {o[0] for o in out}
                data = b"".join(o[1] for o in out if isinstance(o[1], (bytes, bytearray))) if kinds <= {"bytes"} else None
                fin = [o[2] for o in out]
                case = (lens, clen, fs, [(o[0], o[1], o[2]) for o in out])
                if kinds - {"bytes"}:
                    bad.setdefault("binary content is not re-fragmented into BytesMessages", case)
                elif data != content:
                    bad.setdefault("fragments do not concatenate to the content (bytes lost, duplicated or reordered)", case)
                elif not out:
                    bad.setdefault("no fragment at all is produced (the message is never finished)", case)
                elif fin != [False] * (len(out) - 1) + [True]:
                    bad.setdefault("message_finished is not set on exactly the last fragment", case)
                elif lens and clen == sum(lens) and [len(o[1]) for o in out] != lens:
                    bad.setdefault("unchanged length but the original frame boundaries are not kept", case)
    ctx.cells += n
    for why, (lens, clen, fs, out) in bad.items():
        ctx.fail("R28.3", where, why, f"original fragment lengths {lens}, content of {clen} bytes, FRAGMENT_SIZE={fs}: produced {out}")
    if not bad:
        ctx.ok("R28.3", f"Fragmentizer (binary): {n} (fragment pattern, content length, FRAGMENT_SIZE) cases: exact cover, last-only finished, boundaries kept")
    return n


def check_r282(ctx, h):
    where = (WS, "Fragmentizer", h.cls)
    texts = ["aäb€c\U0001f600d", "€€€", "\U0001f600\U0001f600", "xä", "äöüß"]
    bad = {}
    n = 0
    for text in texts:
        content = text.encode("utf-8")
        patterns = [[b"zz"], []]  # changed length -> FRAGMENT_SIZE chunks (also the injected-message path: no fragments)
        # same byte length but other boundaries -> original sizes reused
        for cut in range(0, len(content) + 1):
            patterns.append([b"q" * cut, b"q" * (len(content) - cut)])
        for frags in patterns:
            for fs in range(1, 7):
                out = h.run(frags, True, content, fs)
                n += 1
                case = ([len(f) for f in frags], text, fs, out)
                if any(o[0] != "text" or not isinstance(o[1], str) for o in out):
                    bad.setdefault("text content is not re-fragmented into TextMessages carrying str", case)
                    continue
                joined = "".join(o[1] for o in out)
                fin = [o[2] for o in out]
                if joined != text:
                    bad.setdefault("text is garbled by re-fragmentation (multi-byte character cut at a byte offset)", case)
                elif fin != [False] * (len(out) - 1) + [True]:
                    bad.setdefault("message_finished is not set on exactly the last text fragment", case)
    ctx.cells += n
    for why, (lens, text, fs, out) in bad.items():
        ctx.fail("R28.2", where, why,
                 f"text {text!r} ({len(text.encode())} bytes), original fragment lengths {lens}, FRAGMENT_SIZE={fs}: peer receives "
                 f"{''.join(o[1] for o in out if isinstance(o[1], str))!r} in pieces {[o[1] for o in out]}")
    if not bad:
        ctx.ok("R28.2", f"Fragmentizer (text): {n} cases with 2/3/4-byte characters across every cut: text arrives intact")


# ---------------------------------------------------------------------------------------------------
# R28.4: extension negotiation reaches both wsproto connections


class _PMD:
    """wsproto.extensions.PerMessageDeflate, reduced to its contract: finalize(offer) reads the parameters from the
    ';'-separated items after the first one (the extension name) of the complete extension entry."""

    name = "permessage-deflate"
    created: list = []  # every instance made during the current evaluation

    def __init__(self, *a, **k):
        self.finalized = []
        _PMD.created.append(self)

    def finalize(self, offer):
        if not isinstance(offer, str):
            raise TypeError(f"PerMessageDeflate.finalize is called with {offer!r}")
        self.finalized.append([b.strip() for b in offer.split(";")][1:])


_WSPROTO.extensions = types.SimpleNamespace(PerMessageDeflate=_PMD)
_WSPROTO.utilities = types.SimpleNamespace(split_comma_header=lambda value: [piece.decode("ascii").strip() for piece in value.split(b",")])


PMD_NAME = "permessage-deflate"
EXT_HEADERS = [
    None,
    "permessage-deflate",
    "permessage-deflate; server_no_context_takeover",
    "permessage-deflate; client_no_context_takeover",
    "permessage-deflate; server_max_window_bits=10",
    "permessage-deflate; client_max_window_bits=9; server_no_context_takeover",
    "permessage-deflate;client_no_context_takeover;server_no_context_takeover;server_max_window_bits=12",
    "permessage-deflate ; server_max_window_bits=11 ; client_no_context_takeover",
    "x-webkit-deflate-frame, permessage-deflate; server_no_context_takeover",
    "permessage-deflate; client_no_context_takeover, x-unknown; q=1",
    "x-unknown",
]


def negotiated(header):
    """parameter lists of the permessage-deflate entries of a Sec-WebSocket-Extensions value (RFC 6455 s.9.1 / RFC 7692 grammar)"""
    out = []
    for entry in (header or "").split(","):
        items = [b.strip() for b in entry.split(";")]
        if items[0] == PMD_NAME:
            out.append(items[1:])
    return out


def check_r284(ctx):
    """`WebsocketLayer.start` interpreted (pyint) per response header; WebsocketConnection is a recording stub (its wsproto base class is the
    trusted library), so helper extraction, renamed locals, other ways of cutting the header and added logging are evaluated like the original."""
    m = ctx.model
    fn = ctx.func(WS, "WebsocketLayer.start")
    where = (WS, "WebsocketLayer.start", fn)
    bad = {}
    n = 0
    for header in EXT_HEADERS:
        want = negotiated(header)
        conns = []
        del _PMD.created[:]

        def make_conn(connection_type=None, extensions=None, trailing_data=b"", *, conn=None):
            conns.append({"role": connection_type, "extensions": extensions, "conn": conn})
            return ("ws", len(conns) - 1)

        it = _Eager(m, trusted_modules=_TRUSTED, max_steps=200000)
        it.overrides[(WS, "WebsocketConnection")] = make_conn
        headers = PDictRec("Headers", items={} if header is None else {"Sec-WebSocket-Extensions": header}, case_insensitive=True, _name="response.headers")
        flow = PRec("HTTPFlow", _bases=("Flow",), _name="flow", response=PRec("Response", _name="response", headers=headers, status_code=101), request=PRec("Request"),
                    websocket=PRec("WebSocketData", messages=[]), live=True)
        me = PRec("WebsocketLayer", _bases=("Layer",), _impl=(WS, "WebsocketLayer"), _name="layer", flow=flow, debug=None,
                  context=PRec("Context", client="context.client", server="context.server", options=PRec("Options")))
        try:
            out = it.method(me, "start", PRec("Start", _bases=("Event",)))
            if isinstance(out, PGen):
                it.drain(out, lambda cmd: None)
        except PRaised as r:
            raise AnalysisError(f"WebsocketLayer.start raises {r.name} ({r.msg}) for the response header Sec-WebSocket-Extensions: {header!r} (not modelled)")
        n += 1
        sides = {}
        for name, role, conn in (("client_ws", _ConnectionType.SERVER, "context.client"), ("server_ws", _ConnectionType.CLIENT, "context.server")):
            w = me.__dict__.get(name)
            if not (isinstance(w, tuple) and len(w) == 2 and w[0] == "ws"):
                raise AnalysisError(f"WebsocketLayer.start does not bind self.{name} to a WebsocketConnection (got {w!r})")
            c = conns[w[1]]
            if c["role"] is not role or c["conn"] != conn:
                bad.setdefault(f"self.{name} must be the wsproto {role.name} endpoint on {conn}", (header, f"it is created as {getattr(c['role'], 'name', c['role'])} endpoint on {c['conn']}"))
            exts = list(c["extensions"] or [])
            if any(not isinstance(x, _PMD) for x in exts):
                raise AnalysisError(f"WebsocketLayer.start: self.{name} gets extensions that are no PerMessageDeflate objects: {exts!r}")
            sides[name] = exts
            got = [x.finalized for x in exts]
            if len(exts) != len(want):
                bad.setdefault("one PerMessageDeflate per negotiated permessage-deflate entry on each connection, none otherwise",
                               (header, f"self.{name} gets {len(exts)} deflate extension(s), the header negotiates {len(want)}"))
            elif any(len(f) != 1 for f in got):
                bad.setdefault("every PerMessageDeflate handed to a connection is finalised exactly once (an unfinalised extension stays disabled)",
                               (header, f"self.{name}: finalize() was called {[len(f) for f in got]} times on its extension(s)"))
            elif [f[0] for f in got] != want:
                bad.setdefault("negotiated permessage-deflate parameters reach both wsproto connections",
                               (header, f"self.{name} deflates with parameters {[f[0] for f in got]}, negotiated were {want} "
                                        "(PerMessageDeflate.finalize(offer) skips the first ';'-item: it must get the complete extension entry)"))
        if any(a is b for a in sides["client_ws"] for b in sides["server_ws"]):
            bad.setdefault("the two connections use separate PerMessageDeflate objects (separate compression contexts)",
                           (header, "the same extension object is handed to self.client_ws and self.server_ws"))
    ctx.cells += n
    for why, (header, what) in bad.items():
        ctx.fail("R28.4", where, why, f"response header Sec-WebSocket-Extensions: {header!r}: {what}")
    if not bad:
        ctx.ok("R28.4", f"WebsocketLayer.start: {n} Sec-WebSocket-Extensions headers: both wsproto connections get their own PerMessageDeflate finalised with exactly the negotiated parameters; roles client_ws=SERVER/context.client, server_ws=CLIENT/context.server")


def check(ctx):
    ctx.rule("R28.1", "relay_messages: record once, hook once, forward fragmentizer(message.content) once to the other peer unless dropped; ping/pong; close bookkeeping")
    ctx.rule("R28.2", "Fragmentizer never garbles multi-byte text (finite evaluation over every cut position and chunk size)")
    ctx.rule("R28.3", "Fragmentizer covers the content exactly once, finishes only the last fragment, keeps boundaries for unchanged length")
    ctx.rule("R28.4", "permessage-deflate negotiation: both wsproto connections get their own extension finalised with exactly the negotiated parameters; connection roles")
    ctx.trust("wsproto events / framing; codecs incremental decoder (stdlib)")
    ctx.trust("wsproto contract: split_comma_header(b) = stripped ','-pieces; PerMessageDeflate.finalize(offer) takes the complete extension entry and reads the parameters from its ';'-items after the first")
    check_r281(ctx)
    h = FragHarness(ctx)
    check_r282(ctx, h)
    check_r283(ctx, h)
    check_r284(ctx)
    ctx.note(f"Fragmentizer AST interpreted for {h.steps} steps")
    for rule, n in (("R28.1", 18), ("R28.2", 1), ("R28.3", 1), ("R28.4", 1)):
        if not any(f.rule == rule for f in ctx.findings):
            ctx.expect_instances(rule, n)


MUTANTS = [
    # R28.2 (first = reverse of the F-C28 repair)
    Mutant("text-fragments-decoded-independently", WS, "            data_str = self.decoder.decode(data, message_finished)\n", "            data_str = data.decode(errors=\"replace\")\n", "R28.2"),
    Mutant("incremental-decoder-never-flushed-or-reset-per-fragment", WS, "            data_str = self.decoder.decode(data, message_finished)\n",
           "            data_str = codecs.getincrementaldecoder(\"utf-8\")(errors=\"replace\").decode(data, message_finished)\n", "R28.2"),
    Mutant("text-sent-as-bytes", WS, "        if self.is_text:\n            data_str", "        if not self.is_text:\n            data_str", "R28.2"),
    # R28.3
    Mutant("rechunk-skips-a-byte", WS, "                offset += self.FRAGMENT_SIZE\n            yield self.msg(content[offset:], True)", "                offset += self.FRAGMENT_SIZE + 1\n            yield self.msg(content[offset:], True)", "R28.3"),
    Mutant("rechunk-overlap", WS, "                yield self.msg(content[offset : offset + self.FRAGMENT_SIZE], False)\n                offset += self.FRAGMENT_SIZE\n",
           "                yield self.msg(content[offset : offset + self.FRAGMENT_SIZE + 1], False)\n                offset += self.FRAGMENT_SIZE\n", "R28.3"),
    Mutant("same-length-last-fragment-not-final", WS, "                offset += fl\n            yield self.msg(content[offset:], True)", "                offset += fl\n            yield self.msg(content[offset:], False)", "R28.3"),
    Mutant("same-length-offset-not-advanced", WS, "                yield self.msg(content[offset : offset + fl], False)\n                offset += fl\n", "                yield self.msg(content[offset : offset + fl], False)\n", "R28.3"),
    Mutant("boundaries-not-kept", WS, "        if len(content) == sum(self.fragment_lengths):", "        if len(content) == sum(self.fragment_lengths) and False:", "R28.3"),
    Mutant("every-chunk-finished", WS, "                yield self.msg(content[offset : offset + self.FRAGMENT_SIZE], False)\n", "                yield self.msg(content[offset : offset + self.FRAGMENT_SIZE], True)\n", "R28.3"),
    # R28.1
    Mutant("forward-even-if-dropped", WS, "                    if not message.dropped:\n                        for msg in fragmentizer(message.content):\n                            yield dst_ws.send2(msg)\n",
           "                    for msg in fragmentizer(message.content):\n                        yield dst_ws.send2(msg)\n", "R28.1"),
    Mutant("forward-original-not-edited-content", WS, "for msg in fragmentizer(message.content):", "for msg in fragmentizer(content):", "R28.1"),
    Mutant("forward-before-hook", WS, "                    self.flow.websocket.messages.append(message)\n                    yield WebsocketMessageHook(self.flow)\n\n                    if not message.dropped:\n                        for msg in fragmentizer(message.content):\n                            yield dst_ws.send2(msg)\n",
           "                    self.flow.websocket.messages.append(message)\n                    if not message.dropped:\n                        for msg in fragmentizer(message.content):\n                            yield dst_ws.send2(msg)\n                    yield WebsocketMessageHook(self.flow)\n", "R28.1"),
    Mutant("echo-to-sender", WS, "                            yield dst_ws.send2(msg)\n", "                            yield src_ws.send2(msg)\n", "R28.1"),
    Mutant("dropped-message-ends-the-read", WS, "                    if not message.dropped:\n                        for msg in fragmentizer(message.content):\n                            yield dst_ws.send2(msg)\n",
           "                    if message.dropped:\n                        return\n                    for msg in fragmentizer(message.content):\n                        yield dst_ws.send2(msg)\n", "R28.1"),
    Mutant("injected-message-direction-ignored", WS, "            from_client = event.message.from_client\n", "            from_client = True\n", "R28.1"),
    Mutant("frame-buffer-not-reset", WS, "                    src_ws.frame_buf = [b\"\"]\n", "", "R28.1"),
    Mutant("fragmentizer-after-reset", WS, "                    fragmentizer = Fragmentizer(src_ws.frame_buf, is_text)\n                    src_ws.frame_buf = [b\"\"]\n",
           "                    src_ws.frame_buf = [b\"\"]\n                    fragmentizer = Fragmentizer(src_ws.frame_buf, is_text)\n", "R28.1"),
    Mutant("message-not-recorded", WS, "                    self.flow.websocket.messages.append(message)\n", "", "R28.1"),
    Mutant("text-recorded-as-binary", WS, "                    typ = Opcode.TEXT\n", "                    typ = Opcode.BINARY\n", "R28.1"),
    Mutant("direction-flag-constant", WS, "                        typ, from_client, content, injected=injected\n", "                        typ, True, content, injected=injected\n", "R28.1"),
    Mutant("frame-end-not-buffered", WS, "                elif ws_event.frame_finished:\n                    src_ws.frame_buf.append(b\"\")\n", "", "R28.1"),
    Mutant("pong-not-relayed", WS, "                yield dst_ws.send2(ws_event)\n            elif isinstance(ws_event, wsproto.events.CloseConnection):", "            elif isinstance(ws_event, wsproto.events.CloseConnection):", "R28.1"),
    Mutant("close-code-constant", WS, "                self.flow.websocket.close_code = ws_event.code\n", "                self.flow.websocket.close_code = 1000\n", "R28.1"),
    Mutant("closed-by-client-inverted", WS, "                self.flow.websocket.closed_by_client = from_client\n", "                self.flow.websocket.closed_by_client = not from_client\n", "R28.1"),
    Mutant("close-keeps-relaying", WS, "                self.flow.live = False\n                self._handle_event = self.done\n", "                self.flow.live = False\n", "R28.1"),
    # R28.4 (first = the essence of seed C28b: only the text after the first ';' reaches finalize(), which skips one more item)
    Mutant("deflate-finalized-with-params-only", WS, "                ext_name = ext.split(\";\", 1)[0].strip()\n", "                ext_name, _, ext = ext.partition(\";\")\n                ext_name = ext_name.strip()\n", "R28.4"),
    Mutant("deflate-finalized-with-name-only", WS, "                    server_deflate.finalize(ext)\n", "                    server_deflate.finalize(ext_name)\n", "R28.4"),
    Mutant("server-side-deflate-never-finalized", WS, "                    server_deflate.finalize(ext)\n", "", "R28.4"),
    Mutant("one-deflate-object-shared-by-both-connections", WS, "                    server_extensions.append(server_deflate)\n", "                    server_extensions.append(client_deflate)\n", "R28.4"),
    Mutant("extension-name-not-stripped", WS, "                ext_name = ext.split(\";\", 1)[0].strip()\n", "                ext_name = ext.split(\";\", 1)[0]\n", "R28.4"),
    Mutant("deflate-only-towards-the-client", WS, "wsproto.ConnectionType.CLIENT, server_extensions, conn=self.context.server", "wsproto.ConnectionType.CLIENT, [], conn=self.context.server", "R28.4"),
    Mutant("connection-roles-swapped", WS, "wsproto.ConnectionType.SERVER, client_extensions, conn=self.context.client", "wsproto.ConnectionType.CLIENT, client_extensions, conn=self.context.client", "R28.4"),
]
