"""C19 - ignored hosts are passed through untouched and allow/ignore rules are honoured.

Decided (structural clauses):
  R19.1 the Host-sniffing regex of NextLayer._get_host_header (IGNORECASE): optional whitespace after "Host:" is
        really optional (RFC 9110 OWS = *(SP / HTAB)), the captured group accepts host[:port] forms and never starts
        with whitespace, trailing OWS is tolerated, and "\\r\\n\\r\\n" (end of head, no Host) is accepted. Decided on the
        regex's *language* (sub-pattern NFAs), not by running `re`.
  R19.2 _ignore_connection considers all five destination sources (server.peername, server.address, Host header,
        ClientHello SNI, client.sni), each as host:port; NeedsMoreData propagates to next_layer, which defers.
  R19.3 decision table over allow {unset, no match, match} x ignore {unset, no match, match}: ignored iff
        (allow set and nothing matches) or (ignore set and something matches); both use re.search(..., IGNORECASE).
  R19.4 in _next_layer the ignore test is the first decision and yields TCPLayer/UDPLayer(ignore=not show_ignored_hosts).
  R19.5 relay identity: the ClientTLSLayer ignore branch installs an ignoring TCP/UDP layer, forwards the whole
        receive buffer once and returns before any TLS is started; an ignoring TCPLayer/UDPLayer sends event.data itself.
Not decided: end-to-end byte relay over all segmentations (structurally covered by C04/C29), capture-group semantics
of lazy vs greedy quantifiers.
"""

from __future__ import annotations

import ast
import re
from re import _constants as sc  # type: ignore[attr-defined]

from .. import rx
from ..core import AnalysisError
from ..core import norm
from ..model import attr_chain
from ..model import calls_in
from ..model import last_attr
from ..model import walk_in_order
from ..paths import C
from ..paths import Engine
from ..paths import GenericSpec
from ..paths import is_const
from ..paths import Spec
from ..paths import State
from ..paths import traces_of
from ..paths import UNKNOWN
from ..selftest import Mutant

PROP = "C19"
REG = {
    "strength": "partial",
    "technique": "regex sub-language membership (NFA), def-use source coverage, decision table by path enumeration, first-decision dominance, relay identity",
    "claim": "the Host-sniffing regex accepts every OWS form and host form required by RFC 9110; all five destination sources feed the decision; the allow/ignore "
    "decision table equals the reference on all 9 cells; the ignore test dominates every other layer decision; the ignore paths relay the original bytes.",
    "note": "Regex semantics beyond language (which alternative a backtracking engine prefers) are not decided.",
}

NL = "mitmproxy/addons/next_layer.py"
TLS = "mitmproxy/proxy/layers/tls.py"
TCP = "mitmproxy/proxy/layers/tcp.py"
UDP = "mitmproxy/proxy/layers/udp.py"


def _find_group(items, group):
    """Locate (sequence, index) of SUBPATTERN #group inside a parsed regex item sequence."""
    items = list(items)
    for i, (op, av) in enumerate(items):
        if op is sc.SUBPATTERN:
            if av[0] == group:
                return items, i
            r = _find_group(av[3], group)
            if r:
                return r
        elif op in (sc.MAX_REPEAT, sc.MIN_REPEAT):
            r = _find_group(av[2], group)
            if r:
                return r
        elif op is sc.BRANCH:
            for alt in av[1]:
                r = _find_group(alt, group)
                if r:
                    return r
    return None


class IgnoreSpec(Spec):
    """Decides the option/match predicates of _ignore_connection from an abstract configuration."""

    max_depth = 1

    def __init__(self, cfg):
        self.cfg = cfg
        self.search_calls = {}

    def events(self, node, st):
        return []

    def _match_any(self, call):
        """any(re.search(rex, host, re.IGNORECASE) for host in hostnames for rex in ctx.options.X) -> 'X' or None"""
        if not (isinstance(call, ast.Call) and isinstance(call.func, ast.Name) and call.func.id == "any" and len(call.args) == 1 and isinstance(call.args[0], ast.GeneratorExp)):
            return None
        g = call.args[0]
        opt = None
        for comp in g.generators:
            ch = attr_chain(comp.iter)
            if ch.startswith("ctx.options."):
                opt = ch[len("ctx.options."):]
        elt = g.elt
        if opt is None or not (isinstance(elt, ast.Call) and norm(elt.func).startswith("re.")):
            raise AnalysisError(f"host-match expression of a shape the rule does not model: {norm(call)}")
        self.search_calls[id(elt)] = (opt, elt)
        return opt

    def value(self, expr, st, depth):
        ch = attr_chain(expr)
        if ch == "ctx.options.allow_hosts":
            return C(["x"] if self.cfg["allow"] != "unset" else [])
        if ch == "ctx.options.ignore_hosts":
            return C(["x"] if self.cfg["ignore"] != "unset" else [])
        if isinstance(expr, ast.Name) and expr.id == "hostnames":
            return C(["h:1"])
        opt = self._match_any(expr) if isinstance(expr, ast.Call) else None
        if opt is not None:
            key = {"allow_hosts": "allow", "ignore_hosts": "ignore"}.get(opt)
            if key is None:
                raise AnalysisError(f"host match against unexpected option {opt}")
            return C(self.cfg[key] == "match")
        return Spec.value(self, expr, st, depth)

    def decide_leaf(self, cond, st, depth):
        if isinstance(cond, ast.Call):
            if norm(cond.func) == "isinstance" and "WireGuardMode" in norm(cond):
                return False  # named assumption: not the WireGuard DNS special case
            opt = self._match_any(cond)
            if opt is not None:
                return bool(self.value(cond, st, depth)[1])
        return Spec.decide_leaf(self, cond, st, depth)

    def effect(self, stmt, st, depth):
        # keep `hostnames` abstractly non-empty
        if isinstance(stmt, (ast.Assign, ast.AnnAssign)):
            t = stmt.targets[0] if isinstance(stmt, ast.Assign) else stmt.target
            if isinstance(t, ast.Name) and t.id == "hostnames":
                return st
        return Spec.effect(self, stmt, st, depth)


def check(ctx):
    ctx.exhaustive = True
    ctx.bounds.append("loops unrolled once in path enumeration; the allow/ignore table enumerates its abstract domain completely")
    ctx.rule("R19.1", "Host-sniffing regex: OWS optional, host forms accepted, no leading whitespace in the capture, IGNORECASE")
    ctx.rule("R19.2", "all five destination sources reach the decision as host:port; NeedsMoreData propagates and defers")
    ctx.rule("R19.3", "allow/ignore decision table == reference; re.search with IGNORECASE")
    ctx.rule("R19.4", "ignore test is the first decision of _next_layer and selects an (optionally hidden) raw relay layer")
    ctx.rule("R19.5", "ignore paths relay the original bytes and never start TLS")
    m = ctx.model

    # ---- R19.1
    ghh = ctx.func(NL, "NextLayer._get_host_header")
    where = (NL, "NextLayer._get_host_header", ghh)
    pats = [p for p in rx.find_call_patterns(ghh, funcs=("search", "match", "compile")) if b"Host" in (p[1] if isinstance(p[1], bytes) else p[1].encode()) or b"host" in (p[1] if isinstance(p[1], bytes) else p[1].encode()).lower()]
    ctx.require(len(pats) == 1, f"_get_host_header: expected one Host-sniffing regex, found {len(pats)}")
    call, pat, flags = pats[0]
    ctx.check(bool(flags & re.IGNORECASE), "R19.1", where, "Host regex flags", "header names are case-insensitive: the regex is used without re.IGNORECASE", desc="IGNORECASE")
    ctx.check(call.func.attr == "search", "R19.1", where, f"re.{call.func.attr}", "the Host header is not at the start of the head: re.search is required", desc="re.search")
    tree = rx.parse(pat, flags)
    found = _find_group(tree, 1)
    ctx.require(found is not None, "Host regex has no capture group 1")
    seq, gi = found
    # items between the literal ':' and the group
    colon = max((i for i, (op, av) in enumerate(seq[:gi]) if op is sc.LITERAL and av == ord(":")), default=None)
    ctx.require(colon is not None, "Host regex: no literal ':' before the capture group")
    name_items = seq[:colon]
    name_nfa = rx.nfa_of(pat, flags, items=name_items)
    ctx.check(name_nfa.accepts(b"Host") and name_nfa.accepts(b"host") and name_nfa.accepts(b"HOST") and not name_nfa.accepts(b"Hos") and not name_nfa.accepts(b"X-Host"), "R19.1", where, "field name",
              "the field-name part does not accept exactly Host in any case", desc="field name language")
    between = rx.nfa_of(pat, flags, items=seq[colon + 1 : gi])
    for w in (b"", b" ", b"\t", b"  ", b" \t"):
        ctx.check(between.accepts(w), "R19.1", where, f"OWS {w!r} after 'Host:'", f"optional whitespace {w!r} between 'Host:' and the value is not accepted (RFC 9110: OWS is optional) => the Host header is not seen and ignore/allow rules are bypassed",
                  desc=f"OWS {w!r}")
    group = rx.nfa_of(pat, flags, items=seq[gi][1][3])
    for w in (b"example.com", b"a", b"example.com:8080", b"[::1]:443", b"EXAMPLE.COM", b"xn--bcher-kva.example"):
        ctx.check(group.accepts(w), "R19.1", where, f"host form {w!r}", "the capture group rejects a legal Host value", desc=f"host {w!r}")
    for w in (b"", b" example.com", b"\texample.com"):
        ctx.check(not group.accepts(w), "R19.1", where, f"capture {w!r}", "the capture group accepts an empty value or leading whitespace (host compared with stray whitespace)", desc=f"capture rejects {w!r}")
    after = rx.nfa_of(pat, flags, items=seq[gi + 1 :])
    for w in (b"", b" ", b" \t"):
        ctx.check(after.accepts(w), "R19.1", where, f"trailing OWS {w!r}", "trailing optional whitespace after the Host value is not tolerated", desc=f"trailing OWS {w!r}")
    whole = rx.nfa_of(pat, flags)
    for w in (b"\r\nHost:example.com\r\n", b"\r\nhost: example.com \r\n", b"\r\nHOST:\texample.com\r\n", b"\r\n\r\n"):
        ctx.check(whole.accepts(w), "R19.1", where, f"whole pattern on {w!r}", "a header line in a legal spelling (or the end of the head) is not matched", desc=f"whole {w!r}")
    ctx.expect_instances("R19.1", 22)

    # ---- R19.2
    ic = ctx.func(NL, "NextLayer._ignore_connection")
    wic = (NL, "NextLayer._ignore_connection", ic)
    # def-use: latest source of each local, in statement order
    sources = {}
    appended = []
    for st in walk_in_order(ic):
        if isinstance(st, ast.Assign) and isinstance(st.targets[0], (ast.Tuple, ast.List)):
            src = attr_chain(st.value)
            for e in st.targets[0].elts:
                n = e.value if isinstance(e, ast.Starred) else e
                if isinstance(n, ast.Name):
                    sources.setdefault(n.id, []).append((st.lineno, src))
        elif isinstance(st, ast.NamedExpr) and isinstance(st.target, ast.Name):
            src = norm(st.value.func) if isinstance(st.value, ast.Call) else attr_chain(st.value)
            sources.setdefault(st.target.id, []).append((st.lineno, src))
        elif isinstance(st, ast.Assign) and isinstance(st.targets[0], ast.Name) and st.targets[0].id == "host_header":
            pass
        elif isinstance(st, ast.Call) and attr_chain(st.func) == "hostnames.append" and st.args:
            appended.append(st)
    got = set()
    for call in appended:
        arg = call.args[0]
        srcs = set()
        has_port = False
        for n in ast.walk(arg):
            if isinstance(n, ast.Name):
                if n.id == "port":
                    has_port = True
                cands = [s for ln, s in sources.get(n.id, []) if ln <= call.lineno]
                if cands and n.id != "port":
                    srcs.add(cands[-1])
            elif isinstance(n, ast.Attribute):
                ch = attr_chain(n)
                if ch in ("client_hello.sni", "context.client.sni"):
                    srcs.add(ch)
        if isinstance(arg, ast.Name) and arg.id == "host_header":
            # port is appended conditionally just before
            has_port = any(isinstance(a, ast.Assign) and isinstance(a.targets[0], ast.Name) and a.targets[0].id == "host_header" and "port" in norm(a.value) for a in walk_in_order(ic))
        for s in srcs:
            got.add(s)
            ctx.check(has_port, "R19.2", wic, f"hostnames.append({norm(arg)})", "destination is compared without its port (host:port patterns cannot match)", desc=f"source {s} as host:port")
    want = {"context.server.peername", "context.server.address", "self._get_host_header", "client_hello.sni", "context.client.sni"}
    for s in sorted(want - got):
        ctx.fail("R19.2", wic, f"source {s}", "this destination source no longer feeds the ignore/allow decision: a connection identified only by it escapes the rules")
    # NeedsMoreData
    tries = [n for n in walk_in_order(ic) if isinstance(n, ast.Try)]
    ctx.check(not tries, "R19.2", wic, "no try/except in _ignore_connection", "NeedsMoreData could be swallowed before next_layer defers the decision", desc="NeedsMoreData not caught in _ignore_connection")
    raises = [n for n in walk_in_order(ghh) if isinstance(n, ast.Raise) and last_attr(n.exc) == "NeedsMoreData"]
    ctx.check(len(raises) == 1, "R19.2", where, "raise NeedsMoreData (incomplete head)", "an incomplete request head no longer defers the decision (decision would depend on segmentation)", desc="_get_host_header raises NeedsMoreData")
    gch = ctx.func(NL, "NextLayer._get_client_hello")
    raises = [n for n in walk_in_order(gch) if isinstance(n, ast.Raise) and last_attr(n.exc) == "NeedsMoreData"]
    ctx.check(len(raises) >= 2, "R19.2", (NL, "NextLayer._get_client_hello", gch), "raise NeedsMoreData (incomplete ClientHello)", "an incomplete ClientHello no longer defers the decision", desc="_get_client_hello raises NeedsMoreData")
    nl = ctx.func(NL, "NextLayer.next_layer")
    handlers = [h for n in walk_in_order(nl) if isinstance(n, ast.Try) for h in n.handlers if h.type is not None and last_attr(h.type) == "NeedsMoreData"]
    sets_layer = any(isinstance(a, ast.Assign) and attr_chain(a.targets[0]) == "nextlayer.layer" for h in handlers for a in ast.walk(h))
    ctx.check(bool(handlers) and not sets_layer, "R19.2", (NL, "NextLayer.next_layer", nl), "except NeedsMoreData: defer", "next_layer decides although more data is needed", desc="next_layer defers on NeedsMoreData")
    ctx.expect_instances("R19.2", 9)

    # ---- R19.3
    bad = 0
    for allow in ("unset", "nomatch", "match"):
        for ignore in ("unset", "nomatch", "match"):
            spec = IgnoreSpec({"allow": allow, "ignore": ignore})
            eng = Engine(spec)
            o = eng.run(ic, State())
            rets = {s.get("$ret") for s in o.ret}
            ctx.cells += 1
            want_v = (allow == "nomatch") or (ignore == "match" and allow != "nomatch") or (ignore == "match")
            want_v = (allow != "unset" and allow == "nomatch") or (ignore == "match")
            vals = {bool(v[1]) if is_const(v) else None for v in rets}
            if vals != {want_v}:
                bad += 1
                ctx.fail("R19.3", wic, f"allow={allow} ignore={ignore}", f"decision is {sorted(map(str, vals))}, reference says {want_v}")
            for opt, elt in spec.search_calls.values():
                okf = norm(elt.func) == "re.search" and any("IGNORECASE" in norm(a) for a in elt.args[2:] + [k.value for k in elt.keywords])
                if not okf:
                    bad += 1
                    ctx.fail("R19.3", wic, f"{norm(elt.func)}(...) for {opt}", "patterns must be applied with re.search and re.IGNORECASE (host names are case-insensitive, patterns are unanchored)")
    if not bad:
        ctx.ok("R19.3", "9 cells equal the reference; both options use re.search(..., re.IGNORECASE)")
    # ---- R19.4
    nlf = ctx.func(NL, "NextLayer._next_layer")
    wnl = (NL, "NextLayer._next_layer", nlf)
    tr, _ = traces_of(nlf, GenericSpec(keep=lambda e: (e[0] == "call" and (e[1] == "self._ignore_connection" or e[1].startswith("self._setup") or e[1] in ("s", "starts_like_tls_record", "self._is_destination_in_hosts"))) or e[0] == "return"))
    ctx.paths += len(tr)
    ok = all(t and t[0] == ("call", "self._ignore_connection") for t, how, s in tr if how == "return")
    ctx.check(ok, "R19.4", wnl, "self._ignore_connection(...) first", "another layer decision is taken before the ignore/allow test (TLS would be intercepted or HTTP parsed for an ignored host)", desc="ignore test dominates every return")
    ifs = [n for n in walk_in_order(nlf) if isinstance(n, ast.If) and "self._ignore_connection" in norm(n.test)]
    ctx.require(len(ifs) == 1, "_next_layer: ignore test not found")
    ret = ifs[0].body[0]
    layers = [c for c in ast.walk(ret) if isinstance(c, ast.Call) and last_attr(c.func) in ("TCPLayer", "UDPLayer")]
    okl = isinstance(ret, ast.Return) and len(layers) == 2 and all(any(k.arg == "ignore" and norm(k.value) == "not ctx.options.show_ignored_hosts" for k in c.keywords) for c in layers)
    ctx.check(okl, "R19.4", wnl, norm(ret), "ignored connections must get a raw TCP/UDP relay layer (hidden unless show_ignored_hosts)", desc="raw relay layer for ignored hosts")

    # ---- R19.5
    rhd = ctx.func(TLS, "ClientTLSLayer.receive_handshake_data")
    wr = (TLS, "ClientTLSLayer.receive_handshake_data", rhd)
    ifs = [n for n in walk_in_order(rhd) if isinstance(n, ast.If) and norm(n.test) == "tls_clienthello.ignore_connection"]
    ctx.require(len(ifs) == 1, "ClientTLSLayer.receive_handshake_data: ignore branch not found")
    br = ifs[0]
    body_text = [norm(s) for s in br.body]
    children = [c for s in br.body for c in ast.walk(s) if isinstance(c, ast.Call) and last_attr(c.func) in ("TCPLayer", "UDPLayer")]
    ctx.check(len(children) == 2 and all(any(k.arg == "ignore" and norm(k.value) == "True" for k in c.keywords) for c in children), "R19.5", wr, "child_layer = TCPLayer/UDPLayer(ignore=True)",
              "the ignore branch must install an ignoring raw relay layer", desc="ignoring child layer")
    fw = [c for s in br.body for c in ast.walk(s) if isinstance(c, ast.Call) and last_attr(c.func) == "DataReceived"]
    ctx.check(len(fw) == 1 and norm(fw[0].args[1]) == "bytes(self.recv_buffer)" and norm(fw[0].args[0]) == "self.context.client", "R19.5", wr, "forward DataReceived(client, bytes(self.recv_buffer))",
              "the bytes received before the decision must be forwarded completely and exactly once", desc="whole buffer forwarded once")
    no_tls = not any(isinstance(c, ast.Call) and last_attr(c.func) in ("start_tls", "start_server_tls") for s in br.body for c in ast.walk(s))
    ctx.check(no_tls and isinstance(br.body[-1], ast.Return), "R19.5", wr, "return before start_tls", "TLS is started for an ignored connection", desc="no TLS on the ignore branch")
    hook_line = [n.lineno for n in walk_in_order(rhd) if isinstance(n, ast.Yield) and isinstance(n.value, ast.Call) and last_attr(n.value.func) == "TlsClienthelloHook"]
    tls_calls = [c.lineno for c in walk_in_order(rhd) if isinstance(c, ast.Call) and last_attr(c.func) in ("start_tls", "start_server_tls")]
    ctx.check(bool(hook_line) and all(l > br.lineno for l in tls_calls), "R19.5", wr, "ignore decision precedes every start_tls", "TLS is started before the ignore decision is consulted", desc="ignore decision before TLS start")
    for rel, cls, msg in ((TCP, "TCPLayer", "tcp"), (UDP, "UDPLayer", "udp")):
        init = ctx.func(rel, f"{cls}.__init__")
        ok = any(isinstance(n, ast.If) and norm(n.test) == "ignore" and norm(n.body[0]) == "self.flow = None" for n in walk_in_order(init))
        ctx.check(ok, "R19.5", (rel, f"{cls}.__init__", init), "ignore -> self.flow = None", "an ignoring layer still records a flow", desc=f"{cls}: ignore means no flow")
        rm = ctx.func(rel, f"{cls}.relay_messages")
        sends = [c for c in walk_in_order(rm) if isinstance(c, ast.Call) and last_attr(c.func) == "SendData"]
        raw = [c for c in sends if norm(c.args[1]) == "event.data" and norm(c.args[0]) == "send_to"]
        under = False
        for c in raw:
            p = c._parent
            while p is not rm:
                if isinstance(p, ast.If) and norm(p.test) == "self.flow" and any(c in list(ast.walk(s)) for s in p.orelse):
                    under = True
                p = p._parent
        ctx.check(len(raw) == 1 and under, "R19.5", (rel, f"{cls}.relay_messages", rm), "flow is None -> SendData(send_to, event.data)", "ignored traffic is not relayed byte-for-byte", desc=f"{cls}: identity relay without flow")
    ctx.expect_instances("R19.5", 8)


MUTANTS = [
    Mutant("host-regex-requires-whitespace", NL, r'rb"\r\n(?:Host:[ \t]*(\S.*?)\s*)?\r\n"', r'rb"\r\n(?:Host:\s+(.+?)\s*)?\r\n"', "R19.1"),
    Mutant("host-regex-space-only", NL, r'rb"\r\n(?:Host:[ \t]*(\S.*?)\s*)?\r\n"', r'rb"\r\n(?:Host: ?(\S.*?)\s*)?\r\n"', "R19.1"),
    Mutant("host-regex-case-sensitive", NL, r'rb"\r\n(?:Host:[ \t]*(\S.*?)\s*)?\r\n", data_client, re.IGNORECASE', r'rb"\r\n(?:Host:[ \t]*(\S.*?)\s*)?\r\n", data_client', "R19.1"),
    Mutant("host-capture-leading-space", NL, r'rb"\r\n(?:Host:[ \t]*(\S.*?)\s*)?\r\n"', r'rb"\r\n(?:Host:(.+?)\s*)?\r\n"', "R19.1"),
    Mutant("sni-source-dropped", NL, '            ) and client_hello.sni:\n                hostnames.append(f"{client_hello.sni}:{port}")\n', "            ) and client_hello.sni:\n                pass\n", "R19.2"),
    Mutant("address-without-port", NL, '            host, port, *_ = context.server.address\n            hostnames.append(f"{host}:{port}")', '            host, port, *_ = context.server.address\n            hostnames.append(f"{host}")', "R19.2"),
    Mutant("incomplete-head-not-deferred", NL, "            else:\n                raise NeedsMoreData\n        else:\n            return None\n\n    @staticmethod\n    def _get_client_hello", "            else:\n                return None\n        else:\n            return None\n\n    @staticmethod\n    def _get_client_hello", "R19.2"),
    Mutant("ignore-hit-not-ignored", NL, "            if ignored:\n                return True\n", "            if ignored:\n                return False\n", "R19.3"),
    Mutant("allow-miss-intercepted", NL, "            not_allowed = not any(", "            not_allowed = any(", "R19.3"),
    Mutant("ignore-anchored-match", NL, "                re.search(rex, host, re.IGNORECASE)\n                for host in hostnames\n                for rex in ctx.options.ignore_hosts", "                re.match(rex, host, re.IGNORECASE)\n                for host in hostnames\n                for rex in ctx.options.ignore_hosts", "R19.3"),
    Mutant("allow-case-sensitive", NL, "                re.search(rex, host, re.IGNORECASE)\n                for host in hostnames\n                for rex in ctx.options.allow_hosts", "                re.search(rex, host)\n                for host in hostnames\n                for rex in ctx.options.allow_hosts", "R19.3"),
    Mutant("reverse-proxy-before-ignore", NL, "        # 1)  check for --ignore/--allow\n", "        if s(modes.ReverseProxy):\n            return self._setup_reverse_proxy(context, data_client)\n", "R19.4"),
    Mutant("ignored-layer-always-shown", NL, "layers.TCPLayer(context, ignore=not ctx.options.show_ignored_hosts)", "layers.TCPLayer(context, ignore=False)", "R19.4"),
    Mutant("ignore-forwards-partial-buffer", TLS, "events.DataReceived(self.context.client, bytes(self.recv_buffer))", "events.DataReceived(self.context.client, bytes(self.recv_buffer[5:]))", "R19.5"),
    Mutant("ignore-branch-starts-tls", TLS, "            self.recv_buffer.clear()\n            return True, None\n        if (\n            tls_clienthello.establish_server_tls_first", "            self.recv_buffer.clear()\n        if (\n            tls_clienthello.establish_server_tls_first", "R19.5"),
    Mutant("tcp-ignore-still-records", TCP, "        if ignore:\n            self.flow = None\n        else:\n            self.flow = tcp.TCPFlow", "        if ignore and False:\n            self.flow = None\n        else:\n            self.flow = tcp.TCPFlow", "R19.5"),
]
