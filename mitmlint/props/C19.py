"""C19 - ignored hosts are passed through untouched and allow/ignore rules are honoured.

All clauses except the regex language (R19.1, NFA) and first-decision dominance (R19.4, path enumeration) are decided by
*interpreting* the repository functions (mitmlint.pyint, AST only - nothing of the repository is imported or run) on a finite, completely
enumerated domain of abstract connections, so the rules compare what the code computes, not how it is written: renamed locals,
temporaries instead of walrus conditions, for-loops instead of any(), early returns, extracted helpers, conditional expressions, added
logging / assertions are all evaluated like the original.

Decided:
  R19.1 the Host-sniffing regex used by NextLayer._get_host_header (found by recording the `re` calls the function makes, wherever the
        pattern literal lives): IGNORECASE, re.search, optional whitespace after "Host:" is really optional (RFC 9110 OWS = *(SP / HTAB)),
        the captured group accepts host[:port] forms and never starts with whitespace, trailing OWS is tolerated, "\\r\\n\\r\\n" (end of
        head, no Host) is accepted - decided on the regex's *language* (sub-pattern NFAs); plus _get_host_header evaluated on every
        legal spelling returns exactly the host.
  R19.2 every one of the five destination sources (server.peername, server.address, Host header, ClientHello SNI over TCP / DTLS / QUIC,
        client.sni) alone decides _ignore_connection, as exactly "host:port" (anchored pattern ^host:port$); an incomplete request head /
        ClientHello raises NeedsMoreData out of _ignore_connection and next_layer then leaves nextlayer.layer unset.
  R19.3 decision table allow {unset, no match, match} x ignore {unset, no match, match}: ignored iff (allow set and nothing matches) or
        (ignore set and something matches); patterns are applied unanchored and case-insensitively, to every (host, pattern) pair.
  R19.4 every returning path of _next_layer has evaluated the ignore test (path enumeration, helpers inlined), and for every proxy-mode
        stack x transport x kind of first bytes an ignored connection gets TCPLayer / UDPLayer by transport, recording no flow unless
        show_ignored_hosts.
  R19.5 ClientTLSLayer.receive_handshake_data with an addon setting ignore_connection in tls_clienthello (ClientHello in one to three
        segments, TLS / DTLS, with / without a ServerTLSLayer parent): no TLS is started, this layer and a ServerTLSLayer parent are
        detached from the real connections, an ignoring TCP/UDP relay is installed *before* exactly one DataReceived(client, <all bytes
        received so far>) is passed down, and the handshake is reported finished; an ignoring TCPLayer / UDPLayer records no flow and
        answers DataReceived(X, data) with exactly SendData(opposite(X), data).
Not decided: end-to-end byte relay over all schedules (C04/C29), capture-group semantics of lazy vs greedy quantifiers, the WireGuard
DNS special case (named assumption: not that mode).
"""

from __future__ import annotations

import ast
import re
from re import _constants as sc  # type: ignore[attr-defined]

from .. import rx
from ..core import AnalysisError
from ..model import attr_chain
from ..paths import GenericSpec
from ..paths import traces_of
from ..pyint import ClassRef
from ..pyint import Func
from ..pyint import Gen
from ..pyint import Interp
from ..pyint import Raised
from ..pyint import Rec
from ..selftest import Mutant
from .C29 import initial_handler

PROP = "C19"
REG = {
    "strength": "partial",
    "technique": "regex sub-language membership (NFA); abstract interpretation (pyint) of _ignore_connection / _get_host_header / _get_client_hello / "
    "next_layer / _next_layer / ClientTLSLayer.receive_handshake_data / TCPLayer / UDPLayer on an enumerated domain; first-decision dominance by path enumeration",
    "claim": "the Host-sniffing regex accepts every OWS form and host form required by RFC 9110; each of the five destination sources alone decides the "
    "ignore/allow test as host:port and incomplete input defers the decision; the allow/ignore decision table equals the reference on all 9 cells with "
    "unanchored case-insensitive matching; the ignore test dominates every other layer decision and selects a raw relay by transport; the TLS passthrough "
    "detaches the TLS layers, forwards all buffered bytes once to an ignoring relay and starts no TLS; ignoring relays record nothing and forward the bytes unchanged.",
    "note": "Regex semantics beyond language (which alternative a backtracking engine prefers) are not decided. ClientHello parsers are stubbed (C16/C17 decide them).",
}

NL = "mitmproxy/addons/next_layer.py"
TLS = "mitmproxy/proxy/layers/tls.py"
TCP = "mitmproxy/proxy/layers/tcp.py"
UDP = "mitmproxy/proxy/layers/udp.py"
CONN = "mitmproxy/connection.py"
EVENTS = "mitmproxy/proxy/events.py"
MODES = "mitmproxy/proxy/layers/modes.py"


# ---------------------------------------------------------------------------------------------------------------------------------
# the abstract world the repository functions are interpreted in


def _parented(tree):
    for n in ast.walk(tree):
        for c in ast.iter_child_nodes(n):
            c._parent = n  # pyint decides "is a generator" through the parent links
    return tree


def _stub_def(src: str):
    return _parented(ast.parse(src)).body[0]


def _stub_lambda(src: str):
    return _parented(ast.parse(src, mode="eval")).body


class _RecordingPattern:
    def __init__(self, log, pat, pattern, flags):
        self._log, self._pat, self.pattern, self.flags = log, pat, pattern, flags

    def _m(self, api, *a, **k):
        self._log.append((api, self.pattern, self.flags))
        return getattr(self._pat, api)(*a, **k)

    def search(self, *a, **k):
        return self._m("search", *a, **k)

    def match(self, *a, **k):
        return self._m("match", *a, **k)

    def fullmatch(self, *a, **k):
        return self._m("fullmatch", *a, **k)


class _RecordingRe:
    """`re` as seen by the interpreted code: the real (trusted) module, every pattern application recorded as (api, pattern, flags)"""

    def __init__(self):
        self.log: list = []

    def __getattr__(self, name):
        return getattr(re, name)

    def _apply(self, api, pattern, *a, flags=0, **k):
        rest = list(a)
        if len(rest) >= 2:
            flags = rest[1]
        if isinstance(pattern, _RecordingPattern):
            return getattr(pattern, api)(*rest[:1])
        self.log.append((api, pattern, int(flags)))
        return getattr(re, api)(pattern, *rest[:1], flags=flags, **k)

    def search(self, pattern, *a, **k):
        return self._apply("search", pattern, *a, **k)

    def match(self, pattern, *a, **k):
        return self._apply("match", pattern, *a, **k)

    def fullmatch(self, pattern, *a, **k):
        return self._apply("fullmatch", pattern, *a, **k)

    def compile(self, pattern, flags=0):
        return _RecordingPattern(self.log, re.compile(pattern, flags), pattern, int(flags))


class _Uuid:
    @staticmethod
    def uuid4():
        return "00000000-0000-0000-0000-000000000000"


class _Time:
    @staticmethod
    def time():
        return 1.0


class _Interp(Interp):
    """pyint plus the introspection attributes harmless edits use (`type(self).__name__` in a log line / label)"""

    def getattr(self, base, attr, node, depth):
        if isinstance(base, ClassRef) and attr in ("__name__", "__qualname__"):
            return base.node.name
        if isinstance(base, Rec) and base._cls == "Logger" and attr not in base.__dict__:
            return base.__dict__["debug"]  # any other logging.Logger method: accepts everything, returns None (falsy: isEnabledFor -> not enabled)
        if isinstance(base, Rec) and attr == "__class__" and base._impl is not None and "__class__" not in base.__dict__:
            return ClassRef(self.model.module(base._impl[0]), self.model.cls(*base._impl))
        return Interp.getattr(self, base, attr, node, depth)

    def native_call(self, f, args, kwargs, where):
        try:
            return Interp.native_call(self, f, args, kwargs, where)
        except Raised as r:
            # an interpreted exception that escapes from an interpreted generator while a native consumer (list(), dict.fromkeys(), any())
            # drains it is re-wrapped by pyint as Raised('Raised'): restore the original
            if r.name == "Raised" and isinstance(r.__context__, Raised):
                raise r.__context__ from None
            raise


class World:
    """One interpreter + the stubs that stand for everything outside the clauses decided here."""

    def __init__(self, model, ignore=(), allow=(), show=False, hello=None):
        import collections

        self.model = model
        self.re = _RecordingRe()
        anything = Func(model.module(NL), _stub_lambda("lambda *a, **k: None"))
        self.logger = Rec("Logger", _name="logger", **{n: anything for n in ("debug", "info", "warning", "warn", "error", "exception", "critical", "log")})
        logging = Rec("logging", _name="logging", DEBUG=10, INFO=20, WARNING=30, WARN=30, ERROR=40, CRITICAL=50,
                      getLogger=Func(model.module(NL), _stub_lambda("lambda *a, **k: L"), closure={"L": self.logger}))
        self.it = it = _Interp(model, trusted_modules={"re": self.re, "logging": logging, "collections": collections, "uuid": _Uuid, "time": _Time}, max_steps=200000)
        self.options = Rec("Options", _name="options", ignore_hosts=list(ignore), allow_hosts=list(allow), show_ignored_hosts=show)
        it.overrides[(NL, "ctx")] = Rec("ctx", options=self.options)
        it.overrides[("mitmproxy/ctx.py", "options")] = self.options
        self.hello = hello  # what the (stubbed) ClientHello parsers return: None = incomplete, "invalid" = ValueError, else the ClientHello
        self.parsed: list = []

        def parser(kind):
            def parse(data):
                self.parsed.append((kind, bytes(data[0]) if isinstance(data, list) else bytes(data)))
                h = self.hello(kind, data) if callable(self.hello) else self.hello
                if h == "invalid":
                    raise ValueError("invalid ClientHello")
                return h

            return parse

        kinds = {"parse_client_hello": "tls", "dtls_parse_client_hello": "dtls", "quic_parse_client_hello_from_datagrams": "quic"}
        for rel in (NL, TLS, "mitmproxy/proxy/layers/quic/_client_hello_parser.py", "mitmproxy/proxy/layers/quic/__init__.py"):
            for name, kind in kinds.items():
                it.overrides[(rel, name)] = parser(kind)
            if model.exists(rel):
                for alias, target in model.module(rel).imports.items():  # `from ...tls import parse_client_hello as _parse`
                    if target.rsplit(".", 1)[-1] in kinds and target.startswith("mitmproxy."):
                        it.overrides[(rel, alias)] = parser(kinds[target.rsplit(".", 1)[-1]])
        # flows: only "is there one" matters here
        flow = Func(model.module(TCP), _stub_lambda("lambda *a, **k: 'FLOW'"))
        for rel, name in (("mitmproxy/tcp.py", "TCPFlow"), (TCP, "TCPFlow"), ("mitmproxy/udp.py", "UDPFlow"), (UDP, "UDPFlow")):
            it.overrides[(rel, name)] = flow

    # -- abstract objects
    def context(self, proto="tcp", stack=("TransparentProxy",), peername=None, address=None, client_sni=None):
        common = dict(error=None, tls=False, certificate_list=(), alpn=None, alpn_offers=[], cipher=None, cipher_list=(), tls_version=None, timestamp_end=None,
                      timestamp_tls_setup=None, transport_protocol=proto, state=3)
        client = Rec("Client", _bases=("Connection",), _name="client", _impl=(CONN, "Client"), id="client-id", peername=("198.51.100.9", 51234), sockname=("192.0.2.1", 8080),
                     sni=client_sni, proxy_mode=Rec("RegularMode", _bases=("ProxyMode",)), mitmcert=None, timestamp_start=1.0, **common)
        server = Rec("Server", _bases=("Connection",), _name="server", _impl=(CONN, "Server"), id="server-id", peername=peername, address=address, sockname=None, sni=None,
                     timestamp_start=1.0, timestamp_tcp_setup=1.0, via=None, **common)
        return Rec("Context", _name="context", client=client, server=server, layers=[Rec(n, _bases=("Layer",), _name=n) for n in stack], options=Rec("Options"))

    def next_layer_addon(self):
        return Rec("NextLayer", _name="addon", _impl=(NL, "NextLayer"))

    def new(self, rel, cls, *args, **kwargs):
        return self.it.apply(ClassRef(self.model.module(rel), self.model.cls(rel, cls)), list(args), kwargs, 0)

    def drive(self, gen, stop=None):
        """run an interpreted generator to its end: (yielded values, return value); ``stop(value)`` true ends the run early"""
        if not isinstance(gen, Gen):
            return [], gen
        ys, k = [], 0
        while True:
            kind, v = self.it.run_gen_until(gen, k)
            if kind == "stop":
                return ys, v
            ys.append(v)
            if stop is not None and stop(v):
                return ys, "<stopped>"
            k += 1
            if k > 50:
                raise AnalysisError("C19: interpreted generator yields without end")


def _raised(e: Raised, what: str, expected=("NeedsMoreData",)) -> str:
    """an exception of the interpreted code: NeedsMoreData is part of the decided behaviour; anything else in the abstract evaluation is an
    unmodelled situation (exit 2), never a verdict"""
    if e.name in expected:
        return f"raises {e.name}"
    raise AnalysisError(f"C19: {what} raises {e.name} ({e.msg}) in the abstract evaluation - not modelled")


def _is(v, cls: str) -> bool:
    return isinstance(v, Rec) and v.isa(cls)


# first bytes
HTTP_HEAD = b"GET /index.html HTTP/1.1\r\nUser-Agent: x\r\nHost: %s\r\nAccept: */*\r\n\r\n"
TLS_RECORD = b"\x16\x03\x01\x00\x2e\x01\x00\x00\x2a\x03\x03" + b"\x00" * 40
DTLS_RECORD = b"\x16\xfe\xfd\x00\x00\x00\x00\x00\x00\x00\x00\x00\x2e\x01" + b"\x00" * 40
QUIC_INITIAL = b"\xc3\x00\x00\x00\x01\x08" + b"\x11" * 40
RAW_BYTES = b"\x00\x01\x02binary\x00"


def _find_group(items, group):
    """Locate (sequence, index) of SUBPATTERN #group inside a parsed regex item sequence."""
    items = list(items)
    for i, (op, av) in enumerate(items):
        if op is sc.SUBPATTERN:
            if av[0] == group:
                return items, i
            r = _find_group(av[3], group)
            if r:
                return r
        elif op in (sc.MAX_REPEAT, sc.MIN_REPEAT):
            r = _find_group(av[2], group)
            if r:
                return r
        elif op is sc.BRANCH:
            for alt in av[1]:
                r = _find_group(alt, group)
                if r:
                    return r
    return None


def _decide(w: World, context, data_client=b"", data_server=b""):
    """_ignore_connection on the abstract connection: True / False / 'raises <Exc>'"""
    try:
        r = w.it.method(w.next_layer_addon(), "_ignore_connection", context, data_client, data_server)
    except Raised as e:
        return _raised(e, "_ignore_connection")
    if r is True or r is False:
        return r
    if r is None:
        return False  # bool | None: falsy = not ignored
    raise AnalysisError(f"_ignore_connection returned {r!r} (neither bool nor None)")


# ---------------------------------------------------------------------------------------------------------------------------------


def r191(ctx):
    m = ctx.model
    ghh = ctx.func(NL, "NextLayer._get_host_header")
    where = (NL, "NextLayer._get_host_header", ghh)
    # which regex does the function apply to the request head?  (recorded, so the literal may live in a constant or helper)
    w = World(m)
    cx = w.context(address=("192.0.2.1", 80))
    try:
        got = w.it.method(w.next_layer_addon(), "_get_host_header", cx, HTTP_HEAD % b"example.com", b"")
    except Raised as e:
        raise AnalysisError(f"_get_host_header raises {e.name} on a complete request head")
    pats = [(api, p, f) for api, p, f in w.re.log if b"host" in (p if isinstance(p, bytes) else str(p).encode()).lower()]
    pats = list(dict.fromkeys(pats))
    ctx.require(len(pats) == 1, f"_get_host_header: expected one Host-sniffing regex to be applied, saw {len(pats)}: {pats}")
    api, pat, flags = pats[0]
    ctx.check(bool(flags & re.IGNORECASE), "R19.1", where, "Host regex flags", "header names are case-insensitive: the regex is used without re.IGNORECASE", desc="IGNORECASE")
    ctx.check(api == "search", "R19.1", where, f"re.{api}", "the Host header is not at the start of the head: re.search is required", desc="re.search")
    tree = rx.parse(pat, flags)
    found = _find_group(tree, 1)
    ctx.require(found is not None, "Host regex has no capture group 1")
    seq, gi = found
    # items between the literal ':' and the group
    colon = max((i for i, (op, av) in enumerate(seq[:gi]) if op is sc.LITERAL and av == ord(":")), default=None)
    ctx.require(colon is not None, "Host regex: no literal ':' before the capture group")
    name_nfa = rx.nfa_of(pat, flags, items=seq[:colon])
    ctx.check(name_nfa.accepts(b"Host") and name_nfa.accepts(b"host") and name_nfa.accepts(b"HOST") and not name_nfa.accepts(b"Hos") and not name_nfa.accepts(b"X-Host"), "R19.1", where, "field name",
              "the field-name part does not accept exactly Host in any case", desc="field name language")
    between = rx.nfa_of(pat, flags, items=seq[colon + 1 : gi])
    for s in (b"", b" ", b"\t", b"  ", b" \t"):
        ctx.check(between.accepts(s), "R19.1", where, f"OWS {s!r} after 'Host:'", f"optional whitespace {s!r} between 'Host:' and the value is not accepted (RFC 9110: OWS is optional) => the Host header is not seen and ignore/allow rules are bypassed",
                  desc=f"OWS {s!r}")
    group = rx.nfa_of(pat, flags, items=seq[gi][1][3])
    for s in (b"example.com", b"a", b"example.com:8080", b"[::1]:443", b"EXAMPLE.COM", b"xn--bcher-kva.example"):
        ctx.check(group.accepts(s), "R19.1", where, f"host form {s!r}", "the capture group rejects a legal Host value", desc=f"host {s!r}")
    for s in (b"", b" example.com", b"\texample.com"):
        ctx.check(not group.accepts(s), "R19.1", where, f"capture {s!r}", "the capture group accepts an empty value or leading whitespace (host compared with stray whitespace)", desc=f"capture rejects {s!r}")
    after = rx.nfa_of(pat, flags, items=seq[gi + 1 :])
    for s in (b"", b" ", b" \t"):
        ctx.check(after.accepts(s), "R19.1", where, f"trailing OWS {s!r}", "trailing optional whitespace after the Host value is not tolerated", desc=f"trailing OWS {s!r}")
    whole = rx.nfa_of(pat, flags)
    for s in (b"\r\nHost:example.com\r\n", b"\r\nhost: example.com \r\n", b"\r\nHOST:\texample.com\r\n", b"\r\n\r\n"):
        ctx.check(whole.accepts(s), "R19.1", where, f"whole pattern on {s!r}", "a header line in a legal spelling (or the end of the head) is not matched", desc=f"whole {s!r}")
    # the function itself, on every legal spelling of the header line
    bad = []
    n = 0
    for line in (b"Host: example.com", b"Host:example.com", b"host:\texample.com", b"HOST:  example.com  ", b"hOsT: example.com\t"):
        head = b"POST /x HTTP/1.1\r\nA: b\r\n" + line + b"\r\nC: d\r\n\r\n"
        try:
            r = World(m).it.method(w.next_layer_addon(), "_get_host_header", cx, head, b"")
        except Raised as e:
            r = _raised(e, "_get_host_header")
        n += 1
        if r != "example.com":
            bad.append((line, r))
    try:
        none = World(m).it.method(w.next_layer_addon(), "_get_host_header", cx, b"GET / HTTP/1.0\r\n\r\nHost: late.example\r\n", b"")
    except Raised as e:
        none = _raised(e, "_get_host_header")
    ctx.cells += n + 2
    ctx.check(got == "example.com" and not bad, "R19.1", where, "_get_host_header(<head with a Host line in any legal spelling>)",
              f"the host is not extracted exactly: {bad or got!r}", desc=f"_get_host_header returns the bare host for {n + 1} spellings")
    ctx.check(none is None, "R19.1", where, "_get_host_header(<head without Host>)", f"a head that ends before any Host line yields {none!r} instead of None", desc="no Host before the end of the head -> None")
    ctx.expect_instances("R19.1", 24)


SOURCES = ("context.server.peername", "context.server.address", "Host header", "Host header with explicit port", "ClientHello SNI (TLS)", "ClientHello SNI (DTLS)",
           "ClientHello SNI (QUIC)", "context.client.sni")


def _source_case(w: World, source: str, host: str, port: int):
    """(context, data_client) in which ONLY ``source`` names host (the connection's port is ``port``)"""
    hello = Rec("ClientHello", _name="hello", sni=host, alpn_protocols=[])
    other = ("192.0.2.7", port)
    if source == "context.server.peername":
        return w.context(peername=(host, port)), b""
    if source == "context.server.address":
        return w.context(address=(host, port)), b""
    if source == "Host header":
        return w.context(address=other), HTTP_HEAD % host.encode()
    if source == "Host header with explicit port":
        return w.context(address=("192.0.2.7", 9)), HTTP_HEAD % f"{host}:{port}".encode()
    if source == "ClientHello SNI (TLS)":
        w.hello = hello
        return w.context(address=other), TLS_RECORD
    if source == "ClientHello SNI (DTLS)":
        w.hello = hello
        return w.context(proto="udp", address=other), DTLS_RECORD
    if source == "ClientHello SNI (QUIC)":
        w.hello = hello
        return w.context(proto="udp", address=other), QUIC_INITIAL
    if source == "context.client.sni":
        return w.context(address=other, client_sni=host), b""
    raise AssertionError(source)


def r192(ctx):
    m = ctx.model
    ic = ctx.func(NL, "NextLayer._ignore_connection")
    wic = (NL, "NextLayer._ignore_connection", ic)
    ctx.func(NL, "NextLayer._get_client_hello")
    nl = ctx.func(NL, "NextLayer.next_layer")
    for k, source in enumerate(SOURCES):
        host, port = f"src-{k}.example", 1000 + k
        res = {}
        for opt in ("ignore", "allow"):
            # the pattern names exactly host:port, so the source must reach the comparison, spelled "host:port"
            w = World(m, **{opt: [rf"^src-{k}\.example:{port}$"]})
            cx, data = _source_case(w, source, host, port)
            res[opt] = _decide(w, cx, data)
            if "ClientHello" in source and not w.parsed:
                raise AnalysisError(f"R19.2: the ClientHello parser stub was not reached for {source} (first bytes no longer recognised?)")
            ctx.cells += 1
        ok = res == {"ignore": True, "allow": False}
        ctx.check(ok, "R19.2", wic, f"source {source}",
                  f"a destination named only by {source} (as host:port) does not decide the ignore/allow test: ignore_hosts=^host:port$ -> {res['ignore']}, allow_hosts=^host:port$ -> "
                  f"{res['allow']} (expected True / False): a connection identified only by it escapes the rules", desc=f"source {source} decides as host:port")
    # NeedsMoreData: incomplete input defers
    cases = [
        ("incomplete request head", "tcp", HTTP_HEAD[:40], None),
        ("incomplete ClientHello (TLS)", "tcp", TLS_RECORD, None),
        ("incomplete ClientHello (DTLS)", "udp", DTLS_RECORD, None),
        ("incomplete ClientHello (QUIC)", "udp", QUIC_INITIAL, None),
    ]
    for name, proto, data, hello in cases:
        w = World(m, ignore=[r"never\.example"], hello=hello)
        cx = w.context(proto=proto, address=("192.0.2.7", 443))
        r = _decide(w, cx, data)
        ctx.cells += 1
        ctx.check(r == "raises NeedsMoreData", "R19.2", wic, f"{name} -> NeedsMoreData",
                  f"with {name} the decision is {r!r} instead of being deferred (it would depend on how the first bytes are segmented)", desc=f"{name} defers")
        # ... and next_layer leaves the decision open
        w = World(m, ignore=[r"never\.example"], hello=hello)
        cx = w.context(proto=proto, address=("192.0.2.7", 443))
        nxt = Rec("NextLayerHook", _name="nextlayer", layer=None, context=cx, data_client=lambda d=data: d, data_server=lambda: b"")
        try:
            w.it.method(w.next_layer_addon(), "next_layer", nxt)
            out = nxt.layer
        except Raised as e:
            out = _raised(e, "next_layer")
        ctx.check(out is None, "R19.2", (NL, "NextLayer.next_layer", nl), f"next_layer defers on {name}", f"next_layer ends with nextlayer.layer = {out!r} although more data is needed",
                  desc=f"next_layer leaves the layer unset on {name}")
    # a ClientHello that cannot be parsed is no reason to wait
    w = World(m, ignore=[r"never\.example"], hello="invalid")
    r = _decide(w, w.context(address=("192.0.2.7", 443)), TLS_RECORD)
    ctx.check(r is False, "R19.2", wic, "unparseable ClientHello -> decide without SNI", f"an unparseable ClientHello gives {r!r}", desc="unparseable ClientHello: decided on the other sources")
    ctx.expect_instances("R19.2", len(SOURCES) + 9)


def r193(ctx):
    m = ctx.model
    ic = ctx.func(NL, "NextLayer._ignore_connection")
    wic = (NL, "NextLayer._ignore_connection", ic)
    pats = {"unset": [], "nomatch": [r"other\.org"], "match": [r"dest\.example"]}
    bad = 0
    for allow in ("unset", "nomatch", "match"):
        for ignore in ("unset", "nomatch", "match"):
            w = World(m, ignore=pats[ignore], allow=pats[allow])
            got = _decide(w, w.context(address=("dest.example", 443)))
            want = (allow == "nomatch") or (ignore == "match")
            ctx.cells += 1
            if got is not want:
                bad += 1
                ctx.fail("R19.3", wic, f"allow={allow} ignore={ignore}", f"decision is {got}, reference says {want}")
    # how patterns are applied: unanchored, case-insensitive, any (host, pattern) pair
    two = dict(peername=("203.0.113.5", 443), address=("Sub.Dest.Example", 443))
    cases = [
        ("ignore pattern in the middle of the name, other case", dict(ignore=[r"B\.DEST\.exam"]), dict(address=("Sub.Dest.Example", 443)), True),
        ("allow pattern in the middle of the name, other case", dict(allow=[r"B\.DEST\.exam"]), dict(address=("Sub.Dest.Example", 443)), False),
        ("second ignore pattern matches second host", dict(ignore=[r"nothing\.test", r"^sub\.dest\.example:443$"]), two, True),
        ("second allow pattern matches second host", dict(allow=[r"nothing\.test", r"^sub\.dest\.example:443$"]), two, False),
        ("first allow pattern matches first host only", dict(allow=[r"^203\.0\.113\.5:443$", r"nothing\.test"]), two, False),
        ("allowed but also ignored", dict(allow=[r"dest\.example"], ignore=[r"^sub\."]), dict(address=("sub.dest.example", 443)), True),
        ("no destination known", dict(ignore=[r".*"]), dict(), False),
    ]
    for name, opts, conn, want in cases:
        w = World(m, **opts)
        got = _decide(w, w.context(**conn))
        ctx.cells += 1
        if got is not want:
            bad += 1
            ctx.fail("R19.3", wic, name, f"decision is {got}, expected {want}: patterns must be searched (unanchored, re.IGNORECASE) in every collected host:port")
    if not bad:
        ctx.ok("R19.3", "9 cells equal the reference; patterns are applied unanchored, case-insensitively, to every (host, pattern) pair")


STACKS = (("ReverseProxy",), ("HttpProxy",), ("HttpUpstreamProxy",), ("TransparentProxy",), ("Socks5Proxy",), ("HttpProxy", "HttpLayer"), ("TransparentProxy", "ServerTLSLayer", "ClientTLSLayer"))


def r194_paths(ctx):
    nlf = ctx.func(NL, "NextLayer._next_layer")
    wnl = (NL, "NextLayer._next_layer", nlf)
    m = ctx.model
    cls = m.cls(NL, "NextLayer")
    methods = {f.name: f for f in cls.body if isinstance(f, ast.FunctionDef)}

    def calls_test(fn, seen=()):
        for n in ast.walk(fn):
            if isinstance(n, ast.Call) and attr_chain(n.func).startswith("self."):
                name = attr_chain(n.func)[5:]
                if name == "_ignore_connection":
                    return True
                if name in methods and name not in seen and calls_test(methods[name], seen + (name,)):
                    return True
        return False

    def resolver(call):
        ch = attr_chain(call.func)
        if ch.startswith("self.") and ch[5:] in methods and ch[5:] != "_ignore_connection" and calls_test(methods[ch[5:]], (ch[5:],)):
            return methods[ch[5:]]
        return None

    tr, _ = traces_of(nlf, GenericSpec(keep=lambda e: e == ("call", "self._ignore_connection"), resolver=resolver))
    ctx.paths += len(tr)
    rets = [t for t, how, s in tr if how == "return"]
    ctx.require(rets, "_next_layer: no returning path found")
    ok = all(("call", "self._ignore_connection") in t for t in rets)
    ctx.check(ok, "R19.4", wnl, "self._ignore_connection(...) first", "another layer decision is taken before the ignore/allow test (TLS would be intercepted or HTTP parsed for an ignored host)",
              desc="the ignore test is evaluated on every returning path")


def r194_matrix(ctx):
    m = ctx.model
    nlf = ctx.func(NL, "NextLayer._next_layer")
    wnl = (NL, "NextLayer._next_layer", nlf)
    for name in {n for st in STACKS for n in st}:
        if not any(m.has(rel, name) for rel in (MODES, TLS, "mitmproxy/proxy/layers/http/__init__.py")):
            raise AnalysisError(f"R19.4: layer class {name} of the evaluated stacks is unknown")
    bad = {}
    n = 0
    for stack in STACKS:
        for proto, relay, datas in (("tcp", "TCPLayer", (TLS_RECORD, HTTP_HEAD % b"x.example", RAW_BYTES, b"")), ("udp", "UDPLayer", (DTLS_RECORD, QUIC_INITIAL, RAW_BYTES))):
            for data in datas:
                for show in (False, True):
                    w = World(m, ignore=[r"^dest\.example:443$"], show=show, hello=Rec("ClientHello", sni="x.example", alpn_protocols=[]))
                    cx = w.context(proto=proto, stack=stack, address=("dest.example", 443))
                    try:
                        layer = w.it.method(w.next_layer_addon(), "_next_layer", cx, data, b"")
                    except Raised as e:
                        layer = _raised(e, "_next_layer")
                    n += 1
                    got = ((layer._cls, "flow" if layer.__dict__.get("flow", "FLOW") is not None else "no flow") if isinstance(layer, Rec) else layer)
                    want = (relay, "flow" if show else "no flow")
                    if got != want:
                        bad.setdefault((got, want), (stack, proto, data[:12], show))
    ctx.cells += n
    for (got, want), (stack, proto, data, show) in bad.items():
        what = "relay layer" if got[0] == want[0] else "layer"
        ctx.fail("R19.4", wnl, f"ignored connection -> {want[0]}, {want[1]} (show_ignored_hosts={show})",
                 f"for an ignored {proto} connection below {'/'.join(stack)} (first bytes {data!r}, show_ignored_hosts={show}) _next_layer yields {what} {got}: "
                 "ignored connections must get a raw TCP/UDP relay by transport, hidden unless show_ignored_hosts")
    if not bad:
        ctx.ok("R19.4", f"ignored connection -> TCPLayer/UDPLayer by transport, flow only with show_ignored_hosts ({n} stack x transport x first-bytes x option cases)")


# ---- R19.5


def _tls_passthrough(ctx, w: World, is_dtls: bool, parent_tls: bool, chunks):
    """ClientTLSLayer.receive_handshake_data with an addon that sets ignore_connection in tls_clienthello.
    -> list of problems (strings)"""
    m = ctx.model
    it = w.it
    full = b"".join(chunks)
    mod = m.module(TLS)
    hello = Rec("ClientHello", _name="hello", sni="sni.example", alpn_protocols=[])
    w.hello = lambda kind, data: hello if bytes(data) == full else None
    # the addon: sets data.ignore_connection while the hook is being handled
    it.overrides[(TLS, "TlsClienthelloHook")] = Func(mod, _stub_lambda('lambda data: (setattr(data, "ignore_connection", True), setattr(data, "_seen_by_addon", True), ("$hook", data))[2]'))
    for rel in (CONN, TLS):
        it.overrides[(rel, "Client")] = lambda **kw: Rec("Client", _name="detached-client", **kw)
        it.overrides[(rel, "Server")] = lambda **kw: Rec("Server", _name="detached-server", **kw)
    cx = w.context(proto="udp" if is_dtls else "tcp", stack=("TransparentProxy",), address=("dest.example", 443))
    client, server = cx.client, cx.server
    parent = Rec("ServerTLSLayer" if parent_tls else "HttpLayer", _name="parent", conn=server, tunnel_connection=server, context=cx)
    cx.layers.append(parent)
    me = Rec("ClientTLSLayer", _name="client_tls", _impl=(TLS, "ClientTLSLayer"), context=cx, conn=client, tunnel_connection=client, client_hello_parsed=False,
             recv_buffer=bytearray(), debug=None, child_layer=Rec("NextLayer", _name="undecided child"), server_tls_available=parent_tls, tls=None)
    object.__setattr__(me, "is_dtls", is_dtls)
    cx.layers.append(me)
    me.event_to_child = Func(mod, _stub_def("def event_to_child(self, event):\n    yield ('$to_child', event, self.child_layer, self.conn, self.tunnel_connection)\n"), bound=me)
    me.start_tls = Func(mod, _stub_def("def start_tls(self):\n    yield ('$tls', 'start_tls')\n"), bound=me)
    me.start_server_tls = Func(mod, _stub_def("def start_server_tls(self):\n    yield ('$tls', 'start_server_tls')\n"), bound=me)
    problems = []
    ys, ret = [], None
    for i, chunk in enumerate(chunks):
        try:
            ys, ret = w.drive(it.method(me, "receive_handshake_data", chunk), stop=lambda v: isinstance(v, tuple) and v and v[0] == "$tls")
        except Raised as e:
            raise AnalysisError(f"R19.5: receive_handshake_data raises {e.name} ({e.msg}) on segment {i + 1} in the abstract evaluation - not modelled")
        if i < len(chunks) - 1:
            if ys or ret != (False, None):
                raise AnalysisError(f"R19.5: an incomplete ClientHello segment yields {ys} / returns {ret!r} (expected to wait)")
    tls = [v for v in ys if isinstance(v, tuple) and v and v[0] == "$tls"]
    if tls:
        return [f"TLS is started ({tls[0][1]}) although the addon set ignore_connection"]
    hooks = [v for v in ys if isinstance(v, tuple) and v and v[0] == "$hook"]
    if len(hooks) != 1 or not hooks[0][1].__dict__.get("_seen_by_addon"):
        raise AnalysisError(f"R19.5: the tls_clienthello hook stub was not reached exactly once: {ys}")
    fw = [v for v in ys if isinstance(v, tuple) and v and v[0] == "$to_child"]
    other = [v for v in ys if not (isinstance(v, tuple) and v and v[0] in ("$hook", "$to_child")) and not _is(v, "Log")]
    if other:
        problems.append(f"unexpected command {other[0]!r} on the passthrough path")
    want_relay = "UDPLayer" if is_dtls else "TCPLayer"
    if len(fw) != 1:
        problems.append(f"{len(fw)} events are passed to the child layer (expected exactly one DataReceived with everything received so far)")
    for _, ev, child, conn, tconn in fw:
        if not _is(ev, "DataReceived") or ev.__dict__.get("connection") is not client:
            problems.append(f"the replayed event is {ev!r} for {ev.__dict__.get('connection')!r}, not DataReceived for the client connection")
        elif bytes(ev.data) != full:
            problems.append(f"the bytes received before the decision are not forwarded completely and exactly once: {bytes(ev.data)!r} instead of all {len(full)} bytes {full!r}")
        if not _is(child, want_relay) or child.__dict__.get("flow", "FLOW") is not None:
            problems.append(f"when the buffered bytes are replayed the child layer is {child!r} (flow={child.__dict__.get('flow', 'FLOW') if isinstance(child, Rec) else '?'}), not an ignoring {want_relay}")
        if conn is client or tconn is client:
            problems.append("when the buffered bytes are replayed this TLS layer is still attached to the real client connection (the bytes would be fed to TLS again)")
    if ret != (True, None):
        problems.append(f"receive_handshake_data returns {ret!r} instead of (True, None): the tunnel keeps waiting for handshake data")
    child = me.__dict__.get("child_layer")
    if not _is(child, want_relay) or child.__dict__.get("flow", "FLOW") is not None:
        problems.append(f"the installed child layer is {child!r}, not an ignoring {want_relay}")
    if me.conn is client or me.tunnel_connection is client:
        problems.append("ClientTLSLayer stays attached to the real client connection: later client bytes are fed to TLS instead of being relayed")
    if parent_tls and (parent.conn is server or parent.tunnel_connection is server):
        problems.append("the parent ServerTLSLayer stays attached to the real server connection: the relay's OpenConnection / server bytes go through TLS")
    if not parent_tls and (parent.conn is not server or parent.tunnel_connection is not server):
        problems.append("a parent layer that is no ServerTLSLayer is detached from the server connection")
    return problems


def r195_tls(ctx):
    rhd = ctx.func(TLS, "ClientTLSLayer.receive_handshake_data")
    wr = (TLS, "ClientTLSLayer.receive_handshake_data", rhd)
    rec = TLS_RECORD[:30]
    seen = {}
    n = 0
    for is_dtls in (False, True):
        for parent_tls in (True, False):
            for chunks in ([rec], [rec[:5], rec[5:]], [rec[:1], rec[1:9], rec[9:]]):
                w = World(ctx.model)
                for p in _tls_passthrough(ctx, w, is_dtls, parent_tls, chunks):
                    seen.setdefault(p, (is_dtls, parent_tls, len(chunks)))
                n += 1
    ctx.cells += n
    for p, (is_dtls, parent_tls, k) in seen.items():
        ctx.fail("R19.5", wr, "ignore_connection passthrough: " + re.sub(r"b'.*?'|\d+ bytes", "..", p)[:110],
                 f"{p} ({'DTLS' if is_dtls else 'TLS'}, parent {'ServerTLSLayer' if parent_tls else 'other'}, ClientHello in {k} segment(s))")
    if not seen:
        for d in ("no TLS is started", "TLS layers detached from the real connections", "ignoring TCP/UDP relay installed before the replay", "whole buffer replayed exactly once", "handshake reported finished"):
            ctx.ok("R19.5", f"ignore_connection passthrough: {d} ({n} cases)")


def r195_relay(ctx):
    m = ctx.model
    for rel, cls in ((TCP, "TCPLayer"), (UDP, "UDPLayer")):
        init = ctx.func(rel, f"{cls}.__init__")
        w = World(m)
        cx = w.context(proto="tcp" if cls == "TCPLayer" else "udp", address=("dest.example", 443))
        client, server = cx.client, cx.server
        try:
            layer = w.new(rel, cls, cx, ignore=True)
            shown = w.new(rel, cls, w.context(address=("dest.example", 443)), ignore=False)
        except Raised as e:
            raise AnalysisError(f"{cls}(context, ignore=...) raises {e.name}")
        ctx.check(layer.__dict__.get("flow", "FLOW") is None and shown.__dict__.get("flow") is not None, "R19.5", (rel, f"{cls}.__init__", init), "ignore -> self.flow = None",
                  f"{cls}(ignore=True).flow = {layer.__dict__.get('flow', '<unset>')!r}, {cls}(ignore=False).flow = {shown.__dict__.get('flow', '<unset>')!r}: an ignoring layer must not record a flow",
                  desc=f"{cls}: ignore means no flow")
        # drive the ignoring layer: Start, then data in both directions
        h0 = initial_handler(m, rel, cls)
        ctx.func(rel, f"{cls}.{h0}")
        try:
            ys, _ = w.drive(w.it.method(layer, h0, w.new(EVENTS, "Start")))
        except Raised as e:
            raise AnalysisError(f"{cls}.{h0}(Start) raises {e.name} in ignore mode")
        relay = layer.__dict__.get("_handle_event")
        ctx.require(isinstance(relay, Func) and not [y for y in ys if not _is(y, "Log")], f"{cls}: Start in ignore mode with a connected server yields {ys} / leaves _handle_event = {relay!r}")
        where = (rel, f"{cls}.{relay.node.name}", relay.node)
        ctx.functions.add(f"{rel}::{cls}.{relay.node.name}")
        bad = []
        for src, dst, name in ((client, server, "client"), (server, client, "server")):
            for data in (b"\x16\x03\x01 opaque \x00\xff bytes", b""):
                try:
                    ys, _ = w.drive(w.it.apply(layer.__dict__["_handle_event"], [w.new(EVENTS, "DataReceived", src, data)], {}, 0))
                except Raised as e:
                    raise AnalysisError(f"R19.5: {cls} in ignore mode raises {e.name} ({e.msg}) on data from the {name} in the abstract evaluation - not modelled")
                cmds = [y for y in ys if not _is(y, "Log")]
                ok = len(cmds) == 1 and _is(cmds[0], "SendData") and cmds[0].__dict__.get("connection") is dst and cmds[0].__dict__.get("data") == data and type(cmds[0].data) is bytes
                if not ok:
                    bad.append(f"DataReceived({name}, {data!r}) -> {[(c._cls, getattr(c.__dict__.get('connection'), '_name', '?'), c.__dict__.get('data')) if isinstance(c, Rec) else c for c in cmds]}")
                ctx.cells += 1
        ctx.check(not bad, "R19.5", where, "flow is None -> SendData(send_to, event.data)", f"ignored traffic is not relayed byte-for-byte to the other peer: {bad[:2]}",
                  desc=f"{cls}: identity relay without flow (both directions)")


def check(ctx):
    ctx.exhaustive = True
    ctx.bounds.append("the abstract domains (destination sources, allow/ignore table, mode stacks x transports x first bytes, ClientHello segmentations) are enumerated completely; "
                      "loops unrolled once in the dominance path enumeration")
    ctx.rule("R19.1", "Host-sniffing regex: OWS optional, host forms accepted, no leading whitespace in the capture, IGNORECASE; _get_host_header returns the bare host")
    ctx.rule("R19.2", "each of the five destination sources alone decides as host:port; incomplete head / ClientHello raises NeedsMoreData and next_layer defers")
    ctx.rule("R19.3", "allow/ignore decision table == reference; patterns searched unanchored and case-insensitively in every host:port")
    ctx.rule("R19.4", "ignore test is evaluated before every return of _next_layer and selects a raw relay by transport, hidden unless show_ignored_hosts")
    ctx.rule("R19.5", "ignore paths relay the original bytes and never start TLS")
    ctx.assume("not the WireGuard DNS special case (10.0.0.53:53 in WireGuard mode is never ignored by design)")
    ctx.trust("ClientHello parsers (parse_client_hello, dtls_parse_client_hello, quic_parse_client_hello_from_datagrams) return the ClientHello / None when incomplete / raise ValueError (C16, C17)")
    ctx.trust("Python `re` (applied by the interpreted code to the abstract host names)")
    ctx.guard(r191, ctx)
    ctx.guard(r192, ctx)
    ctx.guard(r193, ctx)
    ctx.guard(r194_paths, ctx)
    ctx.guard(r194_matrix, ctx)
    ctx.guard(r195_tls, ctx)
    ctx.guard(r195_relay, ctx)
    if not any(f.rule == "R19.5" for f in ctx.findings):
        ctx.expect_instances("R19.5", 9)
    if not any(f.rule == "R19.4" for f in ctx.findings):
        ctx.expect_instances("R19.4", 2)


MUTANTS = [
    Mutant("host-regex-requires-whitespace", NL, r'rb"\r\n(?:Host:[ \t]*(\S.*?)\s*)?\r\n"', r'rb"\r\n(?:Host:\s+(.+?)\s*)?\r\n"', "R19.1"),
    Mutant("host-regex-space-only", NL, r'rb"\r\n(?:Host:[ \t]*(\S.*?)\s*)?\r\n"', r'rb"\r\n(?:Host: ?(\S.*?)\s*)?\r\n"', "R19.1"),
    Mutant("host-regex-case-sensitive", NL, r'rb"\r\n(?:Host:[ \t]*(\S.*?)\s*)?\r\n", data_client, re.IGNORECASE', r'rb"\r\n(?:Host:[ \t]*(\S.*?)\s*)?\r\n", data_client', "R19.1"),
    Mutant("host-capture-leading-space", NL, r'rb"\r\n(?:Host:[ \t]*(\S.*?)\s*)?\r\n"', r'rb"\r\n(?:Host:(.+?)\s*)?\r\n"', "R19.1"),
    Mutant("host-value-not-decoded-exactly", NL, 'return host.decode("utf-8", "surrogateescape")', 'return host.decode("utf-8", "surrogateescape").upper() + "."', "R19.1"),
    Mutant("sni-source-dropped", NL, '            ) and client_hello.sni:\n                hostnames.append(f"{client_hello.sni}:{port}")\n', "            ) and client_hello.sni:\n                pass\n", "R19.2"),
    Mutant("address-without-port", NL, '            host, port, *_ = context.server.address\n            hostnames.append(f"{host}:{port}")', '            host, port, *_ = context.server.address\n            hostnames.append(f"{host}")', "R19.2"),
    Mutant("incomplete-head-not-deferred", NL, "            else:\n                raise NeedsMoreData\n        else:\n            return None\n\n    @staticmethod\n    def _get_client_hello", "            else:\n                return None\n        else:\n            return None\n\n    @staticmethod\n    def _get_client_hello", "R19.2"),
    Mutant("host-header-port-doubled", NL, '                if not re.search(r":\\d+$", host_header):\n                    host_header = f"{host_header}:{port}"\n', '                host_header = f"{host_header}:{port}"\n', "R19.2"),
    Mutant("client-sni-source-dropped", NL, "            if context.client.sni:\n", "            if context.client.sni and False:\n", "R19.2"),
    Mutant("dtls-hello-not-awaited", NL, "                        ch = dtls_parse_client_hello(data_client)\n                    except ValueError:\n                        pass\n                    else:\n                        if ch is None:\n                            raise NeedsMoreData\n",
           "                        ch = dtls_parse_client_hello(data_client)\n                    except ValueError:\n                        pass\n                    else:\n                        if ch is None:\n                            return None\n", "R19.2"),
    Mutant("deferral-swallowed-into-decision", NL, "        except NeedsMoreData:\n            logger.debug(", "        except NeedsMoreData:\n            nextlayer.layer = layers.HttpLayer(nextlayer.context, HTTPMode.transparent)\n            logger.debug(", "R19.2"),
    Mutant("ignore-hit-not-ignored", NL, "            if ignored:\n                return True\n", "            if ignored:\n                return False\n", "R19.3"),
    Mutant("allow-miss-intercepted", NL, "            not_allowed = not any(", "            not_allowed = any(", "R19.3"),
    Mutant("ignore-anchored-match", NL, "                re.search(rex, host, re.IGNORECASE)\n                for host in hostnames\n                for rex in ctx.options.ignore_hosts", "                re.match(rex, host, re.IGNORECASE)\n                for host in hostnames\n                for rex in ctx.options.ignore_hosts", "R19.3"),
    Mutant("allow-case-sensitive", NL, "                re.search(rex, host, re.IGNORECASE)\n                for host in hostnames\n                for rex in ctx.options.allow_hosts", "                re.search(rex, host)\n                for host in hostnames\n                for rex in ctx.options.allow_hosts", "R19.3"),
    Mutant("allowed-wins-over-ignored", NL, "            if not_allowed:\n                return True\n", "            return not_allowed\n", "R19.3"),
    Mutant("ignore-needs-all-hosts", NL, "            ignored = any(", "            ignored = all(", "R19.3"),
    Mutant("reverse-proxy-before-ignore", NL, "        # 1)  check for --ignore/--allow\n", "        if s(modes.ReverseProxy):\n            return self._setup_reverse_proxy(context, data_client)\n", "R19.4"),
    Mutant("ignored-layer-always-shown", NL, "layers.TCPLayer(context, ignore=not ctx.options.show_ignored_hosts)", "layers.TCPLayer(context, ignore=False)", "R19.4"),
    Mutant("ignored-udp-gets-tcp-relay", NL, "                if tcp_based\n                else layers.UDPLayer(context, ignore=not ctx.options.show_ignored_hosts)", "                if tcp_based or udp_based\n                else layers.UDPLayer(context, ignore=not ctx.options.show_ignored_hosts)", "R19.4"),
    Mutant("ignore-forwards-partial-buffer", TLS, "events.DataReceived(self.context.client, bytes(self.recv_buffer))", "events.DataReceived(self.context.client, bytes(self.recv_buffer[5:]))", "R19.5"),
    Mutant("ignore-forwards-last-segment-only", TLS, "            yield from self.event_to_child(\n                events.DataReceived(self.context.client, bytes(self.recv_buffer))\n            )\n            self.recv_buffer.clear()\n            return True, None",
           "            self.recv_buffer.clear()\n            yield from self.event_to_child(\n                events.DataReceived(self.context.client, data)\n            )\n            return True, None", "R19.5"),
    Mutant("ignore-branch-starts-tls", TLS, "            self.recv_buffer.clear()\n            return True, None\n        if (\n            tls_clienthello.establish_server_tls_first", "            self.recv_buffer.clear()\n        if (\n            tls_clienthello.establish_server_tls_first", "R19.5"),
    Mutant("ignore-keeps-server-tls-attached", TLS, "            if isinstance(parent_layer, ServerTLSLayer):\n                parent_layer.conn = parent_layer.tunnel_connection = connection.Server(", "            if False:\n                parent_layer.conn = parent_layer.tunnel_connection = connection.Server(", "R19.5"),
    Mutant("ignore-replays-before-relay-installed", TLS, "            if self.is_dtls:\n                self.child_layer = udp.UDPLayer(self.context, ignore=True)\n            else:\n                self.child_layer = tcp.TCPLayer(self.context, ignore=True)\n            yield from self.event_to_child(\n                events.DataReceived(self.context.client, bytes(self.recv_buffer))\n            )\n",
           "            yield from self.event_to_child(\n                events.DataReceived(self.context.client, bytes(self.recv_buffer))\n            )\n            if self.is_dtls:\n                self.child_layer = udp.UDPLayer(self.context, ignore=True)\n            else:\n                self.child_layer = tcp.TCPLayer(self.context, ignore=True)\n", "R19.5"),
    Mutant("ignore-relay-records-flow", TLS, "self.child_layer = tcp.TCPLayer(self.context, ignore=True)", "self.child_layer = tcp.TCPLayer(self.context)", "R19.5"),
    Mutant("tcp-ignore-still-records", TCP, "        if ignore:\n            self.flow = None\n        else:\n            self.flow = tcp.TCPFlow", "        if ignore and False:\n            self.flow = None\n        else:\n            self.flow = tcp.TCPFlow", "R19.5"),
    Mutant("udp-ignore-mode-echoes", UDP, "            else:\n                yield commands.SendData(send_to, event.data)\n", "            else:\n                yield commands.SendData(event.connection, event.data)\n", "R19.5"),
]
