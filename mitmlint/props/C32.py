"""C32 - message text round-trips for every content type.

Decided (two necessary conditions only - claim: narrow):
  R32.1 charset-evidence symmetry: ``Message.set_text`` (encoder) and ``Message.get_text`` (decoder) choose the charset with
        ``infer_content_encoding``.  Every piece of evidence the decoder hands to that function AND that the function
        actually reads (its ``content`` parameter: BOM, <meta charset>, <?xml encoding?>, @charset sniffing) must also
        be handed over by the encoder (e.g. by re-inferring from the produced bytes and reconciling), and both must
        read the same Content-Type header.  Otherwise a text that itself contains a charset declaration is decoded with
        a different charset than it was encoded with.  *The pinned tree violates this (F-C32, known finding, will not
        be fixed): text/html + '<meta charset="latin-1">é' reads back as 'Ã©'.*
  R32.2 fallback agreement: on ``set_text``'s ``except ValueError`` path the charset parameter written to Content-Type
        and the codec used for the bytes denote the same codec, the header is rebuilt after the parameter was set,
        and the text is encoded with ``surrogateescape``; ``get_text(strict=False)`` falls back to the same codec and
        error handler.
NOT decided: everything value-level (all strings x all charsets x all content types).
"""

from __future__ import annotations

import ast

from ..model import attr_chain
from ..model import last_attr
from ..selftest import Mutant
from ._helpers_E import expect
from ._helpers_E import params
from ._helpers_E import paths
from ._helpers_E import show

PROP = "C32"
REG = {
    "strength": "narrow",
    "technique": "sibling agreement: evidence passed to infer_content_encoding by encoder vs decoder (restricted to parameters the function reads) + path rule on the fallback branches",
    "claim": "set_text and get_text infer the charset from the same evidence (violated on the pinned tree: known finding F-C32); the UTF-8 "
    "fallback of set_text declares the codec it encodes with and get_text(strict=False) falls back to the same codec and error handler.",
    "note": "Two necessary conditions; no value-level round-trip is decided.",
}

HTTP = "mitmproxy/http.py"
HDRS = "mitmproxy/net/http/headers.py"
INFER = "infer_content_encoding"


def _codec(name: str) -> str:
    return name.lower().replace("-", "").replace("_", "")


def _q(s):
    return s.replace('"', "'")


def check(ctx):
    ctx.rule("R32.1", "set_text and get_text hand the same (actually read) evidence to infer_content_encoding")
    ctx.rule("R32.2", "UTF-8 fallback: declared charset == codec used, header rebuilt, surrogateescape; get_text(strict=False) falls back identically")
    inf = ctx.func(HDRS, INFER)
    ips = params(inf, drop_self=False)
    ctx.require(len(ips) >= 1, f"{INFER} signature changed")
    read = [p for p in ips if any(isinstance(n, ast.Name) and n.id == p and isinstance(n.ctx, ast.Load) for n in ast.walk(inf))]
    st = ctx.func(HTTP, "Message.set_text")
    gt = ctx.func(HTTP, "Message.get_text")

    def evidence(fn, qual):
        cs = [c for c in ast.walk(fn) if isinstance(c, ast.Call) and last_attr(c.func) == INFER]
        if not cs:
            return None
        ctx.require(len(cs) == 1 or len({ast.unparse(c) for c in cs}) == 1 or qual.endswith("set_text"), f"{qual}: several different {INFER} calls")
        out = []
        for c in cs:
            ev = {}
            for i, a in enumerate(c.args):
                ctx.require(i < len(ips) and not isinstance(a, ast.Starred), f"{qual}: {INFER} call not modelled: {ast.unparse(c)}")
                ev[ips[i]] = _q(ast.unparse(a))
            for k in c.keywords:
                ctx.require(k.arg in ips, f"{qual}: {INFER} call not modelled: {ast.unparse(c)}")
                ev[k.arg] = _q(ast.unparse(k.value))
            out.append({p: v for p, v in ev.items() if p in read})
        return out

    ev_set, ev_get = evidence(st, "Message.set_text"), evidence(gt, "Message.get_text")
    ctx.require(ev_get is not None, f"Message.get_text no longer calls {INFER} (decoder's charset choice not modelled)")
    where = (HTTP, "Message.set_text", st)
    if ev_set is None:
        ctx.fail("R32.1", where, f"set_text does not call {INFER}; get_text: {INFER}({', '.join(sorted(ev_get[0]))})",
                 "the encoder does not derive the charset from the evidence the decoder uses")
    else:
        need = ev_get[0]
        union = set().union(*[set(e) for e in ev_set])
        missing = sorted(set(need) - union)
        ctx.cells += len(need)
        if missing:
            ctx.fail("R32.1", where, f"set_text: {INFER}({', '.join(sorted(union))}) vs get_text: {INFER}({', '.join(sorted(need))})",
                     f"the decoder also infers the charset from {missing} (in-body BOM / <meta charset> / <?xml encoding?> / @charset), the encoder does not: "
                     "a text carrying its own charset declaration is read back with another charset than it was written with",
                     decoder=need, encoder=ev_set)
        else:
            ctx.ok("R32.1", f"set_text and get_text both infer from ({', '.join(sorted(need))})")
        # the header both sides read
        ct = ips[0]
        h_set, h_get = {e.get(ct) for e in ev_set if ct in e}, need.get(ct)
        ctx.check(h_set == {h_get}, "R32.1", where, f"set_text reads {sorted(x for x in h_set if x)} but get_text reads {h_get}",
                  "encoder and decoder take the declared charset from different headers", desc=f"both read {h_get}")

    # ---- R32.2 set_text fallback
    text = params(st)[0]
    trs, eng = paths(st, keep=lambda e: e[0] == "assign")
    ctx.paths += len(trs)
    bad = False
    n_fb = 0
    fb_codec = fb_err = None
    for t, how in trs:
        if how != "return" or not any(e[0] == "except" and e[1] == "ValueError" for e in t):
            continue
        n_fb += 1
        x = next(i for i, e in enumerate(t) if e[0] == "except")
        tail = t[x:]
        probs = []

        def const_of(txt):
            try:
                v = ast.literal_eval(txt)
                return v if isinstance(v, str) else None
            except Exception:
                src = [e for e in tail if e[0] == "assign" and e[1] == txt]
                return const_of(src[-1][2]) if src and src[-1][2] != txt else None

        cs = [i for i, e in enumerate(tail) if e[0] == "assign" and _q(e[1]).endswith("['charset']")]
        hd = [i for i, e in enumerate(tail) if e[0] == "assign" and _q(e[1]).lower() == "self.headers['content-type']"]
        body = [e for e in tail if e[0] == "assign" and e[1] == "self.content"]
        declared = const_of(tail[cs[-1]][2]) if cs else None
        if declared is None:
            probs.append("the fallback does not set the charset parameter to a constant codec name")
        if not hd or (cs and hd[-1] < cs[-1]) or "assemble_content_type" not in tail[hd[-1]][2]:
            probs.append("Content-Type is not rebuilt (assemble_content_type) after the charset parameter was changed")
        used = errs = None
        if body:
            call = ast.parse(body[-1][2], mode="eval").body
            if isinstance(call, ast.Call) and isinstance(call.func, ast.Attribute) and call.func.attr == "encode" and attr_chain(call.func.value) == text and call.args:
                used = const_of(ast.unparse(call.args[0]))
                e2 = call.args[1] if len(call.args) > 1 else next((k.value for k in call.keywords if k.arg == "errors"), None)
                errs = const_of(ast.unparse(e2)) if e2 is not None else "strict"
        if used is None:
            probs.append(f"the fallback does not store {text}.encode(<constant codec>, ...) as content")
        else:
            if declared is not None and _codec(declared) != _codec(used):
                probs.append(f"the fallback declares charset={declared!r} but encodes with {used!r}")
            if errs != "surrogateescape":
                probs.append(f"the fallback encodes with errors={errs!r}: surrogate-escaped text cannot be stored")
            fb_codec, fb_err = used, errs
        for p in probs:
            bad = True
            ctx.fail("R32.2", (HTTP, "Message.set_text", st), f"set_text fallback: [{show([e for e in tail if e[0] == 'assign'], 8)}]", p)
    ctx.require(bad or n_fb >= 1, "Message.set_text: no 'except ValueError' fallback path")
    if not bad:
        ctx.ok("R32.2", f"set_text fallback: charset := {fb_codec}, header rebuilt, {text}.encode({fb_codec!r}, {fb_err!r})")

    # ---- R32.2 get_text non-strict fallback
    strict = params(gt)[0] if params(gt) else None
    ctx.require(strict is not None, "Message.get_text(strict) signature changed")
    trs, eng = paths(gt, keep=lambda e: e[0] in ("assign", "return", "raise"))
    ctx.paths += len(trs)
    bad2 = False
    n_fb = 0
    for t, how in trs:
        if not any(e[0] == "except" and e[1] == "ValueError" for e in t):
            continue
        sv = [e[2] for e in t if e[0] == "cond" and e[1] == strict]
        nsv = [not e[2] for e in t if e[0] == "cond" and e[1] == f"not {strict}"]
        s_ = (sv + nsv)[-1] if (sv + nsv) else None
        if s_ is not False:
            continue
        n_fb += 1
        ret = [e for e in t if e[0] == "return"]
        ok_ = False
        got = None
        if how == "return" and ret:
            call = ast.parse(ret[-1][1], mode="eval").body
            if isinstance(call, ast.Call) and isinstance(call.func, ast.Attribute) and call.func.attr == "decode" and len(call.args) >= 1:
                try:
                    codec = ast.literal_eval(call.args[0])
                    e2 = call.args[1] if len(call.args) > 1 else next((k.value for k in call.keywords if k.arg == "errors"), None)
                    errs = ast.literal_eval(e2) if e2 is not None else "strict"
                    got = (codec, errs)
                    ok_ = fb_codec is not None and _codec(codec) == _codec(fb_codec) and errs == fb_err == "surrogateescape"
                except Exception:
                    pass
        if not ok_ and not bad:
            bad2 = True
            ctx.fail("R32.2", (HTTP, "Message.get_text", gt), f"get_text(strict=False) fallback returns {ret[-1][1] if ret else how}",
                     f"the non-strict decoder fallback {got} is not the inverse of set_text's fallback ({fb_codec!r}, {fb_err!r})")
    ctx.require(bad or bad2 or n_fb >= 1, "Message.get_text: no non-strict 'except ValueError' fallback path")
    if not bad and not bad2:
        ctx.ok("R32.2", f"get_text(strict=False) fallback: decode({fb_codec!r}, {fb_err!r})")

    expect(ctx, "R32.1", 2)
    expect(ctx, "R32.2", 2)


MUTANTS = [
    # R32.1 fires on the pinned tree (F-C32, known finding); the self-test only counts findings the unmutated tree does not
    # have, so these mutants model *other* evidence asymmetries (different keys).
    Mutant("encoder-ignores-content-type", HTTP, "        enc = infer_content_encoding(self.headers.get(\"content-type\", \"\"))\n\n        try:\n            self.content = cast(bytes, encoding.encode(text, enc))",
           "        enc = \"utf8\"\n\n        try:\n            self.content = cast(bytes, encoding.encode(text, enc))", "R32.1"),
    Mutant("encoder-reads-other-header", HTTP, "        enc = infer_content_encoding(self.headers.get(\"content-type\", \"\"))\n\n        try:\n            self.content = cast(bytes, encoding.encode(text, enc))",
           "        enc = infer_content_encoding(self.headers.get(\"accept\", \"\"))\n\n        try:\n            self.content = cast(bytes, encoding.encode(text, enc))", "R32.1"),
    Mutant("fallback-declares-other-charset", HTTP, "            ct[2][\"charset\"] = \"utf-8\"\n", "            ct[2][\"charset\"] = \"latin-1\"\n", "R32.2"),
    Mutant("fallback-header-not-rebuilt", HTTP, "            self.headers[\"content-type\"] = assemble_content_type(*ct)\n", "", "R32.2"),
    Mutant("fallback-header-rebuilt-too-early", HTTP, "            ct[2][\"charset\"] = \"utf-8\"\n            self.headers[\"content-type\"] = assemble_content_type(*ct)\n",
           "            self.headers[\"content-type\"] = assemble_content_type(*ct)\n            ct[2][\"charset\"] = \"utf-8\"\n", "R32.2"),
    Mutant("fallback-strict-encode", HTTP, "            self.content = text.encode(enc, \"surrogateescape\")\n", "            self.content = text.encode(enc)\n", "R32.2"),
    Mutant("decoder-fallback-latin1", HTTP, "            return content.decode(\"utf8\", \"surrogateescape\")\n", "            return content.decode(\"latin-1\", \"surrogateescape\")\n", "R32.2"),
    Mutant("decoder-fallback-replaces", HTTP, "            return content.decode(\"utf8\", \"surrogateescape\")\n", "            return content.decode(\"utf8\", \"replace\")\n", "R32.2"),
]
