"""C32 - message text round-trips for every content type.

Decided (two necessary conditions only - claim: narrow):
  R32.1 charset-evidence symmetry: ``Message.set_text`` (encoder) and ``Message.get_text`` (decoder) choose the charset with
        ``infer_content_encoding``.  Every piece of evidence the decoder hands to that function AND that the function
        actually reads (its ``content`` parameter: BOM, <meta charset>, <?xml encoding?>, @charset sniffing) must also
        be handed over by the encoder (e.g. by re-inferring from the produced bytes and reconciling), and both must
        read the same Content-Type header.  Otherwise a text that itself contains a charset declaration is decoded with
        a different charset than it was encoded with.  *The pinned tree violates this (F-C32, known finding, will not
        be fixed): text/html + '<meta charset="latin-1">é' reads back as 'Ã©'.*
  R32.2 fallback agreement: on ``set_text``'s ``except ValueError`` path the charset parameter written to Content-Type
        and the codec used for the bytes denote the same codec, the header is rebuilt after the parameter was set,
        and the text is encoded with ``surrogateescape``; ``get_text(strict=False)`` falls back to the same codec and
        error handler.
  R32.3 every stored body is in the charset the decoder will choose (path rule over ``set_text``): on every returning path the
        last value written to ``self.content`` is ``None`` (only where the text is None), empty bytes (only where the text
        is falsy), or the *unmodified text parameter* encoded (``encoding.encode(text, E)`` | ``text.encode(E, ...)`` |
        ``codecs.encode(text, E, ...)``, optionally inside ``cast``) with a codec ``E`` that is EITHER the value
        ``infer_content_encoding`` returned on this path (the charset ``get_text`` infers from the same header) OR a
        constant that the same path declares in the ``charset`` parameter and writes back with ``assemble_content_type``
        (the R32.2 shape).  A path that stores the text under a constant codec without touching the header, and whose
        branch conditions do not depend on the header / inferred charset, is reachable for a header whose charset
        encodes the same text to other bytes (utf-16le, utf-32be, cp037, an unknown name): ``get_text`` then decodes
        with another codec (mojibake / ValueError), or the "update the declared charset" clause is skipped.  A path
        that returns without storing anything drops the text.  Shapes outside the enumerated idioms (constant-codec
        store guarded by a test on the inferred charset, codec computed from the inferred one, helper methods) are
        ANALYSIS-ERRORs, never violations.
  R32.4 header-first ordering, decided on a finite table by interpreting ``infer_content_encoding`` (pyint, trusted ``re``
        / ``collections``): while the encoder infers from the Content-Type alone (F-C32), for every media type x
        explicit ``charset=H`` x BOM-free body carrying an in-body declaration of another charset (<meta charset>,
        <meta http-equiv>, <?xml encoding?>, @charset) the decoder's ``infer(ct, body)`` must equal the encoder's
        ``infer(ct)``.  (Without a header charset and for BOMs the two already differ: that is exactly the known
        finding F-C32 and is reported by R32.1 only.)  If an in-body declaration outranks an explicit header charset,
        ``set_text`` writes the header's charset and ``get_text`` reads the body's: a different, new disagreement.
        The rule is not armed once the encoder hands the produced bytes to the inference as well (then ordering is
        immaterial and R32.1 decides).
NOT decided: everything value-level (all strings x all charsets x all content types); whether codecs that share a name
        normalisation really are inverse; encoding.encode/decode themselves.
"""

from __future__ import annotations

import ast

from ..core import AnalysisError
from ..model import attr_chain
from ..model import last_attr
from ..pyint import Interp
from ..pyint import Raised
from ..selftest import Mutant
from ._helpers_E import expect
from ._helpers_E import params
from ._helpers_E import paths
from ._helpers_E import show

PROP = "C32"
REG = {
    "strength": "narrow",
    "technique": "sibling agreement: evidence passed to infer_content_encoding by encoder vs decoder (restricted to parameters the function reads) + path rules on set_text "
    "(every stored body is encoded with the inferred charset or with a constant the path declares in the header) + decision table of infer_content_encoding "
    "interpreted from its AST over media types x header charsets x in-body declarations (header-first ordering)",
    "claim": "set_text and get_text infer the charset from the same evidence (violated on the pinned tree: known finding F-C32); the UTF-8 "
    "fallback of set_text declares the codec it encodes with and get_text(strict=False) falls back to the same codec and error handler; every path of "
    "set_text stores the unmodified text encoded with the charset get_text infers from the header or rewrites the header to the constant it used; "
    "an explicit Content-Type charset is never outranked by a BOM-free in-body declaration, so the F-C32 asymmetry stays confined to header-less charsets and BOMs.",
    "note": "Four necessary conditions; no value-level round-trip is decided. R32.4 trusts re/collections and interprets infer_content_encoding + parse_content_type only.",
}

HTTP = "mitmproxy/http.py"
HDRS = "mitmproxy/net/http/headers.py"
INFER = "infer_content_encoding"


def _codec(name: str) -> str:
    return name.lower().replace("-", "").replace("_", "")


def _q(s):
    return s.replace('"', "'")


# ---------------------------------------------------------------------------------------------------
# R32.3 helpers


def _expr(txt):
    try:
        return ast.parse(txt, mode="eval").body
    except SyntaxError:
        return None


def _falsy_fact(trace, name):
    """What the branches taken on the path establish about ``name``: 'none' (is None), 'falsy' (None or empty),
    'present' (the opposite of either), or None (nothing known).  Idioms: X | not X | X is None | X is not None |
    X == None | X != None | X == '' | X != '' | len(X) == 0 | len(X) != 0 | len(X) > 0."""
    res = None
    for e in trace:
        if e[0] != "cond":
            continue
        x, val = _expr(e[1]), e[2]
        while isinstance(x, ast.UnaryOp) and isinstance(x.op, ast.Not):
            x, val = x.operand, not val
        if x is None:
            continue
        hit = None  # (kind established when the test is true)
        if attr_chain(x) == name:
            hit, val = "falsy", not val
        elif isinstance(x, ast.Compare) and len(x.ops) == 1 and isinstance(x.comparators[0], ast.Constant):
            c, op, lhs = x.comparators[0].value, x.ops[0], x.left
            is_len = isinstance(lhs, ast.Call) and last_attr(lhs.func) == "len" and len(lhs.args) == 1 and attr_chain(lhs.args[0]) == name
            if attr_chain(lhs) == name and (c is None or c == ""):
                hit = "none" if c is None else "falsy"
                if isinstance(op, (ast.IsNot, ast.NotEq)):
                    val = not val
                elif not isinstance(op, (ast.Is, ast.Eq)):
                    hit = None
            elif is_len and c == 0:
                hit = "falsy"
                if isinstance(op, (ast.NotEq, ast.Gt)):
                    val = not val
                elif not isinstance(op, ast.Eq):
                    hit = None
        if hit is not None:
            # a failed 'is None' test says nothing about emptiness, a failed falsiness test means present
            res = hit if val else ("present" if hit == "falsy" or res is None else res)
    return res


def _strip_cast(e):
    while isinstance(e, ast.Call) and last_attr(e.func) == "cast" and len(e.args) == 2 and not e.keywords:
        e = e.args[1]
    return e


def _encode_idiom(e, text):
    """(codec expression | 'utf-8' default) if ``e`` is ``text.encode(E, ...)`` / ``<module>.encode(text, E, ...)``; else None."""
    if not (isinstance(e, ast.Call) and isinstance(e.func, ast.Attribute) and e.func.attr == "encode"):
        return None
    if any(isinstance(a, ast.Starred) for a in e.args) or any(k.arg is None for k in e.keywords):
        return None
    kw = {k.arg: k.value for k in e.keywords}
    if attr_chain(e.func.value) == text:  # str.encode(encoding='utf-8', errors='strict')
        return e.args[0] if e.args else kw.get("encoding", ast.Constant(value="utf-8"))
    if attr_chain(e.func.value) in ("encoding", "codecs", "mitmproxy.net.encoding") and e.args and attr_chain(e.args[0]) == text:
        if len(e.args) > 1:
            return e.args[1]
        if "encoding" in kw:
            return kw["encoding"]
        return ast.Constant(value="utf-8") if attr_chain(e.func.value) == "codecs" else None
    return None


def _deref(e, trace, idx, depth=0):
    """Follow a local name back to the expression last assigned to it before position idx -> (expression, position)."""
    e = _strip_cast(e)
    if isinstance(e, ast.Name) and depth < 6:
        for j in range(idx - 1, -1, -1):
            ev = trace[j]
            if ev[0] == "assign" and ev[1] == e.id:
                v = _expr(ev[2])
                return _deref(v, trace, j, depth + 1) if v is not None else (e, idx)
    return e, idx


def _resolve_codec(e, trace, idx, depth=0):
    """('const', name) | ('infer', None) | ('other', text): what the codec expression denotes at position idx of the path."""
    if isinstance(e, ast.Constant) and isinstance(e.value, str):
        return ("const", e.value)
    if isinstance(e, ast.Call) and last_attr(e.func) == INFER:
        return ("infer", None)
    if isinstance(e, ast.Name) and depth < 6:
        for j in range(idx - 1, -1, -1):
            ev = trace[j]
            if ev[0] == "assign" and ev[1] == e.id:
                v = _expr(ev[2])
                return _resolve_codec(v, trace, j, depth + 1) if v is not None else ("other", ev[2])
    return ("other", ast.unparse(e) if e is not None else "?")


def _header_tainted(trace):
    """Names whose value was computed from the message headers / the inferred charset along the path."""
    tainted = set()

    def dirty(txt):
        if INFER in txt or "self.headers" in txt or "self.data.headers" in txt:
            return True
        x = _expr(txt)
        return x is not None and any(isinstance(n, ast.Name) and n.id in tainted for n in ast.walk(x))

    for e in trace:
        if e[0] == "assign" and e[1].isidentifier() and dirty(e[2].removeprefix("aug:")):
            tainted.add(e[1])
    return dirty


def _declares(trace, codec):
    """Does the path set the charset parameter to a constant naming ``codec`` and rebuild Content-Type afterwards?"""
    cs = [i for i, e in enumerate(trace) if e[0] == "assign" and _q(e[1]).endswith("['charset']")]
    hd = [i for i, e in enumerate(trace) if e[0] == "assign" and _q(e[1]).lower() in ("self.headers['content-type']", "self.data.headers['content-type']") and "assemble_content_type" in e[2]]
    if not cs or not hd or hd[-1] < cs[-1]:
        return False
    kind, val = _resolve_codec(_expr(trace[cs[-1]][2]), trace, cs[-1])
    return kind == "const" and _codec(val) == _codec(codec)


def _r32_3(ctx, st, text, r322_bad):
    where = (HTTP, "Message.set_text", st)
    trs, eng = paths(st, keep=lambda e: e[0] in ("assign", "return", "raise") or (e[0] == "call" and e[1].startswith("self.") and not e[1].startswith(("self.headers.", "self.data.headers."))))
    ctx.paths += len(trs)
    n = 0
    for t, how in trs:
        if how != "return":
            continue
        n += 1
        conds = [e for e in t if e[0] == "cond"]
        label = show(conds, 6) or "unconditional"
        ctx.require(not any(e[0] == "assign" and e[1] == text for e in t), f"Message.set_text re-binds its parameter {text!r} before storing it (shape not modelled): [{label}]")
        ctx.require(not any(e[0] == "assign" and e[1] in ("self.raw_content", "self.data.content") for e in t), f"Message.set_text writes the raw content directly (shape not modelled): [{label}]")
        dirty = _header_tainted(t)
        guarded = any(dirty(e[1]) for e in conds)
        stores = [i for i, e in enumerate(t) if e[0] == "assign" and e[1] == "self.content"]
        if not stores:
            helper = [e[1] for e in t if e[0] == "call"]
            ctx.require(not helper, f"Message.set_text: path [{label}] stores nothing itself but calls {helper} (helper methods are not modelled)")
            ctx.require(not guarded and not any("self" in e[1] for e in conds), f"Message.set_text: path [{label}] returns without storing; its guard depends on the message state (shape not modelled)")
            ctx.fail("R32.3", where, f"set_text returns without storing content on [{label}]", "a text assigned on this path is dropped: reading it back yields the previous body")
            continue
        i = stores[-1]
        v, at = _deref(_expr(t[i][2]), t, i)
        absent = _falsy_fact(t[:i], text)
        if isinstance(v, ast.Constant) and (v.value is None or v.value == b""):
            ctx.check(absent == "none" or (absent == "falsy" and v.value is not None), "R32.3", where, f"set_text stores {t[i][2]} on [{label}]", f"the path stores {t[i][2]} although {text} is not known to be None (for None) / empty (for b''): the assigned text is lost",
                      desc=f"[{label}] stores {t[i][2]} for an absent text")
            continue
        codec_e = _encode_idiom(v, text)
        ctx.require(codec_e is not None, f"Message.set_text: stored value {t[i][2]!r} on [{label}] is not an encoding of the {text!r} parameter (shape not modelled)")
        kind, val = _resolve_codec(codec_e, t, at)
        if kind == "infer":
            ctx.ok("R32.3", f"[{label}] stores {text} encoded with the charset {INFER} returned")
        elif kind == "const":
            if _declares(t, val):
                ctx.ok("R32.3", f"[{label}] stores {text} encoded with {val!r} and declares it in Content-Type")
            elif r322_bad and any(e[0] == "except" for e in t):
                pass  # the fallback path's own defects are reported by R32.2
            else:
                ctx.require(not guarded, f"Message.set_text: path [{label}] stores {text} under the constant codec {val!r} behind a test on the header / inferred charset (guarded fast path not modelled)")
                ctx.fail("R32.3", where, f"set_text stores {ast.unparse(v)} on [{label}]",
                         f"the body is written with the constant codec {val!r} without declaring it in Content-Type, and the path does not depend on the header: for a declared charset that "
                         f"encodes the same text differently (utf-16le, utf-32be, cp037) or is unknown, get_text decodes with another codec (mojibake / ValueError) and the charset is not updated")
        else:
            raise AnalysisError(f"Message.set_text: codec {val!r} of the store on [{label}] is neither the {INFER} result nor a constant (shape not modelled)")
    ctx.require(n >= 1, "Message.set_text has no returning path")


# ---------------------------------------------------------------------------------------------------
# R32.4 decision table of infer_content_encoding

_MEDIA_Q = ["text/html", "application/xhtml+xml", "text/xml", "application/xml", "image/svg+xml", "text/css", "application/json", "application/javascript", "text/plain"]
_MEDIA_T = ["application/rss+xml", "text/ecmascript", "application/ld+json", "application/octet-stream", "text/html+css", "text/css+xml+html"]
_HDR_CS = ["utf-8", "iso-8859-1", "utf-16le", "gb2312", "x-unknown-charset"]
_BODY_CS = ["utf-8", "iso-8859-1", "windows-1252", "gb2312", "x-not-a-charset"]
_HDR_FMT_Q = ["%s; charset=%s"]
_HDR_FMT_T = ["%s;foo=bar; charset=%s"]
_DECLS = {
    "<meta charset>": [b'<!doctype html><html><head><meta charset="%s"><title>t</title></head><body>x</body></html>', b"<meta charset=%s>"],
    "<meta http-equiv>": [b'<html><head><meta http-equiv="Content-Type" content="text/html; charset=%s"></head><body>x</body></html>'],
    "<?xml encoding?>": [b'<?xml version="1.0" encoding="%s"?><r/>', b"<?xml version='1.0' encoding='%s'?><r/>"],
    "@charset": [b'@charset "%s";\nbody{}'],
}
_DECLS_T = {  # thorough tier: the same declarations after leading markup
    "<meta charset>": [b"\n  <!-- c -->\n<HTML><META CHARSET='%s'>"],
    "<?xml encoding?>": [b'\n<?XML version="1.0" encoding="%s" standalone="yes"?><r/>'],
}


def _r32_4(ctx, ips, read, ev_set, ev_get):
    where = (HDRS, INFER, ctx.func(HDRS, INFER))
    need = ev_get[0]
    hdr_p = [p for p, v in need.items() if "headers" in v]
    body_p = [p for p in need if p not in hdr_p]
    ctx.require(len(hdr_p) == 1 and len(body_p) <= 1, f"get_text: roles of the {INFER} arguments not recognised: {need}")
    if not body_p:
        ctx.ok("R32.4", "not armed: the decoder does not sniff the body")
        return 1
    if not ev_set or any(set(e) != set(hdr_p) for e in ev_set):
        ctx.ok("R32.4", "not armed: the encoder does not infer from the Content-Type alone (R32.1 decides the evidence)")
        return 1
    import collections
    import re

    it = Interp(ctx.model, trusted_modules={"re": re, "collections": collections})

    def infer(**kw):
        it.steps = 0  # the step bound guards one interpretation, not the whole table
        try:
            return it.call(HDRS, INFER, **kw)
        except Raised as r:
            return f"<raises {r.name}>"

    thorough = ctx.tier == "thorough"
    media = _MEDIA_Q + (_MEDIA_T if thorough else [])
    fmts = _HDR_FMT_Q + (_HDR_FMT_T if thorough else [])
    prefixes = [b""]
    n_kinds = 0
    for kind, templates in _DECLS.items():
        if thorough:
            templates = templates + _DECLS_T.get(kind, [])
        bad = []
        cells = 0
        for mt in media:
            for fmt in fmts:
                for h in _HDR_CS:
                    ct = fmt % (mt, h)
                    enc_side = infer(**{hdr_p[0]: ct})
                    for tpl in templates:
                        for b in _BODY_CS:
                            if _codec(b) == _codec(h):
                                continue
                            for pre in prefixes:
                                if pre and kind == "@charset":
                                    continue  # an @charset rule only counts as the very first bytes
                                body = pre + tpl % b.encode()
                                cells += 1
                                dec_side = infer(**{hdr_p[0]: ct, body_p[0]: body})
                                if dec_side != enc_side:
                                    bad.append((ct, body, enc_side, dec_side))
        ctx.cells += cells
        n_kinds += 1
        if bad:
            ct, body, e_, d_ = bad[0]
            ctx.fail("R32.4", where, f"{INFER}: in-body {kind} outranks an explicit Content-Type charset",
                     f"{len(bad)}/{cells} cells, e.g. Content-Type {ct!r} + body {body[:70]!r}: set_text encodes with {e_!r} (header only) but get_text decodes with {d_!r}: "
                     "text carrying a stale/other in-body declaration no longer reads back although the header declares the charset",
                     sample=[(c, bd.decode('latin-1'), a, b_) for c, bd, a, b_ in bad[:5]])
        else:
            ctx.ok("R32.4", f"in-body {kind} never outranks an explicit header charset ({cells} cells)")
    return n_kinds


def check(ctx):
    ctx.rule("R32.1", "set_text and get_text hand the same (actually read) evidence to infer_content_encoding")
    ctx.rule("R32.2", "UTF-8 fallback: declared charset == codec used, header rebuilt, surrogateescape; get_text(strict=False) falls back identically")
    ctx.rule("R32.3", "every returning path of set_text stores the unmodified text encoded with the charset infer_content_encoding returned (what get_text will infer) or with a constant it declares in Content-Type")
    ctx.rule("R32.4", "infer_content_encoding (interpreted over media types x header charsets x in-body declarations): a BOM-free in-body declaration never outranks an explicit Content-Type charset")
    inf = ctx.func(HDRS, INFER)
    ips = params(inf, drop_self=False)
    ctx.require(len(ips) >= 1, f"{INFER} signature changed")
    read = [p for p in ips if any(isinstance(n, ast.Name) and n.id == p and isinstance(n.ctx, ast.Load) for n in ast.walk(inf))]
    st = ctx.func(HTTP, "Message.set_text")
    gt = ctx.func(HTTP, "Message.get_text")

    def evidence(fn, qual):
        cs = [c for c in ast.walk(fn) if isinstance(c, ast.Call) and last_attr(c.func) == INFER]
        if not cs:
            return None
        ctx.require(len(cs) == 1 or len({ast.unparse(c) for c in cs}) == 1 or qual.endswith("set_text"), f"{qual}: several different {INFER} calls")
        out = []

        def txt(a):
            # a local that is bound exactly once in the function to a header read denotes that read (alias, not new evidence)
            if isinstance(a, ast.Name):
                src = [n.value for n in ast.walk(fn) if isinstance(n, ast.Assign) and any(isinstance(t, ast.Name) and t.id == a.id for t in n.targets)]
                if len(src) == 1 and "headers" in ast.unparse(src[0]):
                    return _q(ast.unparse(src[0]))
            return _q(ast.unparse(a))

        for c in cs:
            ev = {}
            for i, a in enumerate(c.args):
                ctx.require(i < len(ips) and not isinstance(a, ast.Starred), f"{qual}: {INFER} call not modelled: {ast.unparse(c)}")
                ev[ips[i]] = txt(a)
            for k in c.keywords:
                ctx.require(k.arg in ips, f"{qual}: {INFER} call not modelled: {ast.unparse(c)}")
                ev[k.arg] = txt(k.value)
            out.append({p: v for p, v in ev.items() if p in read})
        return out

    ev_set, ev_get = evidence(st, "Message.set_text"), evidence(gt, "Message.get_text")
    ctx.require(ev_get is not None, f"Message.get_text no longer calls {INFER} (decoder's charset choice not modelled)")
    where = (HTTP, "Message.set_text", st)
    if ev_set is None:
        ctx.fail("R32.1", where, f"set_text does not call {INFER}; get_text: {INFER}({', '.join(sorted(ev_get[0]))})",
                 "the encoder does not derive the charset from the evidence the decoder uses")
    else:
        need = ev_get[0]
        union = set().union(*[set(e) for e in ev_set])
        missing = sorted(set(need) - union)
        ctx.cells += len(need)
        if missing:
            ctx.fail("R32.1", where, f"set_text: {INFER}({', '.join(sorted(union))}) vs get_text: {INFER}({', '.join(sorted(need))})",
                     f"the decoder also infers the charset from {missing} (in-body BOM / <meta charset> / <?xml encoding?> / @charset), the encoder does not: "
                     "a text carrying its own charset declaration is read back with another charset than it was written with",
                     decoder=need, encoder=ev_set)
        else:
            ctx.ok("R32.1", f"set_text and get_text both infer from ({', '.join(sorted(need))})")
        # the header both sides read
        ct = ips[0]
        h_set, h_get = {e.get(ct) for e in ev_set if ct in e}, need.get(ct)
        ctx.check(h_set == {h_get}, "R32.1", where, f"set_text reads {sorted(x for x in h_set if x)} but get_text reads {h_get}",
                  "encoder and decoder take the declared charset from different headers", desc=f"both read {h_get}")

    # ---- R32.2 set_text fallback
    text = params(st)[0]
    trs, eng = paths(st, keep=lambda e: e[0] == "assign")
    ctx.paths += len(trs)
    bad = False
    n_fb = 0
    fb_codec = fb_err = None
    for t, how in trs:
        if how != "return" or not any(e[0] == "except" and e[1] == "ValueError" for e in t):
            continue
        n_fb += 1
        x = next(i for i, e in enumerate(t) if e[0] == "except")
        tail = t[x:]
        probs = []

        def const_of(txt):
            try:
                v = ast.literal_eval(txt)
                return v if isinstance(v, str) else None
            except Exception:
                src = [e for e in tail if e[0] == "assign" and e[1] == txt]
                return const_of(src[-1][2]) if src and src[-1][2] != txt else None

        cs = [i for i, e in enumerate(tail) if e[0] == "assign" and _q(e[1]).endswith("['charset']")]
        hd = [i for i, e in enumerate(tail) if e[0] == "assign" and _q(e[1]).lower() == "self.headers['content-type']"]
        body = [e for e in tail if e[0] == "assign" and e[1] == "self.content"]
        declared = const_of(tail[cs[-1]][2]) if cs else None
        if declared is None:
            probs.append("the fallback does not set the charset parameter to a constant codec name")
        if not hd or (cs and hd[-1] < cs[-1]) or "assemble_content_type" not in tail[hd[-1]][2]:
            probs.append("Content-Type is not rebuilt (assemble_content_type) after the charset parameter was changed")
        used = errs = None
        if body:
            call = ast.parse(body[-1][2], mode="eval").body
            if isinstance(call, ast.Call) and isinstance(call.func, ast.Attribute) and call.func.attr == "encode" and attr_chain(call.func.value) == text and call.args:
                used = const_of(ast.unparse(call.args[0]))
                e2 = call.args[1] if len(call.args) > 1 else next((k.value for k in call.keywords if k.arg == "errors"), None)
                errs = const_of(ast.unparse(e2)) if e2 is not None else "strict"
        if used is None:
            probs.append(f"the fallback does not store {text}.encode(<constant codec>, ...) as content")
        else:
            if declared is not None and _codec(declared) != _codec(used):
                probs.append(f"the fallback declares charset={declared!r} but encodes with {used!r}")
            if errs != "surrogateescape":
                probs.append(f"the fallback encodes with errors={errs!r}: surrogate-escaped text cannot be stored")
            fb_codec, fb_err = used, errs
        for p in probs:
            bad = True
            ctx.fail("R32.2", (HTTP, "Message.set_text", st), f"set_text fallback: [{show([e for e in tail if e[0] == 'assign'], 8)}]", p)
    ctx.require(bad or n_fb >= 1, "Message.set_text: no 'except ValueError' fallback path")
    if not bad:
        ctx.ok("R32.2", f"set_text fallback: charset := {fb_codec}, header rebuilt, {text}.encode({fb_codec!r}, {fb_err!r})")

    # ---- R32.2 get_text non-strict fallback
    strict = params(gt)[0] if params(gt) else None
    ctx.require(strict is not None, "Message.get_text(strict) signature changed")
    trs, eng = paths(gt, keep=lambda e: e[0] in ("assign", "return", "raise"))
    ctx.paths += len(trs)
    bad2 = False
    n_fb = 0
    for t, how in trs:
        if not any(e[0] == "except" and e[1] == "ValueError" for e in t):
            continue
        sv = [e[2] for e in t if e[0] == "cond" and e[1] == strict]
        nsv = [not e[2] for e in t if e[0] == "cond" and e[1] == f"not {strict}"]
        s_ = (sv + nsv)[-1] if (sv + nsv) else None
        if s_ is not False:
            continue
        n_fb += 1
        ret = [e for e in t if e[0] == "return"]
        ok_ = False
        got = None
        if how == "return" and ret:
            call = ast.parse(ret[-1][1], mode="eval").body
            if isinstance(call, ast.Call) and isinstance(call.func, ast.Attribute) and call.func.attr == "decode" and len(call.args) >= 1:
                try:
                    codec = ast.literal_eval(call.args[0])
                    e2 = call.args[1] if len(call.args) > 1 else next((k.value for k in call.keywords if k.arg == "errors"), None)
                    errs = ast.literal_eval(e2) if e2 is not None else "strict"
                    got = (codec, errs)
                    ok_ = fb_codec is not None and _codec(codec) == _codec(fb_codec) and errs == fb_err == "surrogateescape"
                except Exception:
                    pass
        if not ok_ and not bad:
            bad2 = True
            ctx.fail("R32.2", (HTTP, "Message.get_text", gt), f"get_text(strict=False) fallback returns {ret[-1][1] if ret else how}",
                     f"the non-strict decoder fallback {got} is not the inverse of set_text's fallback ({fb_codec!r}, {fb_err!r})")
    ctx.require(bad or bad2 or n_fb >= 1, "Message.get_text: no non-strict 'except ValueError' fallback path")
    if not bad and not bad2:
        ctx.ok("R32.2", f"get_text(strict=False) fallback: decode({fb_codec!r}, {fb_err!r})")

    # ---- R32.3 every stored body is in the decoder's charset
    _r32_3(ctx, st, text, bad)

    # ---- R32.4 header-first ordering of the charset evidence
    n4 = _r32_4(ctx, ips, read, ev_set, ev_get)

    expect(ctx, "R32.1", 2)
    expect(ctx, "R32.2", 2)
    expect(ctx, "R32.3", 3)
    expect(ctx, "R32.4", n4)


_MAIN = "        enc = infer_content_encoding(self.headers.get(\"content-type\", \"\"))\n\n        try:\n            self.content = cast(bytes, encoding.encode(text, enc))"
_HDR_ELIF = "    elif parsed_content_type := parse_content_type(content_type):\n"

MUTANTS = [
    # R32.3: stores that bypass the charset the decoder infers
    Mutant("ascii-fast-path", HTTP, _MAIN, "        if text.isascii():\n            self.content = text.encode(\"ascii\")\n            return\n" + _MAIN, "R32.3"),
    Mutant("main-store-constant-codec", HTTP, "            self.content = cast(bytes, encoding.encode(text, enc))\n", "            self.content = cast(bytes, encoding.encode(text, \"utf8\"))\n", "R32.3"),
    Mutant("blank-text-dropped", HTTP, _MAIN, "        if not text.strip():\n            return\n" + _MAIN, "R32.3"),
    Mutant("empty-text-stored-as-none", HTTP, "        if text is None:\n            self.content = None\n            return\n        enc = infer", "        if not text:\n            self.content = None\n            return\n        enc = infer", "R32.3"),
    # R32.4: an in-body declaration outranks the explicit header charset
    Mutant("meta-charset-before-header", HDRS, _HDR_ELIF,
           "    elif \"html\" in content_type and (m_ := re.search(rb\"<meta[^>]+charset=['\\\"]?([^'\\\">]+)\", content, re.IGNORECASE)):\n        enc = m_.group(1).decode(\"ascii\", \"ignore\")\n" + _HDR_ELIF, "R32.4"),
    Mutant("xml-declaration-ignores-header", HDRS, "    if not enc and \"xml\" in content_type:\n", "    if \"xml\" in content_type:\n", "R32.4"),
    Mutant("css-charset-ignores-header", HDRS, "    if not enc and \"text/css\" in content_type:\n", "    if \"text/css\" in content_type:\n", "R32.4"),
    # R32.1 fires on the pinned tree (F-C32, known finding); the self-test only counts findings the unmutated tree does not
    # have, so these mutants model *other* evidence asymmetries (different keys).
    Mutant("encoder-ignores-content-type", HTTP, "        enc = infer_content_encoding(self.headers.get(\"content-type\", \"\"))\n\n        try:\n            self.content = cast(bytes, encoding.encode(text, enc))",
           "        enc = \"utf8\"\n\n        try:\n            self.content = cast(bytes, encoding.encode(text, enc))", "R32.1"),
    Mutant("encoder-reads-other-header", HTTP, "        enc = infer_content_encoding(self.headers.get(\"content-type\", \"\"))\n\n        try:\n            self.content = cast(bytes, encoding.encode(text, enc))",
           "        enc = infer_content_encoding(self.headers.get(\"accept\", \"\"))\n\n        try:\n            self.content = cast(bytes, encoding.encode(text, enc))", "R32.1"),
    Mutant("fallback-declares-other-charset", HTTP, "            ct[2][\"charset\"] = \"utf-8\"\n", "            ct[2][\"charset\"] = \"latin-1\"\n", "R32.2"),
    Mutant("fallback-header-not-rebuilt", HTTP, "            self.headers[\"content-type\"] = assemble_content_type(*ct)\n", "", "R32.2"),
    Mutant("fallback-header-rebuilt-too-early", HTTP, "            ct[2][\"charset\"] = \"utf-8\"\n            self.headers[\"content-type\"] = assemble_content_type(*ct)\n",
           "            self.headers[\"content-type\"] = assemble_content_type(*ct)\n            ct[2][\"charset\"] = \"utf-8\"\n", "R32.2"),
    Mutant("fallback-strict-encode", HTTP, "            self.content = text.encode(enc, \"surrogateescape\")\n", "            self.content = text.encode(enc)\n", "R32.2"),
    Mutant("decoder-fallback-latin1", HTTP, "            return content.decode(\"utf8\", \"surrogateescape\")\n", "            return content.decode(\"latin-1\", \"surrogateescape\")\n", "R32.2"),
    Mutant("decoder-fallback-replaces", HTTP, "            return content.decode(\"utf8\", \"surrogateescape\")\n", "            return content.decode(\"utf8\", \"replace\")\n", "R32.2"),
]
