"""C32 - message text round-trips for every content type.

R32.1 - R32.3 are decided by *interpreting* ``Message.set_text`` / ``Message.get_text`` (and, through them, ``set_content`` /
``get_content`` and ``infer_content_encoding`` / ``parse_content_type`` / ``assemble_content_type``) from their AST with
mitmlint/pyint.py on abstract messages (case-insensitive header record), over a finite table of Content-Type values x
texts.  The charset layer below (``encoding.encode`` / ``encoding.decode`` for non-table codings) is the stdlib ``codecs``
reference (C31 R31.1 decides that the repository functions equal it).  Nothing is matched by shape: locals, temporaries,
try/else, unpacking, dict displays, keyword arguments, helper methods, logging and assertions do not matter.

Decided (claim: narrow - a finite table, not all strings x all charsets):
  R32.1 charset agreement: for non-ASCII texts that the charset inferred from the Content-Type header can represent,
        ``set_text`` followed by ``get_text`` yields the text (encoder and decoder choose the same charset from the same
        header).  Texts that carry their own charset evidence (BOM, <meta charset>, <?xml encoding?>, @charset) while the
        header declares none: the decoder sniffs the body, the encoder infers from the header alone - *the pinned tree
        violates this (F-C32, known finding, will not be fixed): text/html + '<meta charset="latin-1">é' reads back as
        'Ã©'.*  That finding is reported under one stable key whenever the interpreted round trip fails with exactly this
        signature (body stored in the header-only charset, decoder infers another charset from the stored body); any
        other failure of these cells is a separate finding.
  R32.2 fallback agreement: a text the inferred charset cannot represent (or whose charset is unknown) reads back
        unchanged - i.e. the charset the fallback declares in Content-Type is the codec it encoded with and the header is
        rebuilt after the parameter was set; surrogate-escaped text is stored with ``surrogateescape`` and
        ``get_text(strict=False)`` falls back to the same codec and error handler.
  R32.3 every other text is stored in the charset the decoder will choose: ``None`` clears the body, empty / blank / ASCII
        texts read back unchanged for every declared charset (utf-16le, cp037, unknown names ...), nothing is dropped.
  R32.4 header-first ordering, decided on a finite table by interpreting ``infer_content_encoding`` (trusted ``re``
        / ``collections``): while the encoder infers from the Content-Type alone (F-C32), for every media type x
        explicit ``charset=H`` x BOM-free body carrying an in-body declaration of another charset (<meta charset>,
        <meta http-equiv>, <?xml encoding?>, @charset) the decoder's ``infer(ct, body)`` must equal the encoder's
        ``infer(ct)``.  (Without a header charset and for BOMs the two already differ: that is exactly the known
        finding F-C32 and is reported by R32.1 only.)  The rule is not armed once the F-C32 signature is gone (the
        encoder reconciles with the produced bytes, or the decoder stopped sniffing).
NOT decided: everything value-level beyond the table (all strings x all charsets x all content types); the codecs.
"""

from __future__ import annotations

import codecs
import collections
import re

from ..pyint import NullLog
from ..pyint import Raised
from ..selftest import Mutant
from ._helpers_E import GlobalsInterp
from ._helpers_E import Warnings
from ._helpers_E import expect
from ._helpers_E import header_of
from ._helpers_E import message_rec
from ._helpers_E import params

PROP = "C32"
REG = {
    "strength": "narrow",
    "technique": "AST interpretation of Message.set_text / get_text (with set_content / get_content, infer_content_encoding, parse / assemble_content_type) on abstract messages over "
    "a finite table Content-Type x text: the text must read back (charset agreement, UTF-8 fallback agreement, nothing dropped) + decision table of infer_content_encoding over media "
    "types x header charsets x in-body declarations (header-first ordering)",
    "claim": "on the table, set_text and get_text choose the same charset from the Content-Type header (texts carrying their own charset evidence: violated on the pinned tree, known "
    "finding F-C32); the UTF-8 fallback of set_text declares the codec it encodes with and get_text(strict=False) falls back to the same codec and error handler; None / empty / blank / "
    "ASCII texts are stored in the charset get_text infers; an explicit Content-Type charset is never outranked by a BOM-free in-body declaration, so the F-C32 asymmetry stays confined "
    "to header-less charsets and BOMs.",
    "note": "Finite table only; stdlib codecs/re/collections are trusted; encoding.encode/decode are replaced by the codecs reference inside http.py (C31 decides them).",
}

HTTP = "mitmproxy/http.py"
HDRS = "mitmproxy/net/http/headers.py"
ENC = "mitmproxy/net/encoding.py"
INFER = "infer_content_encoding"
CT = "content-type"
# the construct of the known finding F-C32 (known_findings.json matches on it): a constant, so that renamed parameters / locals of a refactored tree keep the key
F_C32 = "set_text: infer_content_encoding(content_type) vs get_text: infer_content_encoding(content, content_type)"


def _codec(name: str) -> str:
    try:
        return codecs.lookup(name).name
    except (LookupError, TypeError):
        return str(name).lower().replace("-", "").replace("_", "")


# ---------------------------------------------------------------------------------------------------
# interpretation set-up


def _ref_codec(direction):
    """encoding.encode / encoding.decode restricted to what the text layer uses: identity content coding and charset codecs."""
    f = getattr(codecs, direction)

    def conv(obj, coding, errors="strict"):
        if obj is None:
            return None
        low = coding.lower()
        if low in ("identity", "none"):
            return obj
        try:
            return f(obj, low, errors)
        except TypeError:
            raise
        except Exception as e:
            raise ValueError(f"{type(e).__name__} when {direction[:-1]}ing with {low!r}")

    return conv


def _interp(ctx):
    it = GlobalsInterp(ctx.model, trusted_modules={"re": re, "collections": collections, "logging": NullLog(), "codecs": codecs, "warnings": Warnings()})
    ctx.model.func(ENC, "encode"), ctx.model.func(ENC, "decode")  # anchors of the layer that is replaced
    it.overrides[(ENC, "encode")] = _ref_codec("encode")
    it.overrides[(ENC, "decode")] = _ref_codec("decode")
    return it


def _outcome(it, thunk):
    it.steps = 0
    try:
        return ("ok", thunk())
    except Raised as r:
        return ("raise", r.name)


def _show(o):
    return f"raises {o[1]}" if o[0] == "raise" else f"returns {o[1]!r}"


# ---------------------------------------------------------------------------------------------------
# R32.1 - R32.3: the round-trip table

_CTS_Q = [None, "text/plain", "text/plain; charset=utf-8", "text/plain; charset=ISO-8859-1", "text/html", "text/html; charset=utf-16le", "application/json", "text/xml", "text/css",
          "application/javascript", "text/plain; charset=cp037", "text/plain; charset=x-unknown-charset", "text/html; charset=gb2312", "text/plain; charset=ascii", "application/octet-stream"]
_CTS_T = ["", "text/plain;charset=UTF-8;format=flowed", "application/xhtml+xml", "image/svg+xml; charset=utf-32be", "text/plain; charset=windows-1252", "application/ld+json; charset=latin-1", "nonsense"]
_TEXTS_Q = [None, "", " ", "abc", "line1\r\nline2\t{\"k\": [1, 2]}", "é", "Grüße, señor", "€", "中文 text", "\udcff", "ok \udce9 end"]
_TEXTS_T = ["\n", "x" * 300, "ÀÿĀ", "\U0001f600 emoji", "\udc80\udcfe"]
# texts that carry their own charset evidence, with a Content-Type that declares none (F-C32 class)
_DECL = [
    ("text/html", '<meta charset="latin-1">é'),
    ("text/html", "<html><head><meta http-equiv='Content-Type' content='text/html; charset=iso-8859-1'></head><body>é</body></html>"),
    ("application/xml", '<?xml version="1.0" encoding="iso-8859-1"?><r>é</r>'),
    ("text/css", '@charset "iso-8859-1";\nbody::after{content:"é"}'),
    ("text/plain; charset=utf-8", "\ufeffabc"),
    ("text/plain", "\xff\xfeabc"),
]
PREVIOUS = b"previous body"


def _roundtrips(ctx, it):
    """-> True iff the F-C32 signature was observed (the encoder infers from the header alone, the decoder also from the body)."""
    st = ctx.func(HTTP, "Message.set_text")
    gt = ctx.func(HTTP, "Message.get_text")
    inf = ctx.func(HDRS, INFER)
    ctx.require(len(params(st)) >= 1 and len(params(inf, drop_self=False)) >= 1, "Message.set_text(text) / infer_content_encoding(content_type, ...) signature changed")
    thorough = ctx.tier == "thorough"
    cts = _CTS_Q + (_CTS_T if thorough else [])
    texts = _TEXTS_Q + (_TEXTS_T if thorough else [])
    bad = {}
    counts = collections.Counter()

    def infer(*a):
        o = _outcome(it, lambda: it.call(HDRS, INFER, *a))
        ctx.require(o[0] == "ok" and isinstance(o[1], str), f"{INFER}{a!r} {_show(o)} (the inferred charset must be a str)")
        return o[1]

    def run(ct, text):
        msg = message_rec({} if ct is None else {"Content-Type": ct}, PREVIOUS)
        o1 = _outcome(it, lambda: it.method(msg, "set_text", text))
        return msg, o1

    def where(ct, text):
        return f"Content-Type {ct!r}, text {text!r}"

    for ct in cts:
        c_hdr = infer(ct or "")
        for text in texts:
            msg, o1 = run(ct, text)
            ctx.cells += 1
            if text is None:
                counts["R32.3"] += 1
                back = _outcome(it, lambda: it.method(msg, "get_text"))
                if o1 != ("ok", None) or msg.data.content is not None or back != ("ok", None):
                    bad.setdefault(("R32.3", "None does not clear the body"), f"{where(ct, text)}: set_text {_show(o1)}, content = {msg.data.content!r}, get_text {_show(back)}")
                continue
            try:
                text.encode(c_hdr)
                direct = True
            except (LookupError, UnicodeError):
                direct = False
            try:
                text.encode("utf-8")
                surrogate = False
            except UnicodeError:
                surrogate = True
            rule = "R32.2" if not direct else ("R32.3" if text.isascii() else "R32.1")
            counts[rule] += 1
            stored = msg.data.content
            back = _outcome(it, lambda: it.method(msg, "get_text", False)) if surrogate else _outcome(it, lambda: it.method(msg, "get_text"))
            if o1 == ("ok", None) and back == ("ok", text):
                continue
            ct_after = header_of(msg, CT)
            state = f"{where(ct, text)}: set_text {_show(o1)}, stored body {stored!r}, Content-Type afterwards {ct_after!r}, get_text({'strict=False' if surrogate else ''}) {_show(back)}"
            if o1[0] == "raise":
                clause = "set_text fails" if rule != "R32.2" else "the UTF-8 fallback fails (surrogate-escaped text cannot be stored)" if surrogate else "the UTF-8 fallback fails"
            elif stored == PREVIOUS or stored is None:
                clause = "set_text returns without storing the text"
            elif rule == "R32.2":
                if surrogate and isinstance(stored, bytes) and stored == text.encode("utf-8", "surrogateescape") and _codec(infer(ct_after or "", stored)) == "utf-8":
                    clause = "get_text(strict=False) does not fall back to the inverse of set_text's fallback (utf-8, surrogateescape)"
                else:
                    clause = "the UTF-8 fallback stores bytes that do not read back under the Content-Type it leaves behind"
            elif rule == "R32.1":
                clause = "set_text and get_text choose different charsets from the same Content-Type header"
            else:
                clause = "the stored body is not in the charset get_text infers from the header"
            bad.setdefault((rule, clause), state)

    # texts carrying their own charset evidence
    f_c32 = None
    n_decl = 0
    for ct, text in _DECL:
        msg, o1 = run(ct, text)
        ctx.cells += 1
        n_decl += 1
        back = _outcome(it, lambda: it.method(msg, "get_text"))
        if o1 == ("ok", None) and back == ("ok", text):
            continue
        stored, ct_after = msg.data.content, header_of(msg, CT)
        c_enc = infer(ct)
        sig = False
        if o1 == ("ok", None) and isinstance(stored, bytes) and ct_after == ct:
            c_dec = infer(ct, stored)
            try:
                sig = _codec(c_enc) != _codec(c_dec) and stored == text.encode(c_enc)
            except (LookupError, UnicodeError):
                sig = False
        if sig:
            f_c32 = f_c32 or (f"e.g. {where(ct, text)}: set_text encodes with {c_enc!r} (inferred from the header alone), get_text infers {c_dec!r} from the stored body and {_show(back)}")
        else:
            bad.setdefault(("R32.1", "a text carrying its own charset declaration does not read back (not the F-C32 signature)"),
                           f"{where(ct, text)}: set_text {_show(o1)}, stored body {stored!r}, Content-Type afterwards {ct_after!r}, get_text() {_show(back)}")
    ctx.bounds.append(f"R32.1-R32.3: finite table of {len(cts)} Content-Type values x {len(texts)} texts + {n_decl} texts carrying their own charset evidence")
    if f_c32:
        ctx.fail("R32.1", (HTTP, "Message.set_text", st), F_C32,
                 "the decoder also infers the charset from the body (in-body BOM / <meta charset> / <?xml encoding?> / @charset), the encoder does not: "
                 "a text carrying its own charset declaration is read back with another charset than it was written with; " + f_c32)
    for (rule, clause), state in sorted(bad.items()):
        fn = "Message.get_text" if clause.startswith("get_text") else "Message.set_text"
        ctx.fail(rule, (HTTP, fn, gt if fn.endswith("get_text") else st), f"{fn.split('.')[1]}: {clause}", state)
    for rule, what in (("R32.1", "non-ASCII texts representable in the header's charset read back (encoder and decoder agree on the charset)"),
                       ("R32.2", "texts the header's charset cannot represent read back through the declared UTF-8 fallback (surrogateescape both ways)"),
                       ("R32.3", "None clears the body; empty / blank / ASCII texts read back under every declared charset")):
        ctx.require(counts[rule] >= 5, f"{rule}: the table has only {counts[rule]} cells of this class ({INFER} changed beyond what the table anticipates)")
        if not any(k[0] == rule for k in bad):
            ctx.ok(rule, f"{what} ({counts[rule]} cells)")
    if not f_c32 and not any(k[0] == "R32.1" for k in bad):
        ctx.ok("R32.1", f"texts carrying their own charset evidence read back ({n_decl} cells)")
    return bool(f_c32)


# ---------------------------------------------------------------------------------------------------
# R32.4 decision table of infer_content_encoding

_MEDIA_Q = ["text/html", "application/xhtml+xml", "text/xml", "application/xml", "image/svg+xml", "text/css", "application/json", "application/javascript", "text/plain"]
_MEDIA_T = ["application/rss+xml", "text/ecmascript", "application/ld+json", "application/octet-stream", "text/html+css", "text/css+xml+html"]
_HDR_CS = ["utf-8", "iso-8859-1", "utf-16le", "gb2312", "x-unknown-charset"]
_BODY_CS = ["utf-8", "iso-8859-1", "windows-1252", "gb2312", "x-not-a-charset"]
_HDR_FMT_Q = ["%s; charset=%s"]
_HDR_FMT_T = ["%s;foo=bar; charset=%s"]
_DECLS = {
    "<meta charset>": [b'<!doctype html><html><head><meta charset="%s"><title>t</title></head><body>x</body></html>', b"<meta charset=%s>"],
    "<meta http-equiv>": [b'<html><head><meta http-equiv="Content-Type" content="text/html; charset=%s"></head><body>x</body></html>'],
    "<?xml encoding?>": [b'<?xml version="1.0" encoding="%s"?><r/>', b"<?xml version='1.0' encoding='%s'?><r/>"],
    "@charset": [b'@charset "%s";\nbody{}'],
}
_DECLS_T = {  # thorough tier: the same declarations after leading markup
    "<meta charset>": [b"\n  <!-- c -->\n<HTML><META CHARSET='%s'>"],
    "<?xml encoding?>": [b'\n<?XML version="1.0" encoding="%s" standalone="yes"?><r/>'],
}


def _r32_4(ctx, armed):
    inf = ctx.func(HDRS, INFER)
    where = (HDRS, INFER, inf)
    ips = params(inf, drop_self=False)
    if len(ips) < 2:
        ctx.ok("R32.4", "not armed: the decoder cannot sniff the body (infer_content_encoding takes the header only)")
        return 1
    if not armed:
        ctx.ok("R32.4", "not armed: the F-C32 asymmetry (encoder infers from the Content-Type alone, decoder also from the body) is not present (R32.1 decides the round trip)")
        return 1
    it = GlobalsInterp(ctx.model, trusted_modules={"re": re, "collections": collections, "logging": NullLog(), "codecs": codecs, "warnings": Warnings()})

    def infer(*a):
        it.steps = 0  # the step bound guards one interpretation, not the whole table
        try:
            return it.call(HDRS, INFER, *a)
        except Raised as r:
            return f"<raises {r.name}>"

    thorough = ctx.tier == "thorough"
    media = _MEDIA_Q + (_MEDIA_T if thorough else [])
    fmts = _HDR_FMT_Q + (_HDR_FMT_T if thorough else [])
    prefixes = [b""]
    n_kinds = 0
    for kind, templates in _DECLS.items():
        if thorough:
            templates = templates + _DECLS_T.get(kind, [])
        bad = []
        cells = 0
        for mt in media:
            for fmt in fmts:
                for h in _HDR_CS:
                    ct = fmt % (mt, h)
                    enc_side = infer(ct)
                    for tpl in templates:
                        for b in _BODY_CS:
                            if _codec(b) == _codec(h):
                                continue
                            for pre in prefixes:
                                if pre and kind == "@charset":
                                    continue  # an @charset rule only counts as the very first bytes
                                body = pre + tpl % b.encode()
                                cells += 1
                                dec_side = infer(ct, body)
                                if dec_side != enc_side:
                                    bad.append((ct, body, enc_side, dec_side))
        ctx.cells += cells
        n_kinds += 1
        if bad:
            ct, body, e_, d_ = bad[0]
            ctx.fail("R32.4", where, f"{INFER}: in-body {kind} outranks an explicit Content-Type charset",
                     f"{len(bad)}/{cells} cells, e.g. Content-Type {ct!r} + body {body[:70]!r}: set_text encodes with {e_!r} (header only) but get_text decodes with {d_!r}: "
                     "text carrying a stale/other in-body declaration no longer reads back although the header declares the charset",
                     sample=[(c, bd.decode('latin-1'), a, b_) for c, bd, a, b_ in bad[:5]])
        else:
            ctx.ok("R32.4", f"in-body {kind} never outranks an explicit header charset ({cells} cells)")
    return n_kinds


def check(ctx):
    ctx.rule("R32.1", "set_text ; get_text yields the text for non-ASCII texts the header's charset can represent (same charset chosen from the same header); texts carrying their own charset evidence: F-C32")
    ctx.rule("R32.2", "UTF-8 fallback: texts the header's charset cannot represent read back (declared charset == codec used, header rebuilt, surrogateescape; get_text(strict=False) falls back identically)")
    ctx.rule("R32.3", "None / empty / blank / ASCII texts are stored in the charset get_text infers from the header, under every declared charset; nothing is dropped")
    ctx.rule("R32.4", "infer_content_encoding (interpreted over media types x header charsets x in-body declarations): a BOM-free in-body declaration never outranks an explicit Content-Type charset")
    ctx.trust("stdlib codecs / re / collections")
    ctx.trust("mitmlint.pyint interpretation of http.Message text/content accessors and net/http/headers.py")
    it = _interp(ctx)
    armed = _roundtrips(ctx, it)
    n4 = _r32_4(ctx, armed)

    expect(ctx, "R32.1", 2)
    expect(ctx, "R32.2", 1)
    expect(ctx, "R32.3", 1)
    expect(ctx, "R32.4", n4)


_MAIN = "        enc = infer_content_encoding(self.headers.get(\"content-type\", \"\"))\n\n        try:\n            self.content = cast(bytes, encoding.encode(text, enc))"
_HDR_ELIF = "    elif parsed_content_type := parse_content_type(content_type):\n"

MUTANTS = [
    # R32.3: stores that bypass the charset the decoder infers
    Mutant("ascii-fast-path", HTTP, _MAIN, "        if text.isascii():\n            self.content = text.encode(\"ascii\")\n            return\n" + _MAIN, "R32.3"),
    Mutant("main-store-constant-codec", HTTP, "            self.content = cast(bytes, encoding.encode(text, enc))\n", "            self.content = cast(bytes, encoding.encode(text, \"utf8\"))\n", "R32.3"),
    Mutant("blank-text-dropped", HTTP, _MAIN, "        if not text.strip():\n            return\n" + _MAIN, "R32.3"),
    Mutant("empty-text-stored-as-none", HTTP, "        if text is None:\n            self.content = None\n            return\n        enc = infer", "        if not text:\n            self.content = None\n            return\n        enc = infer", "R32.3"),
    # R32.4: an in-body declaration outranks the explicit header charset
    Mutant("meta-charset-before-header", HDRS, _HDR_ELIF,
           "    elif \"html\" in content_type and (m_ := re.search(rb\"<meta[^>]+charset=['\\\"]?([^'\\\">]+)\", content, re.IGNORECASE)):\n        enc = m_.group(1).decode(\"ascii\", \"ignore\")\n" + _HDR_ELIF, "R32.4"),
    Mutant("xml-declaration-ignores-header", HDRS, "    if not enc and \"xml\" in content_type:\n", "    if \"xml\" in content_type:\n", "R32.4"),
    Mutant("css-charset-ignores-header", HDRS, "    if not enc and \"text/css\" in content_type:\n", "    if \"text/css\" in content_type:\n", "R32.4"),
    # R32.1 fires on the pinned tree (F-C32, known finding); the self-test only counts findings the unmutated tree does not
    # have, so these mutants model *other* evidence asymmetries (different keys).
    Mutant("encoder-ignores-content-type", HTTP, "        enc = infer_content_encoding(self.headers.get(\"content-type\", \"\"))\n\n        try:\n            self.content = cast(bytes, encoding.encode(text, enc))",
           "        enc = \"utf8\"\n\n        try:\n            self.content = cast(bytes, encoding.encode(text, enc))", "R32.1"),
    Mutant("encoder-reads-other-header", HTTP, "        enc = infer_content_encoding(self.headers.get(\"content-type\", \"\"))\n\n        try:\n            self.content = cast(bytes, encoding.encode(text, enc))",
           "        enc = infer_content_encoding(self.headers.get(\"accept\", \"\"))\n\n        try:\n            self.content = cast(bytes, encoding.encode(text, enc))", "R32.1"),
    Mutant("fallback-declares-other-charset", HTTP, "            ct[2][\"charset\"] = \"utf-8\"\n", "            ct[2][\"charset\"] = \"latin-1\"\n", "R32.2"),
    Mutant("fallback-header-not-rebuilt", HTTP, "            self.headers[\"content-type\"] = assemble_content_type(*ct)\n", "", "R32.2"),
    Mutant("fallback-header-rebuilt-too-early", HTTP, "            ct[2][\"charset\"] = \"utf-8\"\n            self.headers[\"content-type\"] = assemble_content_type(*ct)\n",
           "            self.headers[\"content-type\"] = assemble_content_type(*ct)\n            ct[2][\"charset\"] = \"utf-8\"\n", "R32.2"),
    Mutant("fallback-strict-encode", HTTP, "            self.content = text.encode(enc, \"surrogateescape\")\n", "            self.content = text.encode(enc)\n", "R32.2"),
    Mutant("decoder-fallback-latin1", HTTP, "            return content.decode(\"utf8\", \"surrogateescape\")\n", "            return content.decode(\"latin-1\", \"surrogateescape\")\n", "R32.2"),
    Mutant("decoder-fallback-replaces", HTTP, "            return content.decode(\"utf8\", \"surrogateescape\")\n", "            return content.decode(\"utf8\", \"replace\")\n", "R32.2"),
]
