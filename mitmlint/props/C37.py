"""C37 - flow files are crash-consistent.

Decided (R37.1 and R37.2 by INTERPRETING the repository functions with mitmlint/pyint.py against recording stubs - nothing is
imported or run; renamed locals, temporaries, inverted guards, ``while True`` + ``break``, extracted helpers, hoisted constants,
base classes with ``super()`` and added logging / assertions are therefore transparent):
  R37.1 writer: in a stub world the ``Save`` addon is switched on and driven through completion hooks, a filter change and the
        stop; after EVERY hook the stream file (written by the writer class Save really instantiates, through ``tnetstring.dump``)
        holds only whole records and no byte is left unflushed ("a stream file is complete up to the last finished flow at any
        moment").  ``tnetstring.dump`` of a value leaves exactly one whole record; of a value that cannot be serialised it raises
        and leaves the file untouched (no torn record in front of later flows).
  R37.2 reader: ``tnetstring.load`` on EVERY strict prefix of sample records (scalars, nested containers whose inner elements end
        in valid type tags) raises - a short body is never parsed as a record - and returns the value for the whole record without
        reading past it; ``FlowReader.stream`` on every truncation offset of a file of three flows yields exactly the flows that
        are complete before the offset, in order, and then ends or raises FlowReadException - no other exception escapes.
  R37.3 loader ("loading the truncated file yields exactly the flows that were completely written before that point ...
        and then ... reports a flow-read error"): the file loaders (``ReadFile.load_flows``, ``View.load_file``) consume the
        generator ``FlowReader.stream()`` LAZILY - the delivery of a flow (``master.load_flow`` / ``View.add``) is in the body
        of the ``for`` loop that iterates the generator itself (possibly through lazy wrappers: generator expression,
        ``filter``/``map``/``iter``/``enumerate``/``itertools.*``), with the loop item as its argument.  The error for the torn
        tail is raised by the generator AFTER the last complete flow; an eager collector (list/set/dict comprehension,
        ``list()``/``tuple()``/``sorted()``/``.extend()``/``*``-unpacking, or appending in the reading loop and delivering in
        a second loop / in batches) lets that error abort the hand-over of every complete flow read before it.
NOT decided: OS-level durability (power loss), value-level behaviour of parse on complete records beyond the samples, the HAR
reader, ``Flow.from_state`` / ``compat.migrate_flow`` (stubbed: C36).  "The empty-file case maps to a clean end" is not armed
because the property allows either a clean end or a flow-read error after the last complete flow.
Not armed any more: "dump hands the record to the file in ONE write call" - several writes of a fully serialised record put the
same bytes into the same buffer, so that was a rule about shape; what matters (nothing reaches the file when serialising fails)
is decided directly.
"""

from __future__ import annotations

import ast

from ..core import AnalysisError
from ..core import norm
from ..model import last_attr
from ..selftest import Mutant
from ..pyint import Func
from ._helpers_E import expect
from ._helpers_flowio import FileStub
from ._helpers_flowio import SaveWorld
from ._helpers_flowio import drain
from ._helpers_flowio import flat_stack
from ._helpers_flowio import flowio_interp
from ._helpers_flowio import make_flow
from ._helpers_flowio import new_object
from ._helpers_flowio import ref_dumps
from ._helpers_flowio import ref_pop
from ._helpers_flowio import ref_records
from ._helpers_flowio import run

PROP = "C37"
REG = {
    "strength": "partial",
    "technique": "interpretation (pyint) of Save + the stream writer + tnetstring.dump in a stub world with a recording file, and of tnetstring.load / "
    "FlowReader.stream over every truncation offset of sample files; def-use of the stream() generator in the file loaders",
    "claim": "after every save hook the stream file holds whole records only and nothing unflushed; dump never leaves a torn record when serialising "
    "fails; load raises on every strict prefix of the sample records and FlowReader.stream yields exactly the complete flows of every truncated sample "
    "file and then ends or raises FlowReadException; the file loaders hand every flow over inside the loop that iterates the stream() generator lazily, "
    "so the error for a torn tail cannot discard complete flows.",
    "note": "Crash = the process stops; file objects are Python buffered binary files (read(n) returns fewer bytes only at EOF). "
    "Bounded: sample records / three-flow file, every truncation offset of them. Flow.from_state and compat.migrate_flow are stubbed.",
}

IO = "mitmproxy/io/io.py"
TN = "mitmproxy/io/tnetstring.py"


SAVE = "mitmproxy/addons/save.py"
READFILE = "mitmproxy/addons/readfile.py"
VIEW = "mitmproxy/addons/view.py"


# ---- R37.3: lazy consumption of FlowReader.stream()

_LAZY_FUNCS = {"filter", "map", "iter", "enumerate", "islice", "takewhile", "dropwhile", "chain", "filterfalse", "starmap", "cast"}
_EAGER_FUNCS = {"list", "tuple", "sorted", "set", "frozenset", "reversed", "deque", "extend", "dict", "sum", "max", "min", "len", "join", "Counter", "array"}


def _is_reader_stream(fn, call):
    """``<FlowReader(...)>.stream()`` or ``<name bound to FlowReader(...)>.stream()``."""
    if not (isinstance(call, ast.Call) and isinstance(call.func, ast.Attribute) and call.func.attr == "stream" and not call.args and not call.keywords):
        return False
    recv = call.func.value
    if isinstance(recv, ast.Call):
        return last_attr(recv.func) == "FlowReader"
    if isinstance(recv, ast.Name):
        srcs = [s.value for s in ast.walk(fn) if isinstance(s, ast.Assign) and any(isinstance(t, ast.Name) and t.id == recv.id for t in s.targets)]
        return bool(srcs) and all(isinstance(v, ast.Call) and last_attr(v.func) == "FlowReader" for v in srcs)
    return False


def _consumers(fn, node, seen=()):
    """How is the (lazy) iterable ``node`` consumed?  -> [("for", For) | ("eager", node, what)].
    Lazy wrappers are followed; anything else is refused (AnalysisError)."""
    p = getattr(node, "_parent", None)
    if isinstance(p, (ast.For, ast.AsyncFor)) and p.iter is node:
        return [("for", p)]
    if isinstance(p, ast.comprehension) and p.iter is node:
        comp = p._parent
        if isinstance(comp, ast.GeneratorExp):
            if comp.generators[0] is not p:
                return [("eager", comp, "an inner clause of a generator expression (re-read for every outer item)")]
            return _consumers(fn, comp, seen)
        return [("eager", comp, {"ListComp": "a list comprehension", "SetComp": "a set comprehension", "DictComp": "a dict comprehension"}[type(comp).__name__])]
    if isinstance(p, ast.Starred):
        return [("eager", p._parent, "*-unpacking")]
    if isinstance(p, ast.Call) and any(a is node for a in p.args):
        name = last_attr(p.func)
        if name in _LAZY_FUNCS:
            return _consumers(fn, p, seen)
        if name in _EAGER_FUNCS:
            return [("eager", p, f"{name}()")]
        raise AnalysisError(f"{fn.name}: the stream() generator is passed to {norm(p.func)}(): laziness of that consumer is not modelled")
    if isinstance(p, ast.Assign) and p.value is node and len(p.targets) == 1 and isinstance(p.targets[0], ast.Name):
        name = p.targets[0].id
        if name in seen:
            raise AnalysisError(f"{fn.name}: cyclic rebinding of {name}")
        stores = [n for n in ast.walk(fn) if isinstance(n, ast.Name) and n.id == name and isinstance(n.ctx, (ast.Store, ast.Del))]
        if len(stores) != 1:
            raise AnalysisError(f"{fn.name}: {name} (bound to the stream() generator) is assigned {len(stores)}x: not modelled")
        out = []
        for n in ast.walk(fn):
            if isinstance(n, ast.Name) and n.id == name and isinstance(n.ctx, ast.Load):
                out += _consumers(fn, n, seen + (name,))
        if not out:
            raise AnalysisError(f"{fn.name}: {name} (the stream() generator) is never consumed")
        return out
    raise AnalysisError(f"{fn.name}: the stream() generator is used in {type(p).__name__} `{norm(p)[:80]}`: not modelled")


def _item_names(loop):
    """Names carrying the loop item inside the body: the target names and locals derived from them."""
    names = {n.id for n in ast.walk(loop.target) if isinstance(n, ast.Name)}
    changed = True
    while changed:
        changed = False
        for st in ast.walk(loop):
            if isinstance(st, (ast.Assign, ast.AnnAssign, ast.NamedExpr)) and getattr(st, "value", None) is not None:
                if any(isinstance(n, ast.Name) and n.id in names for n in ast.walk(st.value)):
                    tg = st.targets if isinstance(st, ast.Assign) else [st.target]
                    for t in tg:
                        for n in ast.walk(t):
                            if isinstance(n, ast.Name) and n.id not in names:
                                names.add(n.id)
                                changed = True
    return names


def _nearest_loop(node, fn):
    n = getattr(node, "_parent", None)
    child = node
    while n is not None and n is not fn:
        if isinstance(n, (ast.For, ast.AsyncFor, ast.While)) and any(child is b for b in n.body):
            return n
        if isinstance(n, (ast.ListComp, ast.SetComp, ast.DictComp, ast.GeneratorExp)):
            return n
        child, n = n, getattr(n, "_parent", None)
    return None


def _lazy_loader(ctx, rel, qual, sink_name, sink_desc):
    """R37.3 for one loader: every delivery call (``<...>.<sink_name>(...)``, directly or through a same-class helper
    called with the item) sits in the body of the for loop that iterates FlowReader.stream() lazily."""
    fn = ctx.func(rel, qual)
    cls_qual = qual.rsplit(".", 1)[0]
    streams = [c for c in ast.walk(fn) if _is_reader_stream(fn, c)]
    ctx.require(len(streams) == 1, f"{qual}: {len(streams)} FlowReader(...).stream() calls (expected one; loader shape not modelled)")
    cons = _consumers(fn, streams[0])
    ok = True
    loops = []
    for c in cons:
        if c[0] == "eager":
            ok = False
            ctx.fail("R37.3", (rel, qual, c[1]), f"{fn.name}: stream() drained by {c[2]}",
                     f"the generator FlowReader.stream() is consumed eagerly by {c[2]} before any flow reaches {sink_desc}: the flow-read error of a "
                     "truncated tail aborts the collection and every complete flow in front of it is lost")
        else:
            loops.append(c[1])

    def delivers(call, depth=0):
        """Is ``call`` the sink, or a same-class helper whose body reaches the sink?"""
        cn = norm(call.func)
        if cn == sink_name or cn.endswith("." + sink_name):
            return True
        f = call.func
        if depth < 2 and isinstance(f, ast.Attribute) and isinstance(f.value, ast.Name) and f.value.id == "self":
            hit = ctx.model.method(rel, cls_qual, f.attr)
            if hit is not None and hit[1] is not fn:
                return any(isinstance(n, ast.Call) and delivers(n, depth + 1) for n in ast.walk(hit[1]))
        return False

    sinks = [n for n in ast.walk(fn) if isinstance(n, ast.Call) and delivers(n)]
    ctx.require(sinks or not ok, f"{qual}: no delivery call ({sink_name}) found (loader shape not modelled)")
    for loop in loops:
        items = _item_names(loop)
        inside = [s for s in sinks if _nearest_loop(s, fn) is loop]
        fed = [s for s in inside if any(isinstance(n, ast.Name) and n.id in items for a in list(s.args) + [k.value for k in s.keywords] for n in ast.walk(a))]
        if not fed:
            ok = False
            ctx.fail("R37.3", (rel, qual, loop), f"{fn.name}: `for {norm(loop.target)} in {norm(loop.iter)[:60]}` does not deliver its item",
                     f"the loop that reads the flows does not hand each flow to {sink_desc} before the next record is read (collected first / delivered in "
                     "batches): the flow-read error of a truncated tail is raised while complete flows are still undelivered")
    for s in sinks:
        if ok and _nearest_loop(s, fn) not in loops:
            ok = False
            ctx.fail("R37.3", (rel, qual, s), f"{fn.name}: {norm(s)[:80]} outside the reading loop",
                     f"flows are handed to {sink_desc} outside the loop that iterates FlowReader.stream(): they are delivered only after the whole file was read")
    if ok:
        ctx.ok("R37.3", f"{qual}: {sink_desc} is fed per item inside `for {norm(loops[0].target)} in {norm(loops[0].iter)[:50]}` (lazy; {len(sinks)} delivery call(s))")



# ---- R37.1 / R37.2: interpretation

_SAMPLES = [
    ("bytes", b"hello"),
    ("text", "5:ab,"),
    ("int", 1234),
    ("null", None),
    ("list", [b"x,", 7, True]),
    ("dict", {"id": "a1", "k": [1, None, b"q;", 2.5], "n": {"m": b"3:abc,"}}),
]


def _writer_rule(ctx):
    """R37.1: the stream file after every save hook."""
    w = SaveWorld(ctx.model)
    save_cls = ctx.model.cls(SAVE, "Save")
    flows = [make_flow("f1", "HTTPFlow", "x"), make_flow("f2", "TCPFlow", "y"), make_flow("f3", "DNSFlow", "x"), make_flow("f4", "UDPFlow", "xy"), make_flow("f5", "HTTPFlow", "x")]
    script = [
        ("configure", dict(save_stream_file="/dump")),
        ("request", flows[0]), ("tcp_start", flows[1]), ("udp_start", flows[3]), ("request", flows[4]),
        ("response", flows[0]), ("tcp_end", flows[1]),
        ("configure", dict(save_stream_filter="x")),
        ("dns_response", flows[2]), ("tcp_error", flows[1]), ("error", flows[0]),
        ("configure", dict(save_stream_file=None)),
    ]
    writer = None
    bad = False
    written = 0
    for ev in script:
        name = ev[0]
        if name != "configure" and not w.has(name):
            continue  # a missing hook is C39's finding
        st = w.configure(**ev[1]) if name == "configure" else w.hook(name, ev[1])
        ctx.require(st == "ok", f"Save.{w.trace[-1]} in the stub world (C39 decides the hooks; C37 needs them to run)")
        s = w.stream_object()
        if s is not None and getattr(s, "_impl", None):
            writer = s._impl
        ctx.cells += 1
        for path, mode, stub, _ in w.stubs:
            recs, tail = ref_records(bytes(stub.data))
            written = max(written, len(recs))
            where = (writer[0], writer[1] + ".add", ctx.model.cls(*writer)) if writer else (SAVE, "Save", save_cls)
            if tail and not bad:
                bad = True
                ctx.fail("R37.1", where, "stream file holds a partial record after a save hook",
                         f"after {w.trace[-1]} the stream file ends in {len(tail)} bytes that are no whole record   [history: {' ; '.join(w.trace)}]")
            if stub.durable[0] != len(stub.data) and not bad:
                bad = True
                ctx.fail("R37.1", where, "stream file not flushed after a save hook",
                         f"after {w.trace[-1]} {len(stub.data) - stub.durable[0]} bytes of the finished flow were handed to the file but not flushed: the stream file "
                         f"lacks the finished flow until some later write   [history: {' ; '.join(w.trace)}]")
    ctx.require(bad or (writer is not None and written >= 3), f"the stub world saw no stream writer / only {written} records (Save.stream moved? shape not modelled)")
    if not bad:
        ctx.functions.add(f"{writer[0]}::{writer[1]}.add")
        ctx.ok("R37.1", f"{writer[1]} (the writer Save streams to): after each of {len(script)} hooks the file holds whole records only, nothing unflushed ({written} records)")


def _dump_rule(ctx):
    dump = ctx.func(TN, "dump")
    it = flowio_interp(ctx.model)
    f = Func(ctx.model.module(TN), dump)
    bad = False
    for name, v in _SAMPLES:
        fo = FileStub(b"")
        r = run(it, f, v, fo)
        ctx.cells += 1
        got = ref_pop(bytes(fo.data))
        if not bad and (r[0] != "ok" or got is None or got[1] != b"" or got[0] != v):
            bad = True
            ctx.fail("R37.1", (TN, "dump", dump), "dump does not leave one whole record",
                     f"dump({v!r}) {'raises ' + r[1] if r[0] != 'ok' else 'left ' + repr(bytes(fo.data))}: not exactly one whole record of the value")
    for name, v in [("set leaf", {"id": "a", "bad": {1, 2}}), ("object in list", [1, b"x", object()]), ("nested", {"a": {"b": [b"ok", {3}]}})]:
        fo = FileStub(b"")
        r = run(it, f, v, fo)
        ctx.cells += 1
        if not bad and (r[0] != "raise" or fo.data):
            bad = True
            ctx.fail("R37.1", (TN, "dump", dump), "dump of an unserialisable value touches the file",
                     f"dump of a value with an unserialisable part ({name}) {'returned' if r[0] == 'ok' else 'raised ' + r[1]} and left {bytes(fo.data)!r} in the file: "
                     "a failure while serialising leaves a torn record in front of later flows")
    if not bad:
        ctx.ok("R37.1", f"tnetstring.dump: one whole record per value ({len(_SAMPLES)} samples); nothing reaches the file when serialising fails")


def _load_rule(ctx):
    load = ctx.func(TN, "load")
    it = flowio_interp(ctx.model)
    f = Func(ctx.model.module(TN), load)
    bad = set()
    excs = set()
    n = 0
    for name, v in _SAMPLES:
        rec = ref_dumps(v)
        for k in range(len(rec) + 1):
            fo = FileStub(rec[:k] if k < len(rec) else rec + b"7:trailer,")
            r = run(it, f, fo)
            n += 1
            ctx.cells += 1
            if k < len(rec):
                if r[0] == "ok" and "t" not in bad:
                    bad.add("t")
                    ctx.fail("R37.2", (TN, "load", load), "load returns a value for a truncated record",
                             f"the record {rec!r} cut after {k} bytes ({rec[:k]!r}) is parsed as {r[1]!r}: a partially written record is returned")
                elif r[0] == "raise":
                    excs.add(r[1])
            else:
                if (r != ("ok", v) or fo.pos != len(rec)) and "c" not in bad:
                    bad.add("c")
                    what = f"raises {r[1]}" if r[0] == "raise" else f"gives {r[1]!r}, file position {fo.pos}"
                    ctx.fail("R37.2", (TN, "load", load), "load does not read a whole record exactly",
                             f"the complete record {rec!r} (followed by another record) {what}; expected {v!r} and position {len(rec)}: complete flows are lost / the next record is damaged")
    if not bad:
        ctx.ok("R37.2", f"tnetstring.load: raises {sorted(excs)} on each of {n - len(_SAMPLES)} strict prefixes of {len(_SAMPLES)} sample records; whole records load and leave the file at their end")
    return excs


def _stream_rule(ctx):
    stream = ctx.func(IO, "FlowReader.stream")
    it = flowio_interp(ctx.model)
    ids = [("f1", "http"), ("f2", "tcp"), ("f3", "dns")]
    recs = [ref_dumps({"id": i, "type": t, "version": 21}) for i, t in ids]
    data = b"".join(recs)
    ends, acc = [], 0
    for r in recs:
        acc += len(r)
        ends.append(acc)
    outcomes = {}
    bad = set()
    for k in range(len(data) + 1):
        fo = FileStub(data[:k])
        rd = new_object(it, ctx.model, IO, "FlowReader", fo)
        vals, end = drain(it, it.method(rd, "stream"))
        ctx.cells += 1
        want = [("FLOW", i) for (i, _), e in zip(ids, ends) if e <= k]
        if vals != want and "v" not in bad:
            bad.add("v")
            ctx.fail("R37.2", (IO, "FlowReader.stream", stream), "stream does not yield exactly the complete flows of a truncated file",
                     f"a file of {len(ids)} flows cut after {k} bytes yields {[v[1] if isinstance(v, tuple) else v for v in vals]}, expected {[w[1] for w in want]} (record ends at {ends})")
        if end not in ("end", "raise:FlowReadException") and "e" not in bad:
            bad.add("e")
            ctx.fail("R37.2", (IO, "FlowReader.stream", stream), f"stream lets {end.split(':')[1]} escape on a truncated file",
                     f"a file of {len(ids)} flows cut after {k} bytes makes stream() end with {end} instead of a clean end or FlowReadException")
        outcomes[end] = outcomes.get(end, 0) + 1
    if not bad:
        ctx.ok("R37.2", f"FlowReader.stream: {len(data) + 1} truncation offsets of a {len(ids)}-flow file -> exactly the complete flows, then {sorted(outcomes)}")


def check(ctx):
    flat_stack(_check, ctx)


def _check(ctx):
    ctx.rule("R37.1", "stream writer: after every save hook the stream file holds whole records only and nothing unflushed; dump leaves no torn record when serialising fails")
    ctx.rule("R37.2", "reader: load raises on every strict prefix of a record and reads whole records exactly; stream() yields exactly the complete flows of a truncated file, then ends or raises FlowReadException")
    ctx.rule("R37.3", "loaders: FlowReader.stream() is consumed lazily - each flow is delivered inside the loop iterating the generator, so the error of a torn tail cannot discard complete flows")
    ctx.assume("crash model: the writing process stops at an arbitrary byte; regular buffered binary files")
    ctx.trust("wire-format reference, file / flow / filter stubs of _helpers_flowio; Flow.from_state and compat.migrate_flow stubbed (C36)")
    ctx.bounds.append(f"{len(_SAMPLES)} sample records and one three-flow file, every truncation offset; one stream-saving history")

    ctx.guard(_writer_rule, ctx)
    ctx.guard(_dump_rule, ctx)
    ctx.guard(_load_rule, ctx)
    ctx.guard(_stream_rule, ctx)

    # ---- R37.3 loaders deliver each flow before reading the next record
    ctx.guard(_lazy_loader, ctx, READFILE, "ReadFile.load_flows", "load_flow", "master.load_flow")
    ctx.guard(_lazy_loader, ctx, VIEW, "View.load_file", "self.add", "View.add")

    expect(ctx, "R37.1", 2)
    expect(ctx, "R37.2", 2)
    expect(ctx, "R37.3", 2)


MUTANTS = [
    Mutant("no-flush", IO, "        tnetstring.dump(d, self.fo)\n        self.fo.flush()\n", "        tnetstring.dump(d, self.fo)\n", "R37.1"),
    Mutant("flush-before-record", IO, "        tnetstring.dump(d, self.fo)\n        self.fo.flush()\n", "        self.fo.flush()\n        tnetstring.dump(d, self.fo)\n", "R37.1"),
    Mutant("flush-only-when-filtered", IO, "        tnetstring.dump(d, self.fo)\n        self.fo.flush()\n", "        tnetstring.dump(d, self.fo)\n        if self.flt:\n            self.fo.flush()\n", "R37.1"),
    # seed C37a: the filtered writer becomes a subclass delegating to FlowWriter.add, which never flushed
    Mutant("delegate-to-unflushed-base", IO,
           "class FilteredFlowWriter:\n    def __init__(self, fo: BinaryIO, flt: flowfilter.TFilter | None):\n        self.fo = fo\n        self.flt = flt\n\n"
           "    def add(self, f: flow.Flow) -> None:\n        if self.flt and not flowfilter.match(self.flt, f):\n            return\n"
           "        d = f.get_state()\n        tnetstring.dump(d, self.fo)\n        self.fo.flush()\n",
           "class FilteredFlowWriter(FlowWriter):\n    def __init__(self, fo: BinaryIO, flt: flowfilter.TFilter | None):\n        super().__init__(fo)\n        self.flt = flt\n\n"
           "    def add(self, f: flow.Flow) -> None:\n        if self.flt and not flowfilter.match(self.flt, f):\n            return\n"
           "        super().add(f)\n", "R37.1"),
    Mutant("write-helper-without-flush", IO, "        d = f.get_state()\n        tnetstring.dump(d, self.fo)\n        self.fo.flush()\n",
           "        self._write(f)\n\n    def _write(self, f: flow.Flow) -> None:\n        d = f.get_state()\n        tnetstring.dump(d, self.fo)\n", "R37.1"),
    Mutant("stream-through-plain-writer", SAVE, "self.stream = io.FilteredFlowWriter(f, self.filt)", "self.stream = io.FlowWriter(f)", "R37.1"),
    Mutant("dump-writes-partial-on-error", TN, "    file_handle.write(dumps(value))\n",
           "    q: collections.deque = collections.deque()\n    try:\n        _rdumpq(q, 0, value)\n    finally:\n        file_handle.write(b\"\".join(q))\n", "R37.1"),
    Mutant("tag-read-tolerates-eof", TN, "    data_type = file_handle.read(1)[0]\n", "    data_type = (file_handle.read(1) or b\",\")[0]\n", "R37.2"),
    Mutant("tag-read-before-body", TN, "    data = memoryview(file_handle.read(int(data_length)))\n    data_type = file_handle.read(1)[0]\n",
           "    data_type = file_handle.read(1)[0]\n    data = memoryview(file_handle.read(int(data_length)))\n", "R37.2"),
    Mutant("tag-from-body-tail", TN, "    data = memoryview(file_handle.read(int(data_length)))\n    data_type = file_handle.read(1)[0]\n",
           "    data = memoryview(file_handle.read(int(data_length) + 1))\n    data, data_type = data[:-1], data[-1]\n", "R37.2"),
    Mutant("body-read-unbounded", TN, "file_handle.read(int(data_length))", "file_handle.read()", "R37.2"),
    Mutant("indexerror-not-mapped", IO, "                TypeError,\n                IndexError,\n                KeyError,", "                TypeError,\n                KeyError,", "R37.2"),
    # seed C37b: the loader drains stream() into a list before the first flow is handed over
    Mutant("loader-collects-list-first", READFILE,
           "            for flow in freader.stream():\n                if self.filter and not self.filter(flow):\n                    continue\n",
           "            flows = [flow for flow in freader.stream() if not self.filter or self.filter(flow)]\n            for flow in flows:\n", "R37.3"),
    Mutant("loader-iterates-list-of-stream", READFILE, "for flow in freader.stream():", "for flow in list(freader.stream()):", "R37.3"),
    Mutant("loader-appends-then-delivers", READFILE,
           "        try:\n            for flow in freader.stream():\n                if self.filter and not self.filter(flow):\n                    continue\n"
           "                await ctx.master.load_flow(flow)\n                cnt += 1\n",
           "        pending = []\n        try:\n            for flow in freader.stream():\n                if self.filter and not self.filter(flow):\n                    continue\n"
           "                pending.append(flow)\n            for flow in pending:\n                await ctx.master.load_flow(flow)\n                cnt += 1\n", "R37.3"),
    Mutant("view-loader-sorts-first", VIEW, "for i in io.FlowReader(f).stream():", "for i in sorted(io.FlowReader(f).stream(), key=lambda x: x.timestamp_created):", "R37.3"),
    Mutant("handler-reraises-raw", IO, "                raise exceptions.FlowReadException(\"Invalid data format.\") from e", "                raise", "R37.2"),
]
