"""C37 - flow files are crash-consistent.

Decided:
  R37.1 writer: ``FilteredFlowWriter.add`` flushes the file after the record on every writing path (a stream file
        is complete up to the last finished flow after each save hook); ``tnetstring.dump`` serialises the whole
        value first and hands it to the file in ONE ``write`` call (a serialisation error in the middle of a flow
        cannot leave a torn record in front of later records).
  R37.2 reader: ``tnetstring.load`` reads the length prefix, reads exactly ``int(prefix)`` bytes, and only THEN reads
        the trailing type tag in a way that fails on an empty read (``read(1)[0]`` -> IndexError, ``ord(read(1))`` ->
        TypeError) before handing (tag, body) to ``parse`` - so a short body can never be parsed as a record;
        ``FlowReader.stream`` converts every exception such a truncation raises in ``load`` into FlowReadException
        (or a clean end), never lets it escape raw.
NOT decided: OS-level durability (power loss), value-level behaviour of parse on complete records, the HAR reader.
Dropped from DESIGN: R37.3 (save_flow/done ordering) is fully covered by R39.2 and is not a crash-consistency
condition; "the empty-file case maps to a clean end" is not armed because the property allows either a clean end or
a flow-read error after the last complete flow (the message agreement matters for C36, not here).
"""

from __future__ import annotations

import ast

from ..model import last_attr
from ..selftest import Mutant
from ._helpers_E import params
from ._helpers_E import expect
from ._helpers_E import paths
from ._helpers_E import raises_at
from ._helpers_E import show

PROP = "C37"
REG = {
    "strength": "partial",
    "technique": "path enumeration (must-follow / order of reads) over FilteredFlowWriter.add, tnetstring.dump/load and FlowReader.stream with implicit exception edges",
    "claim": "the stream writer flushes after every record and hands each record to the file in one write; the reader reads exactly the "
    "prefixed length and then a trailing type tag that fails on EOF, and every exception a truncation raises in load is converted to "
    "FlowReadException or a clean end.",
    "note": "Crash = the process stops; file objects are Python buffered binary files (read(n) returns fewer bytes only at EOF). "
    "Loops unrolled once.",
}

IO = "mitmproxy/io/io.py"
TN = "mitmproxy/io/tnetstring.py"


def _strict_tag(ev, fh):
    """Is the event a type-tag read that raises on an empty read?"""
    rd = f"{fh}.read(1)"
    if ev[0] == "sub" and ev[1] == rd and ev[2] == "0":
        return "IndexError"
    if ev[0] == "call" and ev[1] == "ord" and ev[2] == (rd,):
        return "TypeError"
    return None


def check(ctx):
    ctx.rule("R37.1", "stream writer: flush follows the record on every writing path; dump = one write of the fully serialised record")
    ctx.rule("R37.2", "reader: exact-length body read, then a trailing tag read that fails on EOF, then parse(tag, body); truncation exceptions become FlowReadException")
    ctx.assume("crash model: the writing process stops at an arbitrary byte; regular buffered binary files")

    # ---- R37.1 flush after the record
    add = ctx.func(IO, "FilteredFlowWriter.add")
    trs, eng = paths(add, keep=lambda e: e[0] == "call" and (e[1].endswith("dump") or e[1].endswith(".write") or e[1].endswith(".flush") or e[1].endswith(".close")))
    ctx.paths += len(trs)
    writing = 0
    bad = False
    for t, how in trs:
        if how != "return":
            continue
        w = [i for i, e in enumerate(t) if e[0] == "call" and ((e[1].endswith("dump") and any(a.split("=", 1)[-1] == "self.fo" for a in e[2])) or e[1] == "self.fo.write")]
        if not w:
            continue
        writing += 1
        fl = [i for i, e in enumerate(t) if e[0] == "call" and e[1] in ("self.fo.flush", "self.fo.close")]
        if not fl or fl[-1] < w[-1]:
            bad = True
            ctx.fail("R37.1", (IO, "FilteredFlowWriter.add", add), f"add: path [{show(t)}]",
                     "a record is handed to the file without a following flush: after the save hook the stream file may lack the finished flow")
    ctx.require(bad or writing >= 1, "FilteredFlowWriter.add: no path writes a record to self.fo (writer shape not recognised)")
    if not bad:
        ctx.ok("R37.1", f"FilteredFlowWriter.add: flush follows the record on {writing} writing path(s)")

    # ---- R37.1 one write of the complete record
    dump = ctx.func(TN, "dump")
    ps = params(dump, drop_self=False)
    ctx.require(len(ps) == 2, "tnetstring.dump(value, file_handle) signature changed")
    val, fh = ps
    dumps = ctx.func(TN, "dumps")
    ctx.require(len(params(dumps, drop_self=False)) == 1, "tnetstring.dumps(value) signature changed (it must not see the file)")
    writes, foreign = [], []
    for n in ast.walk(dump):
        if isinstance(n, ast.Name) and n.id == fh and isinstance(n.ctx, ast.Load):
            par = n._parent
            call = getattr(par, "_parent", None)
            if isinstance(par, ast.Attribute) and isinstance(call, ast.Call) and call.func is par:
                if par.attr == "write":
                    writes.append(call)
                elif par.attr not in ("flush",):
                    foreign.append(call)
            else:
                foreign.append(par)
    ctx.require(not foreign, f"tnetstring.dump uses the file handle other than by .write(): {[ast.unparse(x) for x in foreign]} - not modelled")

    def full_record(arg):
        if isinstance(arg, ast.Name):
            src = [s.value for s in ast.walk(dump) if isinstance(s, ast.Assign) and any(isinstance(t, ast.Name) and t.id == arg.id for t in s.targets)]
            return len(src) == 1 and full_record(src[0])
        return isinstance(arg, ast.Call) and last_attr(arg.func) == "dumps" and len(arg.args) == 1 and isinstance(arg.args[0], ast.Name) and arg.args[0].id == val

    def in_loop(n):
        while n is not None and n is not dump:
            if isinstance(n, (ast.For, ast.While, ast.comprehension, ast.ListComp, ast.GeneratorExp)):
                return True
            n = getattr(n, "_parent", None)
        return False

    good = len(writes) == 1 and not in_loop(writes[0]) and len(writes[0].args) == 1 and full_record(writes[0].args[0])
    ctx.check(good, "R37.1", (TN, "dump", dump), f"dump: {len(writes)} write call(s): " + " ; ".join(ast.unparse(w) for w in writes),
              "a record is not written as one write of the fully serialised value: a failure while serialising leaves a torn record in front of later flows",
              desc="tnetstring.dump: single write(dumps(value))")

    # ---- R37.2 load: prefix, exact body, strict trailing tag, parse(tag, body)
    load = ctx.func(TN, "load")
    lp = params(load, drop_self=False)
    ctx.require(len(lp) == 1, "tnetstring.load(file_handle) signature changed")
    lfh = lp[0]
    rd = f"{lfh}.read"
    trs, eng = paths(load, subscripts=True, keep=lambda e: (e[0] == "call" and e[1] in (rd, "ord", "len", "parse")) or e[0] in ("sub", "assign", "return"))
    ctx.paths += len(trs)
    bad = False
    returning = 0
    tag_excs = set()
    for t, how in trs:
        if how != "return":
            continue
        returning += 1
        body = [i for i, e in enumerate(t) if e[0] == "call" and e[1] == rd and e[2] != ("1",)]
        probs = []
        if len(body) != 1:
            probs.append(f"{len(body)} body reads on a returning path (expected exactly one read of int(<prefix>) bytes)")
        else:
            b = body[0]
            arg = t[b][2]
            pref = None
            if len(arg) == 1 and arg[0].startswith("int(") and arg[0].endswith(")") and arg[0][4:-1].isidentifier():
                pref = arg[0][4:-1]
            if pref is None or not any(e[0] == "assign" and e[1] == pref for e in t[:b]):
                probs.append(f"the body read {rd}({', '.join(arg)}) does not read exactly the prefixed length")
            strict = [(i, _strict_tag(e, lfh)) for i, e in enumerate(t) if _strict_tag(e, lfh)]
            after = [(i, x) for i, x in strict if i > b]
            later_reads = [i for i, e in enumerate(t) if e[0] == "call" and e[1] == rd and i > b]
            if not after:
                probs.append("after the body no type tag is read in a way that fails on EOF (read(1)[0] / ord(read(1))): a truncated body would be parsed as a record")
            else:
                tag_excs.add(after[0][1])
                if len(later_reads) != 1:
                    probs.append(f"{len(later_reads)} reads after the body (expected only the type tag)")
                # parse(tag, body): the operands are the values read above
                ret = [e for e in t if e[0] == "return"]
                rv = ast.parse(ret[-1][1], mode="eval").body if ret else None
                if not (isinstance(rv, ast.Call) and last_attr(rv.func) == "parse" and len(rv.args) == 2 and not rv.keywords):
                    probs.append("load does not return parse(tag, body)")
                else:
                    def origin(a):
                        if isinstance(a, ast.Name):
                            src = [e[2] for e in t if e[0] == "assign" and e[1] == a.id]
                            return src[-1] if src else ""
                        return ast.unparse(a)
                    o_tag, o_body = origin(rv.args[0]), origin(rv.args[1])
                    body_txt = f"{rd}({', '.join(arg)})"
                    tag_ok = o_tag in (f"{rd}(1)[0]", f"ord({rd}(1))")
                    body_ok = o_body in (body_txt, f"memoryview({body_txt})", f"bytes({body_txt})")
                    if not tag_ok:
                        probs.append(f"parse's type tag is '{o_tag}', not the strict trailing read")
                    if not body_ok:
                        probs.append(f"parse's data is '{o_body}', not the exact-length body read")
        for p in probs:
            bad = True
            ctx.fail("R37.2", (TN, "load", load), f"load: path [{show([e for e in t if e[0] in ('call', 'sub')], 8)}]", p)
    ctx.require(bad or returning >= 1, "tnetstring.load has no returning path")
    if not bad:
        ctx.ok("R37.2", f"tnetstring.load: {returning} returning paths: int(prefix) body read, then strict tag read ({sorted(tag_excs)}), then parse(tag, body)")

    # ---- R37.2 FlowReader.stream maps truncation exceptions
    trunc = {"ValueError"} | (tag_excs or {"IndexError"})
    explicit = {last_attr(n.exc) for n in ast.walk(load) if isinstance(n, ast.Raise) and n.exc is not None}
    ctx.require(explicit <= {"ValueError"}, f"tnetstring.load raises {sorted(explicit)}: extend the truncation exception set of R37.2")
    stream = ctx.func(IO, "FlowReader.stream")
    load_calls = [c for c in ast.walk(stream) if isinstance(c, ast.Call) and ast.unparse(c.func) in ("tnetstring.load", "load")]
    ctx.require(len(load_calls) == 1, f"FlowReader.stream calls tnetstring.load {len(load_calls)}x (expected once)")

    for exc in sorted(trunc):
        trs, eng = paths(stream, keep=lambda e: e[0] in ("raise",), record_conds=False,
                         may_raise=raises_at(load_calls[0], [exc]))
        ctx.paths += len(trs)
        outcomes = set()
        for t, how in trs:
            if not any(e[0] == "except" and e[1] == exc for e in t) and how != f"raise:{exc}":
                continue
            outcomes.add(how)
        escaped = sorted(o for o in outcomes if o not in ("return", "raise:FlowReadException"))
        if not outcomes:
            ctx.fail("R37.2", (IO, "FlowReader.stream", stream), f"stream: {exc} from tnetstring.load", f"no handler encloses tnetstring.load: a truncated file raises a raw {exc}")
        elif escaped:
            ctx.fail("R37.2", (IO, "FlowReader.stream", stream), f"stream: {exc} from tnetstring.load", f"a truncated record raises {exc} in load, which leaves stream() as {escaped} instead of FlowReadException")
        else:
            ctx.ok("R37.2", f"stream: {exc} from load -> {sorted(outcomes)}")

    expect(ctx, "R37.1", 2)
    expect(ctx, "R37.2", 3)


MUTANTS = [
    Mutant("no-flush", IO, "        tnetstring.dump(d, self.fo)\n        self.fo.flush()\n", "        tnetstring.dump(d, self.fo)\n", "R37.1"),
    Mutant("flush-before-record", IO, "        tnetstring.dump(d, self.fo)\n        self.fo.flush()\n", "        self.fo.flush()\n        tnetstring.dump(d, self.fo)\n", "R37.1"),
    Mutant("flush-only-when-filtered", IO, "        tnetstring.dump(d, self.fo)\n        self.fo.flush()\n", "        tnetstring.dump(d, self.fo)\n        if self.flt:\n            self.fo.flush()\n", "R37.1"),
    Mutant("dump-writes-chunks", TN, "    file_handle.write(dumps(value))\n",
           "    q: collections.deque = collections.deque()\n    _rdumpq(q, 0, value)\n    for chunk in q:\n        file_handle.write(chunk)\n", "R37.1"),
    Mutant("tag-read-tolerates-eof", TN, "    data_type = file_handle.read(1)[0]\n", "    data_type = (file_handle.read(1) or b\",\")[0]\n", "R37.2"),
    Mutant("tag-read-before-body", TN, "    data = memoryview(file_handle.read(int(data_length)))\n    data_type = file_handle.read(1)[0]\n",
           "    data_type = file_handle.read(1)[0]\n    data = memoryview(file_handle.read(int(data_length)))\n", "R37.2"),
    Mutant("tag-from-body-tail", TN, "    data = memoryview(file_handle.read(int(data_length)))\n    data_type = file_handle.read(1)[0]\n",
           "    data = memoryview(file_handle.read(int(data_length) + 1))\n    data, data_type = data[:-1], data[-1]\n", "R37.2"),
    Mutant("body-read-unbounded", TN, "file_handle.read(int(data_length))", "file_handle.read()", "R37.2"),
    Mutant("indexerror-not-mapped", IO, "                TypeError,\n                IndexError,\n                KeyError,", "                TypeError,\n                KeyError,", "R37.2"),
    Mutant("handler-reraises-raw", IO, "                raise exceptions.FlowReadException(\"Invalid data format.\") from e", "                raise", "R37.2"),
]
