"""C37 - flow files are crash-consistent.

Decided:
  R37.1 writer: ``FilteredFlowWriter.add`` flushes the file after the record on every writing path (a stream file
        is complete up to the last finished flow after each save hook); ``tnetstring.dump`` serialises the whole
        value first and hands it to the file in ONE ``write`` call (a serialisation error in the middle of a flow
        cannot leave a torn record in front of later records).
  R37.2 reader: ``tnetstring.load`` reads the length prefix, reads exactly ``int(prefix)`` bytes, and only THEN reads
        the trailing type tag in a way that fails on an empty read (``read(1)[0]`` -> IndexError, ``ord(read(1))`` ->
        TypeError) before handing (tag, body) to ``parse`` - so a short body can never be parsed as a record;
        ``FlowReader.stream`` converts every exception such a truncation raises in ``load`` into FlowReadException
        (or a clean end), never lets it escape raw.
        The stream writer is the class ``Save`` really instantiates for ``self.stream``; its ``add`` is resolved along the
        MRO and ``super().add(...)`` / ``self.<helper>(...)`` calls are inlined, so delegating the write to a base class or a
        helper is analysed (and a delegate that does not flush is a violation), not refused.
  R37.3 loader ("loading the truncated file yields exactly the flows that were completely written before that point ...
        and then ... reports a flow-read error"): the file loaders (``ReadFile.load_flows``, ``View.load_file``) consume the
        generator ``FlowReader.stream()`` LAZILY - the delivery of a flow (``master.load_flow`` / ``View.add``) is in the body
        of the ``for`` loop that iterates the generator itself (possibly through lazy wrappers: generator expression,
        ``filter``/``map``/``iter``/``enumerate``/``itertools.*``), with the loop item as its argument.  The error for the torn
        tail is raised by the generator AFTER the last complete flow; an eager collector (list/set/dict comprehension,
        ``list()``/``tuple()``/``sorted()``/``.extend()``/``*``-unpacking, or appending in the reading loop and delivering in
        a second loop / in batches) lets that error abort the hand-over of every complete flow read before it.
NOT decided: OS-level durability (power loss), value-level behaviour of parse on complete records, the HAR reader.
Dropped from DESIGN: R37.3 (save_flow/done ordering) is fully covered by R39.2 and is not a crash-consistency
condition; "the empty-file case maps to a clean end" is not armed because the property allows either a clean end or
a flow-read error after the last complete flow (the message agreement matters for C36, not here).
"""

from __future__ import annotations

import ast

from ..core import AnalysisError
from ..core import norm
from ..model import attr_chain
from ..model import enclosing_func
from ..model import last_attr
from ..selftest import Mutant
from ._helpers_E import params
from ._helpers_E import expect
from ._helpers_E import paths
from ._helpers_E import raises_at
from ._helpers_E import show

PROP = "C37"
REG = {
    "strength": "partial",
    "technique": "path enumeration (must-follow / order of reads) over the stream writer's add (MRO-resolved, delegates inlined), tnetstring.dump/load and "
    "FlowReader.stream with implicit exception edges; def-use of the stream() generator in the file loaders",
    "claim": "the stream writer flushes after every record and hands each record to the file in one write; the reader reads exactly the "
    "prefixed length and then a trailing type tag that fails on EOF, and every exception a truncation raises in load is converted to "
    "FlowReadException or a clean end; the file loaders hand every flow over inside the loop that iterates the stream() generator lazily, "
    "so the error for a torn tail cannot discard complete flows.",
    "note": "Crash = the process stops; file objects are Python buffered binary files (read(n) returns fewer bytes only at EOF). "
    "Loops unrolled once.",
}

IO = "mitmproxy/io/io.py"
TN = "mitmproxy/io/tnetstring.py"


def _strict_tag(ev, fh):
    """Is the event a type-tag read that raises on an empty read?"""
    rd = f"{fh}.read(1)"
    if ev[0] == "sub" and ev[1] == rd and ev[2] == "0":
        return "IndexError"
    if ev[0] == "call" and ev[1] == "ord" and ev[2] == (rd,):
        return "TypeError"
    return None

SAVE = "mitmproxy/addons/save.py"
READFILE = "mitmproxy/addons/readfile.py"
VIEW = "mitmproxy/addons/view.py"


def _stream_writers(ctx):
    """(rel, qual) of every class ``Save`` instantiates for ``self.stream`` - the writer of the stream file."""
    save = ctx.model.cls(SAVE, "Save")
    mod = ctx.model.module(SAVE)
    out = []
    for n in ast.walk(save):
        if isinstance(n, (ast.Assign, ast.AnnAssign)):
            tg = n.targets if isinstance(n, ast.Assign) else [n.target]
            if not any(attr_chain(t) == "self.stream" for t in tg) or n.value is None:
                continue
            if isinstance(n.value, ast.Constant) and n.value.value is None:
                continue
            ctx.require(isinstance(n.value, ast.Call), f"Save: self.stream = {norm(n.value)} is not a constructor call (not modelled)")
            r = ctx.model.resolve_name(mod, n.value.func)
            ctx.require(r is not None and isinstance(r[1], ast.ClassDef), f"Save: the stream writer {norm(n.value.func)} does not resolve to a class of the repository")
            k = (r[0].rel, getattr(r[1], "_qual", r[1].name))
            if k not in out:
                out.append(k)
    ctx.require(out, "Save never assigns a writer to self.stream (anchor moved)")
    return out


def _delegate_resolver(ctx, wrel, wqual):
    """Inline ``super().m(...)`` (next definition after the calling method's class in the writer's MRO) and
    ``self.m(...)`` (first definition along the writer's MRO)."""
    mro = ctx.model.mro(wrel, wqual)

    def find(classes, name):
        for m, c in classes:
            for st in c.body:
                if isinstance(st, (ast.FunctionDef, ast.AsyncFunctionDef)) and st.name == name:
                    return st
        return None

    def resolver(call):
        f = call.func
        if not isinstance(f, ast.Attribute):
            return None
        v = f.value
        if isinstance(v, ast.Name) and v.id == "self":
            return find(mro, f.attr)
        if isinstance(v, ast.Call) and isinstance(v.func, ast.Name) and v.func.id == "super" and not v.args and not v.keywords:
            fn = enclosing_func(call)
            owner = getattr(fn, "_parent", None)
            idx = [i for i, (m, c) in enumerate(mro) if c is owner]
            if not idx:
                raise AnalysisError(f"super() used outside the stream writer's MRO at {norm(call)}")
            return find(mro[idx[0] + 1:], f.attr)  # None: the base is outside the repository (object) - nothing to inline
        return None

    return resolver


# ---- R37.3: lazy consumption of FlowReader.stream()

_LAZY_FUNCS = {"filter", "map", "iter", "enumerate", "islice", "takewhile", "dropwhile", "chain", "filterfalse", "starmap", "cast"}
_EAGER_FUNCS = {"list", "tuple", "sorted", "set", "frozenset", "reversed", "deque", "extend", "dict", "sum", "max", "min", "len", "join", "Counter", "array"}


def _is_reader_stream(fn, call):
    """``<FlowReader(...)>.stream()`` or ``<name bound to FlowReader(...)>.stream()``."""
    if not (isinstance(call, ast.Call) and isinstance(call.func, ast.Attribute) and call.func.attr == "stream" and not call.args and not call.keywords):
        return False
    recv = call.func.value
    if isinstance(recv, ast.Call):
        return last_attr(recv.func) == "FlowReader"
    if isinstance(recv, ast.Name):
        srcs = [s.value for s in ast.walk(fn) if isinstance(s, ast.Assign) and any(isinstance(t, ast.Name) and t.id == recv.id for t in s.targets)]
        return bool(srcs) and all(isinstance(v, ast.Call) and last_attr(v.func) == "FlowReader" for v in srcs)
    return False


def _consumers(fn, node, seen=()):
    """How is the (lazy) iterable ``node`` consumed?  -> [("for", For) | ("eager", node, what)].
    Lazy wrappers are followed; anything else is refused (AnalysisError)."""
    p = getattr(node, "_parent", None)
    if isinstance(p, (ast.For, ast.AsyncFor)) and p.iter is node:
        return [("for", p)]
    if isinstance(p, ast.comprehension) and p.iter is node:
        comp = p._parent
        if isinstance(comp, ast.GeneratorExp):
            if comp.generators[0] is not p:
                return [("eager", comp, "an inner clause of a generator expression (re-read for every outer item)")]
            return _consumers(fn, comp, seen)
        return [("eager", comp, {"ListComp": "a list comprehension", "SetComp": "a set comprehension", "DictComp": "a dict comprehension"}[type(comp).__name__])]
    if isinstance(p, ast.Starred):
        return [("eager", p._parent, "*-unpacking")]
    if isinstance(p, ast.Call) and any(a is node for a in p.args):
        name = last_attr(p.func)
        if name in _LAZY_FUNCS:
            return _consumers(fn, p, seen)
        if name in _EAGER_FUNCS:
            return [("eager", p, f"{name}()")]
        raise AnalysisError(f"{fn.name}: the stream() generator is passed to {norm(p.func)}(): laziness of that consumer is not modelled")
    if isinstance(p, ast.Assign) and p.value is node and len(p.targets) == 1 and isinstance(p.targets[0], ast.Name):
        name = p.targets[0].id
        if name in seen:
            raise AnalysisError(f"{fn.name}: cyclic rebinding of {name}")
        stores = [n for n in ast.walk(fn) if isinstance(n, ast.Name) and n.id == name and isinstance(n.ctx, (ast.Store, ast.Del))]
        if len(stores) != 1:
            raise AnalysisError(f"{fn.name}: {name} (bound to the stream() generator) is assigned {len(stores)}x: not modelled")
        out = []
        for n in ast.walk(fn):
            if isinstance(n, ast.Name) and n.id == name and isinstance(n.ctx, ast.Load):
                out += _consumers(fn, n, seen + (name,))
        if not out:
            raise AnalysisError(f"{fn.name}: {name} (the stream() generator) is never consumed")
        return out
    raise AnalysisError(f"{fn.name}: the stream() generator is used in {type(p).__name__} `{norm(p)[:80]}`: not modelled")


def _item_names(loop):
    """Names carrying the loop item inside the body: the target names and locals derived from them."""
    names = {n.id for n in ast.walk(loop.target) if isinstance(n, ast.Name)}
    changed = True
    while changed:
        changed = False
        for st in ast.walk(loop):
            if isinstance(st, (ast.Assign, ast.AnnAssign, ast.NamedExpr)) and getattr(st, "value", None) is not None:
                if any(isinstance(n, ast.Name) and n.id in names for n in ast.walk(st.value)):
                    tg = st.targets if isinstance(st, ast.Assign) else [st.target]
                    for t in tg:
                        for n in ast.walk(t):
                            if isinstance(n, ast.Name) and n.id not in names:
                                names.add(n.id)
                                changed = True
    return names


def _nearest_loop(node, fn):
    n = getattr(node, "_parent", None)
    child = node
    while n is not None and n is not fn:
        if isinstance(n, (ast.For, ast.AsyncFor, ast.While)) and any(child is b for b in n.body):
            return n
        if isinstance(n, (ast.ListComp, ast.SetComp, ast.DictComp, ast.GeneratorExp)):
            return n
        child, n = n, getattr(n, "_parent", None)
    return None


def _lazy_loader(ctx, rel, qual, sink_name, sink_desc):
    """R37.3 for one loader: every delivery call (``<...>.<sink_name>(...)``, directly or through a same-class helper
    called with the item) sits in the body of the for loop that iterates FlowReader.stream() lazily."""
    fn = ctx.func(rel, qual)
    cls_qual = qual.rsplit(".", 1)[0]
    streams = [c for c in ast.walk(fn) if _is_reader_stream(fn, c)]
    ctx.require(len(streams) == 1, f"{qual}: {len(streams)} FlowReader(...).stream() calls (expected one; loader shape not modelled)")
    cons = _consumers(fn, streams[0])
    ok = True
    loops = []
    for c in cons:
        if c[0] == "eager":
            ok = False
            ctx.fail("R37.3", (rel, qual, c[1]), f"{fn.name}: stream() drained by {c[2]}",
                     f"the generator FlowReader.stream() is consumed eagerly by {c[2]} before any flow reaches {sink_desc}: the flow-read error of a "
                     "truncated tail aborts the collection and every complete flow in front of it is lost")
        else:
            loops.append(c[1])

    def delivers(call, depth=0):
        """Is ``call`` the sink, or a same-class helper whose body reaches the sink?"""
        cn = norm(call.func)
        if cn == sink_name or cn.endswith("." + sink_name):
            return True
        f = call.func
        if depth < 2 and isinstance(f, ast.Attribute) and isinstance(f.value, ast.Name) and f.value.id == "self":
            hit = ctx.model.method(rel, cls_qual, f.attr)
            if hit is not None and hit[1] is not fn:
                return any(isinstance(n, ast.Call) and delivers(n, depth + 1) for n in ast.walk(hit[1]))
        return False

    sinks = [n for n in ast.walk(fn) if isinstance(n, ast.Call) and delivers(n)]
    ctx.require(sinks or not ok, f"{qual}: no delivery call ({sink_name}) found (loader shape not modelled)")
    for loop in loops:
        items = _item_names(loop)
        inside = [s for s in sinks if _nearest_loop(s, fn) is loop]
        fed = [s for s in inside if any(isinstance(n, ast.Name) and n.id in items for a in list(s.args) + [k.value for k in s.keywords] for n in ast.walk(a))]
        if not fed:
            ok = False
            ctx.fail("R37.3", (rel, qual, loop), f"{fn.name}: `for {norm(loop.target)} in {norm(loop.iter)[:60]}` does not deliver its item",
                     f"the loop that reads the flows does not hand each flow to {sink_desc} before the next record is read (collected first / delivered in "
                     "batches): the flow-read error of a truncated tail is raised while complete flows are still undelivered")
    for s in sinks:
        if ok and _nearest_loop(s, fn) not in loops:
            ok = False
            ctx.fail("R37.3", (rel, qual, s), f"{fn.name}: {norm(s)[:80]} outside the reading loop",
                     f"flows are handed to {sink_desc} outside the loop that iterates FlowReader.stream(): they are delivered only after the whole file was read")
    if ok:
        ctx.ok("R37.3", f"{qual}: {sink_desc} is fed per item inside `for {norm(loops[0].target)} in {norm(loops[0].iter)[:50]}` (lazy; {len(sinks)} delivery call(s))")



def check(ctx):
    ctx.rule("R37.1", "stream writer: flush follows the record on every writing path; dump = one write of the fully serialised record")
    ctx.rule("R37.2", "reader: exact-length body read, then a trailing tag read that fails on EOF, then parse(tag, body); truncation exceptions become FlowReadException")
    ctx.rule("R37.3", "loaders: FlowReader.stream() is consumed lazily - each flow is delivered inside the loop iterating the generator, so the error of a torn tail cannot discard complete flows")
    ctx.assume("crash model: the writing process stops at an arbitrary byte; regular buffered binary files")

    # ---- R37.1 flush after the record: the writer class Save really streams to, add resolved along the MRO
    for wrel, wqual in _stream_writers(ctx):
        hit = ctx.model.method(wrel, wqual, "add")
        ctx.require(hit is not None, f"{wrel}::{wqual} has no add() along its MRO (writer shape not recognised)")
        amod, add = hit
        aqual = getattr(add, "_qual", f"{wqual}.add")
        ctx.functions.add(f"{amod.rel}::{aqual}")
        trs, eng = paths(add, resolver=_delegate_resolver(ctx, wrel, wqual),
                         keep=lambda e: e[0] == "call" and (e[1].endswith("dump") or e[1].endswith(".write") or e[1].endswith(".flush") or e[1].endswith(".close")))
        ctx.paths += len(trs)
        writing = 0
        bad = False
        for t, how in trs:
            if how != "return":
                continue
            w = [i for i, e in enumerate(t) if e[0] == "call" and ((e[1].endswith("dump") and any(a.split("=", 1)[-1] == "self.fo" for a in e[2])) or e[1] == "self.fo.write")]
            if not w:
                continue
            writing += 1
            fl = [i for i, e in enumerate(t) if e[0] == "call" and e[1] in ("self.fo.flush", "self.fo.close")]
            if not fl or fl[-1] < w[-1]:
                bad = True
                ctx.fail("R37.1", (amod.rel, aqual, add), f"add: path [{show(t)}]",
                         "a record is handed to the file without a following flush: after the save hook the stream file may lack the finished flow")
        ctx.require(bad or writing >= 1, f"{aqual}: no path writes a record to self.fo (writer shape not recognised)")
        if not bad:
            via = f" (delegates inlined: {sorted(eng.inlined)})" if eng.inlined else ""
            ctx.ok("R37.1", f"{aqual}: flush follows the record on {writing} writing path(s){via}")

    # ---- R37.1 one write of the complete record
    dump = ctx.func(TN, "dump")
    ps = params(dump, drop_self=False)
    ctx.require(len(ps) == 2, "tnetstring.dump(value, file_handle) signature changed")
    val, fh = ps
    dumps = ctx.func(TN, "dumps")
    ctx.require(len(params(dumps, drop_self=False)) == 1, "tnetstring.dumps(value) signature changed (it must not see the file)")
    writes, foreign = [], []
    for n in ast.walk(dump):
        if isinstance(n, ast.Name) and n.id == fh and isinstance(n.ctx, ast.Load):
            par = n._parent
            call = getattr(par, "_parent", None)
            if isinstance(par, ast.Attribute) and isinstance(call, ast.Call) and call.func is par:
                if par.attr == "write":
                    writes.append(call)
                elif par.attr not in ("flush",):
                    foreign.append(call)
            else:
                foreign.append(par)
    ctx.require(not foreign, f"tnetstring.dump uses the file handle other than by .write(): {[ast.unparse(x) for x in foreign]} - not modelled")

    def full_record(arg):
        if isinstance(arg, ast.Name):
            src = [s.value for s in ast.walk(dump) if isinstance(s, ast.Assign) and any(isinstance(t, ast.Name) and t.id == arg.id for t in s.targets)]
            return len(src) == 1 and full_record(src[0])
        return isinstance(arg, ast.Call) and last_attr(arg.func) == "dumps" and len(arg.args) == 1 and isinstance(arg.args[0], ast.Name) and arg.args[0].id == val

    def in_loop(n):
        while n is not None and n is not dump:
            if isinstance(n, (ast.For, ast.While, ast.comprehension, ast.ListComp, ast.GeneratorExp)):
                return True
            n = getattr(n, "_parent", None)
        return False

    good = len(writes) == 1 and not in_loop(writes[0]) and len(writes[0].args) == 1 and full_record(writes[0].args[0])
    ctx.check(good, "R37.1", (TN, "dump", dump), f"dump: {len(writes)} write call(s): " + " ; ".join(ast.unparse(w) for w in writes),
              "a record is not written as one write of the fully serialised value: a failure while serialising leaves a torn record in front of later flows",
              desc="tnetstring.dump: single write(dumps(value))")

    # ---- R37.2 load: prefix, exact body, strict trailing tag, parse(tag, body)
    load = ctx.func(TN, "load")
    lp = params(load, drop_self=False)
    ctx.require(len(lp) == 1, "tnetstring.load(file_handle) signature changed")
    lfh = lp[0]
    rd = f"{lfh}.read"
    trs, eng = paths(load, subscripts=True, keep=lambda e: (e[0] == "call" and e[1] in (rd, "ord", "len", "parse")) or e[0] in ("sub", "assign", "return"))
    ctx.paths += len(trs)
    bad = False
    returning = 0
    tag_excs = set()
    for t, how in trs:
        if how != "return":
            continue
        returning += 1
        body = [i for i, e in enumerate(t) if e[0] == "call" and e[1] == rd and e[2] != ("1",)]
        probs = []
        if len(body) != 1:
            probs.append(f"{len(body)} body reads on a returning path (expected exactly one read of int(<prefix>) bytes)")
        else:
            b = body[0]
            arg = t[b][2]
            pref = None
            if len(arg) == 1 and arg[0].startswith("int(") and arg[0].endswith(")") and arg[0][4:-1].isidentifier():
                pref = arg[0][4:-1]
            if pref is None or not any(e[0] == "assign" and e[1] == pref for e in t[:b]):
                probs.append(f"the body read {rd}({', '.join(arg)}) does not read exactly the prefixed length")
            strict = [(i, _strict_tag(e, lfh)) for i, e in enumerate(t) if _strict_tag(e, lfh)]
            after = [(i, x) for i, x in strict if i > b]
            later_reads = [i for i, e in enumerate(t) if e[0] == "call" and e[1] == rd and i > b]
            if not after:
                probs.append("after the body no type tag is read in a way that fails on EOF (read(1)[0] / ord(read(1))): a truncated body would be parsed as a record")
            else:
                tag_excs.add(after[0][1])
                if len(later_reads) != 1:
                    probs.append(f"{len(later_reads)} reads after the body (expected only the type tag)")
                # parse(tag, body): the operands are the values read above
                ret = [e for e in t if e[0] == "return"]
                rv = ast.parse(ret[-1][1], mode="eval").body if ret else None
                if not (isinstance(rv, ast.Call) and last_attr(rv.func) == "parse" and len(rv.args) == 2 and not rv.keywords):
                    probs.append("load does not return parse(tag, body)")
                else:
                    def origin(a):
                        if isinstance(a, ast.Name):
                            src = [e[2] for e in t if e[0] == "assign" and e[1] == a.id]
                            return src[-1] if src else ""
                        return ast.unparse(a)
                    o_tag, o_body = origin(rv.args[0]), origin(rv.args[1])
                    body_txt = f"{rd}({', '.join(arg)})"
                    tag_ok = o_tag in (f"{rd}(1)[0]", f"ord({rd}(1))")
                    body_ok = o_body in (body_txt, f"memoryview({body_txt})", f"bytes({body_txt})")
                    if not tag_ok:
                        probs.append(f"parse's type tag is '{o_tag}', not the strict trailing read")
                    if not body_ok:
                        probs.append(f"parse's data is '{o_body}', not the exact-length body read")
        for p in probs:
            bad = True
            ctx.fail("R37.2", (TN, "load", load), f"load: path [{show([e for e in t if e[0] in ('call', 'sub')], 8)}]", p)
    ctx.require(bad or returning >= 1, "tnetstring.load has no returning path")
    if not bad:
        ctx.ok("R37.2", f"tnetstring.load: {returning} returning paths: int(prefix) body read, then strict tag read ({sorted(tag_excs)}), then parse(tag, body)")

    # ---- R37.2 FlowReader.stream maps truncation exceptions
    trunc = {"ValueError"} | (tag_excs or {"IndexError"})
    explicit = {last_attr(n.exc) for n in ast.walk(load) if isinstance(n, ast.Raise) and n.exc is not None}
    ctx.require(explicit <= {"ValueError"}, f"tnetstring.load raises {sorted(explicit)}: extend the truncation exception set of R37.2")
    stream = ctx.func(IO, "FlowReader.stream")
    load_calls = [c for c in ast.walk(stream) if isinstance(c, ast.Call) and ast.unparse(c.func) in ("tnetstring.load", "load")]
    ctx.require(len(load_calls) == 1, f"FlowReader.stream calls tnetstring.load {len(load_calls)}x (expected once)")

    for exc in sorted(trunc):
        trs, eng = paths(stream, keep=lambda e: e[0] in ("raise",), record_conds=False,
                         may_raise=raises_at(load_calls[0], [exc]))
        ctx.paths += len(trs)
        outcomes = set()
        for t, how in trs:
            if not any(e[0] == "except" and e[1] == exc for e in t) and how != f"raise:{exc}":
                continue
            outcomes.add(how)
        escaped = sorted(o for o in outcomes if o not in ("return", "raise:FlowReadException"))
        if not outcomes:
            ctx.fail("R37.2", (IO, "FlowReader.stream", stream), f"stream: {exc} from tnetstring.load", f"no handler encloses tnetstring.load: a truncated file raises a raw {exc}")
        elif escaped:
            ctx.fail("R37.2", (IO, "FlowReader.stream", stream), f"stream: {exc} from tnetstring.load", f"a truncated record raises {exc} in load, which leaves stream() as {escaped} instead of FlowReadException")
        else:
            ctx.ok("R37.2", f"stream: {exc} from load -> {sorted(outcomes)}")

    # ---- R37.3 loaders deliver each flow before reading the next record
    ctx.guard(_lazy_loader, ctx, READFILE, "ReadFile.load_flows", "load_flow", "master.load_flow")
    ctx.guard(_lazy_loader, ctx, VIEW, "View.load_file", "self.add", "View.add")

    expect(ctx, "R37.1", 2)
    expect(ctx, "R37.2", 3)
    expect(ctx, "R37.3", 2)


MUTANTS = [
    Mutant("no-flush", IO, "        tnetstring.dump(d, self.fo)\n        self.fo.flush()\n", "        tnetstring.dump(d, self.fo)\n", "R37.1"),
    Mutant("flush-before-record", IO, "        tnetstring.dump(d, self.fo)\n        self.fo.flush()\n", "        self.fo.flush()\n        tnetstring.dump(d, self.fo)\n", "R37.1"),
    Mutant("flush-only-when-filtered", IO, "        tnetstring.dump(d, self.fo)\n        self.fo.flush()\n", "        tnetstring.dump(d, self.fo)\n        if self.flt:\n            self.fo.flush()\n", "R37.1"),
    # seed C37a: the filtered writer becomes a subclass delegating to FlowWriter.add, which never flushed
    Mutant("delegate-to-unflushed-base", IO,
           "class FilteredFlowWriter:\n    def __init__(self, fo: BinaryIO, flt: flowfilter.TFilter | None):\n        self.fo = fo\n        self.flt = flt\n\n"
           "    def add(self, f: flow.Flow) -> None:\n        if self.flt and not flowfilter.match(self.flt, f):\n            return\n"
           "        d = f.get_state()\n        tnetstring.dump(d, self.fo)\n        self.fo.flush()\n",
           "class FilteredFlowWriter(FlowWriter):\n    def __init__(self, fo: BinaryIO, flt: flowfilter.TFilter | None):\n        super().__init__(fo)\n        self.flt = flt\n\n"
           "    def add(self, f: flow.Flow) -> None:\n        if self.flt and not flowfilter.match(self.flt, f):\n            return\n"
           "        super().add(f)\n", "R37.1"),
    Mutant("write-helper-without-flush", IO, "        d = f.get_state()\n        tnetstring.dump(d, self.fo)\n        self.fo.flush()\n",
           "        self._write(f)\n\n    def _write(self, f: flow.Flow) -> None:\n        d = f.get_state()\n        tnetstring.dump(d, self.fo)\n", "R37.1"),
    Mutant("stream-through-plain-writer", SAVE, "self.stream = io.FilteredFlowWriter(f, self.filt)", "self.stream = io.FlowWriter(f)", "R37.1"),
    Mutant("dump-writes-chunks", TN, "    file_handle.write(dumps(value))\n",
           "    q: collections.deque = collections.deque()\n    _rdumpq(q, 0, value)\n    for chunk in q:\n        file_handle.write(chunk)\n", "R37.1"),
    Mutant("tag-read-tolerates-eof", TN, "    data_type = file_handle.read(1)[0]\n", "    data_type = (file_handle.read(1) or b\",\")[0]\n", "R37.2"),
    Mutant("tag-read-before-body", TN, "    data = memoryview(file_handle.read(int(data_length)))\n    data_type = file_handle.read(1)[0]\n",
           "    data_type = file_handle.read(1)[0]\n    data = memoryview(file_handle.read(int(data_length)))\n", "R37.2"),
    Mutant("tag-from-body-tail", TN, "    data = memoryview(file_handle.read(int(data_length)))\n    data_type = file_handle.read(1)[0]\n",
           "    data = memoryview(file_handle.read(int(data_length) + 1))\n    data, data_type = data[:-1], data[-1]\n", "R37.2"),
    Mutant("body-read-unbounded", TN, "file_handle.read(int(data_length))", "file_handle.read()", "R37.2"),
    Mutant("indexerror-not-mapped", IO, "                TypeError,\n                IndexError,\n                KeyError,", "                TypeError,\n                KeyError,", "R37.2"),
    # seed C37b: the loader drains stream() into a list before the first flow is handed over
    Mutant("loader-collects-list-first", READFILE,
           "            for flow in freader.stream():\n                if self.filter and not self.filter(flow):\n                    continue\n",
           "            flows = [flow for flow in freader.stream() if not self.filter or self.filter(flow)]\n            for flow in flows:\n", "R37.3"),
    Mutant("loader-iterates-list-of-stream", READFILE, "for flow in freader.stream():", "for flow in list(freader.stream()):", "R37.3"),
    Mutant("loader-appends-then-delivers", READFILE,
           "        try:\n            for flow in freader.stream():\n                if self.filter and not self.filter(flow):\n                    continue\n"
           "                await ctx.master.load_flow(flow)\n                cnt += 1\n",
           "        pending = []\n        try:\n            for flow in freader.stream():\n                if self.filter and not self.filter(flow):\n                    continue\n"
           "                pending.append(flow)\n            for flow in pending:\n                await ctx.master.load_flow(flow)\n                cnt += 1\n", "R37.3"),
    Mutant("view-loader-sorts-first", VIEW, "for i in io.FlowReader(f).stream():", "for i in sorted(io.FlowReader(f).stream(), key=lambda x: x.timestamp_created):", "R37.3"),
    Mutant("handler-reraises-raw", IO, "                raise exceptions.FlowReadException(\"Invalid data format.\") from e", "                raise", "R37.2"),
]
