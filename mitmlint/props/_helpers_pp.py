"""Trusted *model* of the pyparsing 3.x subset used by mitmproxy's grammars (flowfilter._make, command_lexer.expr) + an interpreter
(pyint) that evaluates the grammar-building code of the repository against that model.

Why: rules about a grammar must not match the *syntax* of the code that builds it (a loop over a registry, a helper function, a module
constant holding the precedence table, a renamed temporary are all the same grammar).  ``PPInterp`` interprets the construction code from
its AST - names, module constants, string concatenation, f-strings, loops, comprehensions, helper functions, ``cls.make`` bound class
methods - with ``pyparsing`` bound to ``PPModule``; the result is a tree of ``El`` objects, which can *parse strings* with pyparsing's
semantics (whitespace skipping rules, MatchFirst order, WordEnd, QuotedString unquoting, Group / Suppress, the expansion of
infix_notation into Forward / Group / lookahead exactly as helpers.infix_notation does it, parse actions applied through the
interpreter with pyparsing's arity trimming and result wrapping).  Nothing of the repository and nothing of pyparsing is imported or run.

Anything of pyparsing outside the modelled subset raises AnalysisError ("pyparsing model: ... not modelled") - never a guess.
Modelled against pyparsing 3.3.2 (the version pinned by the repository); see the trust note of the rules using it.
"""

from __future__ import annotations

import ast
import re
import string

from ..core import AnalysisError
from ..core import norm
from ..pyint import ClassRef
from ..pyint import Func
from ..pyint import Gen
from ..pyint import Interp
from ..pyint import NullLog
from ..pyint import Raised
from ..pyint import Rec

PRINTABLES = "".join(c for c in string.printable if c not in string.whitespace)
DEFAULT_WHITE = " \n\t\r"
ALPHAS = string.ascii_uppercase + string.ascii_lowercase
NUMS = "0123456789"
ALPHANUMS = ALPHAS + NUMS
_MAX = 2**62


class ParseBaseException(Exception):
    pass


class ParseException(ParseBaseException):
    """raised by El.parse_string - reaches the interpreted code as the interpreted exception `ParseException`"""


def _unmodelled(what):
    raise AnalysisError(f"pyparsing model: {what} is not modelled")


class Toks(list):
    """stands for pyparsing.ParseResults (a list; nested lists for Group)"""

    _pyint_accepts_abstract = True

    def as_list(self):
        return [x.as_list() if isinstance(x, Toks) else x for x in self]

    asList = as_list

    def copy(self):
        return Toks(self)

    def __getattr__(self, name):
        if name.startswith("__"):
            raise AttributeError(name)
        _unmodelled(f"ParseResults.{name}")


class _Assoc:
    def __init__(self, name):
        self.name = name

    def __repr__(self):
        return f"OpAssoc.{self.name}"


class _OpAssoc:
    LEFT = _Assoc("LEFT")
    RIGHT = _Assoc("RIGHT")


class El:
    """one pyparsing.ParserElement.  ``kind`` names the pyparsing class; flags follow the constructors of pyparsing."""

    _pyint_accepts_abstract = True

    def __init__(self, pp, kind, exprs=(), **a):
        self.pp = pp
        self.kind = kind
        self.exprs = list(exprs)
        self.a = a
        self.actions: list = []
        self.skipWhitespace = True
        self.whiteChars = DEFAULT_WHITE
        self.callPreparse = True
        self.keepTabs = False
        self.customName = None

    def __repr__(self):
        return f"<pp.{self.kind} {self.a.get('match') or self.a.get('chars') or self.a.get('pattern') or ''}>"

    def __getattr__(self, name):
        if name.startswith("__"):
            raise AttributeError(name)
        _unmodelled(f"ParserElement.{name}")

    # ---- the single sub-expression of the "enhance" kinds
    @property
    def expr(self):
        return self.exprs[0] if self.exprs else None

    # ---- operators
    def _lit(self, other):
        if isinstance(other, str):
            return self.pp.Literal(other)
        if not isinstance(other, El):
            _unmodelled(f"operator between a parser element and {type(other).__name__}")
        return other

    def __add__(self, other):
        return self.pp.And([self, self._lit(other)])

    def __radd__(self, other):
        return self.pp.And([self._lit(other), self])

    def __or__(self, other):
        return self.pp.MatchFirst([self, self._lit(other)])

    def __ror__(self, other):
        return self.pp.MatchFirst([self._lit(other), self])

    def __xor__(self, other):
        return self.pp.Or([self, self._lit(other)])

    def __invert__(self):
        return self.pp.NotAny(self)

    def __getitem__(self, key):
        if key is Ellipsis or key == (0, Ellipsis) or key == (Ellipsis,):
            return self.pp.ZeroOrMore(self)
        if key == (1, Ellipsis):
            return self.pp.OneOrMore(self)
        _unmodelled(f"repetition expr[{key!r}]")

    def __call__(self, name=None):
        return self.copy()  # results names do not change the token list

    def __lshift__(self, other):
        if self.kind != "Forward":
            _unmodelled("<< on a non-Forward element")
        other = self._lit(other)
        self.exprs = [other]
        self.skipWhitespace, self.whiteChars = other.skipWhitespace, other.whiteChars
        return self

    __ilshift__ = __lshift__

    # ---- methods
    def copy(self):
        c = El(self.pp, self.kind, self.exprs, **dict(self.a))
        c.actions = list(self.actions)
        c.skipWhitespace, c.whiteChars, c.callPreparse, c.keepTabs, c.customName = self.skipWhitespace, self.whiteChars, self.callPreparse, self.keepTabs, self.customName
        if self.kind in ("And", "MatchFirst", "Or"):  # ParseExpression.copy copies the alternatives / the sequence
            c.exprs = [e.copy() for e in self.exprs]
        return c

    def suppress(self):
        return self.pp.Suppress(self)

    def set_parse_action(self, *fns, **kw):
        if kw:
            _unmodelled(f"set_parse_action({', '.join(kw)}=...)")
        if list(fns) == [None]:
            self.actions = []
            return self
        for fn in fns:
            if not isinstance(fn, (Func, ClassRef)):
                _unmodelled(f"parse action {fn!r}")
        self.actions = list(fns)
        return self

    setParseAction = set_parse_action

    def add_parse_action(self, *fns, **kw):
        if kw:
            _unmodelled(f"add_parse_action({', '.join(kw)}=...)")
        for fn in fns:
            if not isinstance(fn, (Func, ClassRef)):
                _unmodelled(f"parse action {fn!r}")
        self.actions = self.actions + list(fns)
        return self

    addParseAction = add_parse_action

    def set_name(self, name):
        self.customName = name
        return self

    setName = set_name

    def set_results_name(self, name, *a, **k):
        return self.copy()

    setResultsName = set_results_name

    def set_debug(self, *a, **k):
        return self

    setDebug = set_debug

    def streamline(self):
        return self

    def leave_whitespace(self, recursive=True):
        self.skipWhitespace = False
        if recursive and self.kind != "Forward" and self.exprs:
            self.exprs = [e.copy() for e in self.exprs]
            for e in self.exprs:
                e.leave_whitespace(recursive)
        return self

    leaveWhitespace = leave_whitespace

    def ignore_whitespace(self, recursive=True):
        self.skipWhitespace = True
        if recursive and self.kind != "Forward" and self.exprs:
            self.exprs = [e.copy() for e in self.exprs]
            for e in self.exprs:
                e.ignore_whitespace(recursive)
        return self

    ignoreWhitespace = ignore_whitespace

    def set_whitespace_chars(self, chars, copy_defaults=False):
        self.skipWhitespace = True
        self.whiteChars = "".join(chars)
        return self

    setWhitespaceChars = set_whitespace_chars

    def parse_with_tabs(self):
        self.keepTabs = True
        return self

    parseWithTabs = parse_with_tabs

    def parse_string(self, instring, parse_all=False, *, parseAll=False):
        if not isinstance(instring, str):
            raise AnalysisError("pyparsing model: parse_string() of a non-string")
        s = instring if self.keepTabs else instring.expandtabs()
        run = _Run(self.pp, s)
        r = run.parse(self, 0)
        if r is not None and (parse_all or parseAll):
            loc = r[0]
            if self.skipWhitespace:
                loc = run.skip(loc, self.whiteChars)
            loc = run.skip(loc, DEFAULT_WHITE)  # Empty() + StringEnd()
            if loc < len(s):
                r = None
        if r is None:
            raise ParseException(f"no match (model), furthest position {run.furthest}")
        return Toks(r[1])

    parseString = parse_string

    def matches_at(self, s, loc=0):
        """end position of a match of this element alone at ``loc`` (no parse actions), None if it does not match"""
        r = _Run(self.pp, s).parse(self, loc, do=False)
        return None if r is None else r[0]


_LEAF = frozenset(("Literal", "WordEnd", "Empty", "CharsNotIn", "Word", "White", "Keyword", "CaselessLiteral", "Regex", "QuotedString", "WordStart", "StringEnd", "StringStart"))


class _Run:
    """one parse_string call: recursive descent over the element graph, memoised per (element, position, actions?, pre-parse?).
    ``parse`` returns (end position, token list) or None when the element does not match (pyparsing: ParseException)."""

    def __init__(self, pp, s):
        self.pp = pp
        self.s = s
        self.memo: dict = {}
        self.first: dict = {}
        self.furthest = 0
        self.depth = 0

    def skip(self, loc, white):
        s = self.s
        n = len(s)
        while loc < n and s[loc] in white:
            loc += 1
        return loc

    def parse(self, el, loc, do=True, pre=True):
        if el.kind in _LEAF and not el.actions:  # cheap and pure: not memoised
            if pre and el.skipWhitespace:
                loc = self.skip(loc, el.whiteChars)
            r = self.impl(el, loc, do)
            if r is not None and r[0] > self.furthest:
                self.furthest = r[0]
            return r
        key = (id(el), loc, do, pre)
        memo = self.memo
        hit = memo.get(key, 0)
        if hit == 0:
            # parse actions neither make a failed match succeed nor move its end: a failure without actions is a failure with actions,
            # and a look-ahead (whose tokens are discarded) may reuse the result of the parse with actions
            other = memo.get((id(el), loc, not do, pre), 0)
            if other is None or (other != 0 and not do):
                hit = other
        if hit != 0:
            return hit if hit is None else (hit[0], list(hit[1]))
        self.depth += 1
        if self.depth > 400:
            raise AnalysisError("pyparsing model: recursion too deep (left-recursive grammar?)")
        try:
            if pre and el.callPreparse and el.skipWhitespace:
                loc = self.skip(loc, el.whiteChars)
            start = loc
            r = self.impl(el, loc, do)
            if r is None:
                self.memo[key] = None
                return None
            loc, toks = r
            k = el.kind
            if k == "Group":
                toks = [Toks(toks)]
            elif k == "Suppress":
                toks = []
            if el.actions and do:
                cur = Toks(toks)
                for fn in el.actions:
                    res = self.pp._call_action(fn, self.s, start, cur)
                    if res is not None and res is not cur:
                        cur = _as_results(res)
                toks = list(cur)
        finally:
            self.depth -= 1
        if loc > self.furthest:
            self.furthest = loc
        self.memo[key] = (loc, toks)
        return loc, list(toks)

    def impl(self, el, loc, do):
        s, k, a = self.s, el.kind, el.a
        n = len(s)
        if k == "Literal":
            m = a["match"]
            return (loc + len(m), [m]) if loc < n and s.startswith(m, loc) else None
        if k == "And":
            out = []
            for i, e in enumerate(el.exprs):
                r = self.parse(e, loc, do, i > 0)
                if r is None:
                    return None
                loc = r[0]
                out += r[1]
            return loc, out
        if k == "MatchFirst":
            for e in el.exprs:
                lit = self.first.get(id(e), 0)
                if lit == 0:
                    lit = self.first[id(e)] = _first_literal(e)
                if lit is not None:  # fast reject: the alternative starts with a literal that is not there
                    at = self.skip(loc, e.whiteChars) if e.callPreparse and e.skipWhitespace else loc
                    if not s.startswith(lit, at):
                        continue
                r = self.parse(e, loc, do)
                if r is not None:
                    return r
            return None
        if k in ("Group", "Suppress", "Forward"):
            return None if el.expr is None else self.parse(el.expr, loc, do, False)
        if k == "WordEnd":
            wc = a["chars"]
            return None if (n > 0 and loc < n and (s[loc] in wc or s[loc - 1] not in wc)) else (loc, [])
        if k == "Empty":
            return loc, []
        if k == "Keyword" or k == "CaselessLiteral":
            m = a["match"]
            got = s[loc : loc + len(m)]
            if loc >= n or not (got == m or (a.get("caseless") and got.upper() == m.upper())):
                return None
            if k == "Keyword":
                ident = a["ident"]
                end = loc + len(m)
                if (end < n and s[end] in ident) or (loc > 0 and s[loc - 1] in ident):
                    return None
            return loc + len(m), [m]
        if k == "Word":
            if loc >= n or s[loc] not in a["init"]:
                return None
            start = loc
            loc += 1
            body = a["body"]
            maxloc = min(start + a["max"], n)
            while loc < maxloc and s[loc] in body:
                loc += 1
            if loc - start < a["min"] or (a["max_given"] and loc < n and s[loc] in body):
                return None
            return loc, [s[start:loc]]
        if k == "CharsNotIn" or k == "White":
            chars, neg = a["chars"], k == "CharsNotIn"
            if loc >= n or (s[loc] in chars) == neg:
                return None
            start = loc
            loc += 1
            maxloc = min(start + a["max"], n)
            while loc < maxloc and (s[loc] in chars) != neg:
                loc += 1
            return None if loc - start < a["min"] else (loc, [s[start:loc]])
        if k == "Regex":
            m = a["cre"].match(s, loc)
            return None if m is None else (m.end(), [m.group()])
        if k == "QuotedString":
            if loc >= n or s[loc] != a["quote"][0]:
                return None
            m = a["cre"].match(s, loc)
            if m is None:
                return None
            ret = m.group()
            if a["unquote"]:
                ret = _unquote_qs(ret[len(a["quote"]) : -len(a["end"])], a)
            return m.end(), [ret]
        if k == "WordStart":
            wc = a["chars"]
            return None if (loc != 0 and (loc >= n or s[loc - 1] in wc or s[loc] not in wc)) else (loc, [])
        if k == "StringEnd":
            return None if loc < n else ((loc + 1 if loc == n else loc), [])
        if k == "StringStart":
            return None if (loc != 0 and loc != self.skip(0, el.whiteChars)) else (loc, [])
        if k == "Or":
            best = None
            for e in el.exprs:
                r = self.parse(e, loc, False)
                if r is not None and (best is None or r[0] > best[0]):
                    best = (r[0], e)
            return None if best is None else self.parse(best[1], loc, do)
        if k in ("OneOrMore", "ZeroOrMore"):
            r = self.parse(el.expr, loc, do)
            if r is None:
                return (loc, []) if k == "ZeroOrMore" else None
            loc, out = r
            while True:
                r = self.parse(el.expr, loc, do)
                if r is None:
                    break
                if r[0] == loc and not r[1]:
                    raise AnalysisError("pyparsing model: repetition of an expression that matches the empty string (pyparsing would not terminate)")
                if r[0] == loc and len(out) > 10000:
                    raise AnalysisError("pyparsing model: repetition does not advance")
                loc = r[0]
                out += r[1]
            return loc, out
        if k == "Opt":
            r = self.parse(el.expr, loc, do, False)
            return (loc, []) if r is None else r
        if k == "FollowedBy":
            return None if self.parse(el.expr, loc, do) is None else (loc, [])
        if k == "Lookahead":  # helpers.infix_notation._FB: try_parse
            return None if self.parse(el.expr, loc, False) is None else (loc, [])
        if k == "NotAny":
            return (loc, []) if self.parse(el.expr, loc, do) is None else None
        _unmodelled(f"parsing with {k}")


def _first_literal(e):
    """the literal text an alternative must start with (after its own whitespace skipping), None if it does not start with a literal"""
    if e.kind == "Literal":
        return e.a["match"]
    if e.kind == "And" and e.exprs and e.exprs[0].kind == "Literal":
        return e.exprs[0].a["match"]  # the first element of an And is parsed without its own pre-parse
    return None


def _as_results(r):
    """ParseResults(<what a parse action returned>)"""
    if isinstance(r, Toks):
        return r
    if isinstance(r, list):
        return Toks(r)
    if isinstance(r, Gen) or type(r).__name__ in ("list_iterator", "generator"):
        return Toks(list(r))
    return Toks([r])


_WS_MAP = {r"\t": "\t", r"\n": "\n", r"\f": "\f", r"\r": "\r"}


def _unquote_qs(ret, a):
    esc = a["esc"]
    if a["convert_ws"]:
        # (pyparsing 3.3.2 builds this pattern with an rf-string, so its {3} {2} {4} repeat counts are the literal digits 3 2 4: kept as is)
        scan = re.compile("(" + "|".join(re.escape(k) for k in _WS_MAP) + r")|(\\[0-7]3|\\0|\\x[0-9a-fA-F]2|\\u[0-9a-fA-F]4)|(" + re.escape(esc) + r".)|(\n|.)", a["flags"])
        out = []
        for m in scan.finditer(ret):
            if m[1]:
                out.append(_WS_MAP[m[1]])
            elif m[2]:
                g = m[2][1:]  # util._convert_escaped_numerics_to_char
                out.append("\0" if g == "0" else chr(int(g, 8)) if g.isdigit() and len(g) == 3 else chr(int(g[1:], 16)) if g[0] in "xu" else g)
            elif m[3]:
                out.append(m[3][-1])
            else:
                out.append(m[4])
        ret = "".join(out)
    else:
        scan = re.compile("(" + re.escape(esc) + r".)|(\n|.)", a["flags"])
        ret = "".join(m[1][-1] if m[1] else m[2] for m in scan.finditer(ret))
    if a["esc_quote"]:
        ret = ret.replace(a["esc_quote"], a["end"])
    return ret


def _escape_range_chars(s):
    for c in r"\^-[]":
        s = s.replace(c, "\\" + c)
    return s.replace("\n", r"\n").replace("\t", r"\t")


class _ParserElementCls:
    DEFAULT_WHITE_CHARS = DEFAULT_WHITE
    _pyint_accepts_abstract = True

    @staticmethod
    def enable_packrat(*a, **k):
        return None

    enablePackrat = enable_packrat

    def __getattr__(self, name):
        if name.startswith("__"):
            raise AttributeError(name)
        _unmodelled(f"ParserElement.{name}")


class PPModule:
    """stands for the module ``pyparsing``"""

    _pyint_accepts_abstract = True
    nums, alphas, alphanums, printables, hexnums = NUMS, ALPHAS, ALPHANUMS, PRINTABLES, NUMS + "ABCDEFabcdef"
    opAssoc = OpAssoc = _OpAssoc
    ParseException, ParseBaseException = ParseException, ParseBaseException

    def __init__(self, interp=None):
        self.interp = interp
        self.ParserElement = _ParserElementCls()

    def __getattr__(self, name):
        if name.startswith("__"):
            raise AttributeError(name)
        _unmodelled(f"pyparsing.{name}")

    # ---- tokens
    def Literal(self, match_string="", *, matchString=""):
        m = match_string or matchString
        if not isinstance(m, str):
            _unmodelled("Literal of a non-string")
        return El(self, "Literal", match=m) if m else El(self, "Empty")

    def Empty(self):
        return El(self, "Empty")

    def Keyword(self, match_string="", ident_chars=None, caseless=False, **kw):
        if kw:
            _unmodelled(f"Keyword({', '.join(kw)}=...)")
        return El(self, "Keyword", match=match_string, ident=ident_chars or ALPHANUMS + "_$", caseless=bool(caseless))

    def CaselessLiteral(self, match_string=""):
        return El(self, "CaselessLiteral", match=match_string, caseless=True)

    def Word(self, init_chars="", body_chars=None, min=1, max=0, exact=0, as_keyword=False, exclude_chars=None, **kw):
        if kw or as_keyword:
            _unmodelled("Word(as_keyword / camelCase keywords)")
        if not isinstance(init_chars, str) or not init_chars:
            _unmodelled("Word without a character-set string")
        init = set(init_chars)
        body = set(body_chars) if body_chars else set(init_chars)
        if exclude_chars:
            init -= set(exclude_chars)
            body -= set(exclude_chars)
        mx = max if max > 0 else _MAX
        if exact > 0:
            mx = min = exact
        return El(self, "Word", init=frozenset(init), body=frozenset(body), min=min, max=mx, max_given=max > 0 or exact > 0, chars=init_chars)

    def CharsNotIn(self, not_chars="", min=1, max=0, exact=0, **kw):
        if kw:
            _unmodelled(f"CharsNotIn({', '.join(kw)}=...)")
        if not isinstance(not_chars, str):
            _unmodelled("CharsNotIn of a non-string")
        if min < 1:
            raise ValueError("cannot specify a minimum length < 1")
        mx = max if max > 0 else _MAX
        if exact > 0:
            mx = min = exact
        e = El(self, "CharsNotIn", chars=frozenset(not_chars), min=min, max=mx, text=not_chars)
        e.skipWhitespace = False
        return e

    def White(self, ws=" \t\r\n", min=1, max=0, exact=0):
        mx = max if max > 0 else _MAX
        if exact > 0:
            mx = min = exact
        e = El(self, "White", chars=frozenset(ws), min=min, max=mx)
        e.whiteChars = "".join(c for c in DEFAULT_WHITE if c not in ws)
        return e

    def Regex(self, pattern, flags=0, as_group_list=False, as_match=False, **kw):
        if kw or as_group_list or as_match:
            _unmodelled("Regex(as_group_list / as_match / camelCase keywords)")
        if isinstance(pattern, str):
            if not pattern:
                raise ValueError("Regex may not be initialized with an empty string")
            try:
                cre = re.compile(pattern, flags)
            except re.error as e:
                raise ValueError(f"invalid pattern {pattern!r} passed to Regex: {e}")
        elif hasattr(pattern, "pattern") and hasattr(pattern, "match"):
            cre = pattern
        else:
            _unmodelled("Regex of neither a string nor a compiled pattern")
        return El(self, "Regex", cre=cre, pattern=cre.pattern, flags=cre.flags)

    def QuotedString(self, quote_char="", esc_char=None, esc_quote=None, multiline=False, unquote_results=True, end_quote_char=None, convert_whitespace_escapes=True, **kw):
        names = {"quoteChar": "quote_char", "escChar": "esc_char", "escQuote": "esc_quote", "unquoteResults": "unquote_results", "endQuoteChar": "end_quote_char",
                 "convertWhitespaceEscapes": "convert_whitespace_escapes"}
        loc = dict(quote_char=quote_char, esc_char=esc_char, esc_quote=esc_quote, unquote_results=unquote_results, end_quote_char=end_quote_char, convert_whitespace_escapes=convert_whitespace_escapes)
        for k, v in kw.items():
            if k not in names:
                _unmodelled(f"QuotedString({k}=...)")
            loc[names[k]] = v
        q = (loc["quote_char"] or "").strip()
        if not q:
            raise ValueError("quote_char cannot be the empty string")
        end = q if loc["end_quote_char"] is None else loc["end_quote_char"].strip()
        if len(q) != 1 or len(end) != 1:
            _unmodelled("QuotedString with multi-character quotes")
        esc, escq = loc["esc_char"], loc["esc_quote"]
        inner = []
        if escq:
            inner.append(f"(?:{re.escape(escq)})")
        if esc:
            inner.append(f"(?:{re.escape(esc)}.)")
        fl = re.MULTILINE | re.DOTALL if multiline else 0
        inner.append(f"(?:[^{_escape_range_chars(end[0])}" + ("" if multiline else r"\n\r") + (_escape_range_chars(esc) if esc is not None else "") + "])")
        pattern = re.escape(q) + "(?:" + "|".join(inner) + ")*" + re.escape(end)
        try:
            cre = re.compile(pattern, fl)
        except re.error:
            raise ValueError(f"invalid pattern {pattern!r} passed to Regex")
        return El(self, "QuotedString", quote=q, end=end, esc=esc or "", esc_quote=escq or "", unquote=bool(loc["unquote_results"]), convert_ws=bool(loc["convert_whitespace_escapes"]), cre=cre, flags=fl)

    def WordEnd(self, word_chars=PRINTABLES, *, wordChars=PRINTABLES):
        e = El(self, "WordEnd", chars=frozenset(word_chars if wordChars == PRINTABLES else wordChars))
        e.skipWhitespace = False
        return e

    def WordStart(self, word_chars=PRINTABLES, *, wordChars=PRINTABLES):
        return El(self, "WordStart", chars=frozenset(word_chars if wordChars == PRINTABLES else wordChars))

    def StringEnd(self):
        return El(self, "StringEnd")

    def StringStart(self):
        return El(self, "StringStart")

    # ---- expressions
    def _seq(self, exprs):
        if isinstance(exprs, El):
            return [exprs]
        if isinstance(exprs, str):
            return [self.Literal(exprs)]
        try:
            items = list(exprs)
        except TypeError:
            _unmodelled(f"expression list {exprs!r}")
        out = []
        for e in items:
            if isinstance(e, str):
                e = self.Literal(e)
            if not isinstance(e, El):
                _unmodelled(f"expression list item {e!r}")
            out.append(e)
        return out

    def And(self, exprs, savelist=True):
        xs = self._seq(exprs)
        e = El(self, "And", xs)
        if xs:
            if xs[0].kind != "White":
                e.whiteChars, e.skipWhitespace = xs[0].whiteChars, xs[0].skipWhitespace
            else:
                e.skipWhitespace = False
        return e

    def _alts(self, kind, exprs):
        xs = self._seq(exprs)
        e = El(self, kind, xs)
        e.callPreparse = False
        if xs:
            e.skipWhitespace = all(x.skipWhitespace for x in xs)
        return e

    def MatchFirst(self, exprs, savelist=False):
        return self._alts("MatchFirst", exprs)

    def Or(self, exprs, savelist=False):
        return self._alts("Or", exprs)

    def _enhance(self, kind, expr, **a):
        if isinstance(expr, str):
            expr = self.Literal(expr)
        if not isinstance(expr, El):
            _unmodelled(f"{kind}({expr!r})")
        e = El(self, kind, [expr], **a)
        e.skipWhitespace, e.whiteChars, e.callPreparse = expr.skipWhitespace, expr.whiteChars, expr.callPreparse
        return e

    def OneOrMore(self, expr, stop_on=None, **kw):
        if stop_on is not None or kw:
            _unmodelled("OneOrMore(stop_on=...)")
        return self._enhance("OneOrMore", expr)

    def ZeroOrMore(self, expr, stop_on=None, **kw):
        if stop_on is not None or kw:
            _unmodelled("ZeroOrMore(stop_on=...)")
        return self._enhance("ZeroOrMore", expr)

    def Opt(self, expr, *default):
        if default:
            _unmodelled("Opt(expr, default)")
        return self._enhance("Opt", expr)

    Optional = Opt

    def Group(self, expr, *a, **k):
        if a or k:
            _unmodelled("Group(expr, aslist=...)")
        return self._enhance("Group", expr)

    def Suppress(self, expr, *a, **k):
        return self._enhance("Suppress", expr)

    def FollowedBy(self, expr):
        return self._enhance("FollowedBy", expr)

    def NotAny(self, expr):
        e = self._enhance("NotAny", expr)
        e.skipWhitespace = False
        return e

    def Forward(self, other=None):
        e = El(self, "Forward")
        if other is not None:
            e << other
        return e

    def _lookahead(self, expr):
        return self._enhance("Lookahead", expr)

    def infix_notation(self, base_expr, op_list, lpar=None, rpar=None):
        """helpers.infix_notation of pyparsing 3.3, transliterated onto the model constructors"""
        if not isinstance(base_expr, El):
            _unmodelled("infix_notation operand")
        lpar = self.Suppress(self.Literal("(")) if lpar is None else (self.Suppress(self.Literal(lpar)) if isinstance(lpar, str) else lpar)
        rpar = self.Suppress(self.Literal(")")) if rpar is None else (self.Suppress(self.Literal(rpar)) if isinstance(rpar, str) else rpar)
        if not isinstance(lpar, El) or not isinstance(rpar, El):
            _unmodelled("infix_notation lpar / rpar")
        ret = self.Forward()
        nested = lpar + ret + rpar
        last = base_expr | (nested if lpar.kind == "Suppress" and rpar.kind == "Suppress" else self.Group(nested))
        try:
            rows = list(op_list)
        except TypeError:
            _unmodelled("infix_notation operator list")
        for row in rows:
            if not isinstance(row, (tuple, list)) or not 3 <= len(row) <= 4:
                _unmodelled(f"infix_notation operator row {row!r}")
            op, arity, assoc, pa = (tuple(row) + (None,))[:4]
            if isinstance(op, str):
                op = self.Literal(op)
            if arity not in (1, 2) or not isinstance(op, El):
                _unmodelled(f"infix_notation row with arity {arity!r} / operator {op!r}")
            if assoc not in (_OpAssoc.LEFT, _OpAssoc.RIGHT):
                raise ValueError("operator must indicate right or left associativity")
            this = self.Forward()
            if assoc is _OpAssoc.LEFT:
                if arity == 1:
                    look, match = self._lookahead(last + op), self.Group(last + self.OneOrMore(op))
                else:
                    look, match = self._lookahead(last + op + last), self.Group(last + self.OneOrMore(op + last))
            else:
                if arity == 1:
                    opt = op if op.kind == "Opt" else self.Opt(op)
                    look, match = self._lookahead(opt.expr + this), self.Group(opt + this)
                else:
                    look, match = self._lookahead(last + op + this), self.Group(last + self.OneOrMore(op + this))
            match = look + match
            if pa:
                match.set_parse_action(*(pa if isinstance(pa, (tuple, list)) else (pa,)))
            this <<= match | last
            last = this
        ret <<= last
        return ret

    infixNotation = infix_notation

    # ---- parse actions through the interpreter
    def _call_action(self, fn, s, loc, toks):
        it = self.interp
        if it is None:
            raise AnalysisError("pyparsing model: a parse action but no interpreter")
        if isinstance(fn, ClassRef):
            init = it.model.method(fn.mod.rel, getattr(fn.node, "_qual", fn.node.name), "__init__")
            node, skip = (init[1] if init else None), 1
        else:
            node, skip = fn.node, (1 if fn.bound is not None else 0)
        if node is None:
            lo = hi = 0
        else:
            a = node.args
            pos = a.posonlyargs + a.args
            if skip and not (pos and pos[0].arg in ("self", "cls")):
                skip = 0
            hi = 3 if a.vararg else len(pos) - skip
            lo = len(pos) - skip - len(a.defaults)
            if any(d is None for d in a.kw_defaults):
                _unmodelled("parse action with required keyword-only parameters")
        args = [s, loc, toks]
        for k in (3, 2, 1, 0):  # pyparsing's _trim_arity: try (s, loc, toks), (loc, toks), (toks), ()
            if lo <= k <= hi:
                return it.apply(fn, args[3 - k :], {}, 3)
        raise Raised("TypeError", "parse action takes more than three arguments")


PP_EXC = {
    "ParseException": ("ParseBaseException", "Exception", "BaseException"),
    "ParseBaseException": ("Exception", "BaseException"),
    "ParseSyntaxException": ("ParseFatalException", "ParseBaseException", "Exception", "BaseException"),
    "ParseFatalException": ("ParseBaseException", "Exception", "BaseException"),
}


class PPInterp(Interp):
    """pyint with ``pyparsing`` bound to the model; classmethods are bound to their class; attribute writes on parser elements
    (``x.skipWhitespace = True``) reach the model; calling a non-callable native raises the interpreted TypeError."""

    def __init__(self, model, trusted_modules=None, **kw):
        kw.setdefault("max_steps", 5_000_000)
        kw.setdefault("max_depth", 40)
        tm = {"logging": NullLog()}
        tm.update(trusted_modules or {})
        super().__init__(model, trusted_modules=tm, **kw)
        self.pp = self.trusted.get("pyparsing")
        if self.pp is None:
            self.pp = self.trusted["pyparsing"] = PPModule(self)
        self.pp.interp = self

    def getattr(self, base, attr, node, depth):
        if isinstance(base, ClassRef):
            r = self.model.method(base.mod.rel, getattr(base.node, "_qual", base.node.name), attr)
            if r is not None and any(norm(d) == "classmethod" for d in r[1].decorator_list):
                return Func(r[0], r[1], bound=base)
        return super().getattr(base, attr, node, depth)

    def assign(self, target, value, env, mod, depth):
        if isinstance(target, ast.Attribute):
            base = self.ev(target.value, env, mod, depth)
            if isinstance(base, El):
                if target.attr in ("skipWhitespace", "skip_whitespace") and isinstance(value, bool):
                    base.skipWhitespace = value
                    return
                _unmodelled(f"assignment to ParserElement.{target.attr}")
            if not isinstance(base, Rec):
                raise AnalysisError(f"pyint: attribute write on a non-record: {norm(target)}")
            env = dict(env)
            env["$pp_base"] = base
            target = ast.Attribute(value=ast.Name(id="$pp_base"), attr=target.attr)
        return super().assign(target, value, env, mod, depth)

    def apply(self, f, args, kwargs, depth, node=None):
        if not isinstance(f, (Func, ClassRef, Rec)) and not callable(f):
            raise Raised("TypeError", f"'{type(f).__name__}' object is not callable")
        return super().apply(f, args, kwargs, depth, node)

    def exc_isa(self, name, handler, mod):
        if name in PP_EXC:
            return handler == name or handler in PP_EXC[name]
        return super().exc_isa(name, handler, mod)
