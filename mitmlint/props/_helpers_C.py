"""Shared helpers for the batch-C property modules (C20..C24): proxy modes, authentication, access control.

* ``StrictSpec``   a path-engine Spec for *decision tables*: the rule binds a finite abstract input domain
                   (``atom`` hook), every branch condition must then be decided (an undecidable condition is an
                   unmodelled construct -> AnalysisError, never a guess), writes are reported through
                   ``write_event`` and bare call statements must be whitelisted (``call_ok``).
* ``hook_name``    the addon method name mitmproxy derives from a hook class name (mitmproxy/hooks.py).
* ``default_addon_order``  class names instantiated by addons/__init__.py::default_addons, in order.
* ``mode_classes`` names of the ProxyMode subclasses declared in proxy/mode_specs.py.
"""

from __future__ import annotations

import ast
import re

from ..core import AnalysisError
from ..core import norm
from ..model import attr_chain
from ..model import last_attr
from ..model import walk_in_order
from ..paths import C
from ..paths import Engine
from ..paths import is_const
from ..paths import Spec
from ..paths import State
from ..paths import UNKNOWN

ADDONS_INIT = "mitmproxy/addons/__init__.py"
MODE_SPECS = "mitmproxy/proxy/mode_specs.py"
HOOKS = "mitmproxy/hooks.py"


def OBJ(*what):
    """An abstract non-None object (always truthy unless the rule says otherwise)."""
    return ("obj",) + tuple(what)


def is_obj(v, head=None):
    return isinstance(v, tuple) and len(v) >= 1 and v[0] == "obj" and (head is None or (len(v) > 1 and v[1] == head))


class StrictSpec(Spec):
    """Abstract evaluation where *every* condition has to be decided from the bound abstract inputs.

    Hooks for the rule:
      atom(expr, st, depth)            -> abstract value or None (not an input of the table)
      write_event(target, value, stmt, st, depth) -> event tuple | None  for assignments to attribute / subscript targets
      call_ok(call)                    -> bool: may this bare call statement be ignored (pure logging)?
    ``problems`` collects defects noticed while evaluating values (e.g. an attribute read that would raise).
    """

    log_roots = ("logging", "logger", "log")
    allowed_stmts = (ast.If, ast.Return, ast.Assign, ast.AnnAssign, ast.Expr, ast.Pass, ast.Match, ast.Raise, ast.Assert)

    def __init__(self):
        self.problems: list[str] = []

    # ---- hooks
    def atom(self, expr, st, depth):
        return None

    def write_event(self, target, value, stmt, st, depth):
        raise AnalysisError(f"decision table: unmodelled write {norm(stmt)}")

    def call_ok(self, call) -> bool:
        ch = attr_chain(call.func)
        return bool(ch) and ch.split(".")[0] in self.log_roots

    def truthy(self, v):
        if is_const(v):
            return bool(v[1])
        if is_obj(v):
            return True
        return None

    # ---- refuse what is not modelled
    def vet(self, fn):
        for n in walk_in_order(fn):
            if n is fn:
                continue
            if isinstance(n, ast.stmt) and not isinstance(n, self.allowed_stmts):
                raise AnalysisError(f"decision table {fn.name}: statement kind {type(n).__name__} is not modelled: {norm(n)}")
            if isinstance(n, (ast.Lambda, ast.ListComp, ast.SetComp, ast.DictComp, ast.GeneratorExp, ast.Await, ast.Yield, ast.YieldFrom)):
                raise AnalysisError(f"decision table {fn.name}: expression kind {type(n).__name__} is not modelled: {norm(n)}")

    # ---- values
    def value(self, expr, st, depth):
        if expr is None:
            return C(None)
        a = self.atom(expr, st, depth)
        if a is not None:
            return a
        if isinstance(expr, ast.Constant):
            return C(expr.value)
        if isinstance(expr, ast.Name):
            return st.get(f"{depth}:{expr.id}")
        if isinstance(expr, ast.JoinedStr):
            # an f-string with a non-empty literal part is a non-empty string
            if any(isinstance(p, ast.Constant) and p.value for p in expr.values):
                return OBJ("str", "nonempty")
            return UNKNOWN
        if isinstance(expr, ast.BoolOp):
            # value semantics of and/or: first operand that decides the result
            last = UNKNOWN
            for e in expr.values:
                last = self.value(e, st, depth)
                t = self.truthy(last)
                if t is None:
                    return UNKNOWN
                if isinstance(expr.op, ast.Or) and t:
                    return last
                if isinstance(expr.op, ast.And) and not t:
                    return last
            return last
        if isinstance(expr, ast.IfExp):
            t = self.truth(expr.test, st, depth)
            if t is None:
                return UNKNOWN
            return self.value(expr.body if t else expr.orelse, st, depth)
        if isinstance(expr, ast.NamedExpr):
            return self.value(expr.value, st, depth)
        if isinstance(expr, ast.Compare) or (isinstance(expr, ast.UnaryOp) and isinstance(expr.op, ast.Not)):
            t = self.truth(expr, st, depth)
            return C(t) if t is not None else UNKNOWN
        if isinstance(expr, ast.Call) and isinstance(expr.func, ast.Name) and expr.func.id in ("isinstance", "bool"):
            t = self.truth(expr, st, depth)
            return C(t) if t is not None else UNKNOWN
        return UNKNOWN

    def decide_leaf(self, cond, st, depth):
        if isinstance(cond, ast.Call) and isinstance(cond.func, ast.Name) and cond.func.id == "bool" and len(cond.args) == 1:
            return self.truth(cond.args[0], st, depth)
        if isinstance(cond, ast.Call) and isinstance(cond.func, ast.Name) and cond.func.id == "isinstance":
            return self.decide_isinstance(cond, st, depth)
        if isinstance(cond, ast.NamedExpr):
            return self.truthy(self.value(cond.value, st, depth))
        if not isinstance(cond, ast.Compare):
            t = self.truthy(self.value(cond, st, depth))
            if t is not None:
                return t
            return None
        if len(cond.ops) == 1:
            a = self.value(cond.left, st, depth)
            b = self.value(cond.comparators[0], st, depth)
            op = cond.ops[0]
            if isinstance(op, (ast.Is, ast.IsNot)) and is_const(b) and b[1] is None and (is_const(a) or is_obj(a)):
                isnone = is_const(a) and a[1] is None
                return isnone if isinstance(op, ast.Is) else not isnone
            if isinstance(op, (ast.Eq, ast.NotEq)) and is_const(a) and is_const(b):
                return (a[1] == b[1]) if isinstance(op, ast.Eq) else (a[1] != b[1])
            if isinstance(op, (ast.In, ast.NotIn)) and is_const(a) and isinstance(cond.comparators[0], (ast.Tuple, ast.Set, ast.List)):
                elts = [self.value(e, st, depth) for e in cond.comparators[0].elts]
                if all(is_const(e) for e in elts):
                    r = any(a[1] == e[1] for e in elts)
                    return r if isinstance(op, ast.In) else not r
        return None

    def decide_isinstance(self, cond, st, depth):
        return None

    def decide(self, cond, st, depth):
        t = self.truth(cond, st, depth)
        if t is None:
            raise AnalysisError(f"decision table: condition not decidable from the abstract inputs: {norm(cond)}")
        return t

    # ---- effects / events
    def events(self, node, st):
        if isinstance(node, ast.Expr):
            v = node.value
            if isinstance(v, ast.Constant):
                return []
            if isinstance(v, ast.Call) and self.call_ok(v):
                return []
            raise AnalysisError(f"decision table: unmodelled statement {norm(node)}")
        return []

    def effect(self, stmt, st, depth):
        if isinstance(stmt, (ast.Assign, ast.AnnAssign)):
            targets = stmt.targets if isinstance(stmt, ast.Assign) else [stmt.target]
            if stmt.value is None:
                return st
            v = self.value(stmt.value, st, depth)
            for t in targets:
                st = self.bind(t, stmt.value, st, depth, value=v, stmt=stmt)
            return st
        if isinstance(stmt, (ast.AugAssign, ast.Delete)):
            raise AnalysisError(f"decision table: unmodelled statement {norm(stmt)}")
        return st

    def bind(self, target, value_expr, st, depth, value=None, stmt=None):
        v = value if value is not None else self.value(value_expr, st, depth)
        if isinstance(target, ast.Name):
            return st.set(f"{depth}:{target.id}", v)
        if isinstance(target, (ast.Tuple, ast.List)):
            return self.bind_tuple(target, v, stmt or target, st, depth)
        ev = self.write_event(target, v, stmt or target, st, depth)
        if ev is not None:
            st = st.emit(ev)
        return self.after_write(target, v, st, depth)

    def bind_tuple(self, target, v, stmt, st, depth):
        for e in target.elts:
            if not isinstance(e, ast.Name):
                raise AnalysisError(f"decision table: unmodelled unpacking {norm(stmt)}")
            st = st.set(f"{depth}:{e.id}", UNKNOWN)
        return st

    def after_write(self, target, v, st, depth):
        return st

    def match_case(self, subject, pattern, st, depth):
        raise AnalysisError("decision table: match statements are not modelled here")


def run_cell(spec: StrictSpec, fn, bindings: dict):
    """Evaluate ``fn`` for one cell. Exactly one path may result (everything is decided).
    Returns (how, state) with how = 'return' | 'raise:<Cls>'."""
    eng = Engine(spec)
    o = eng.run(fn, State(), bindings)
    finals = [("return", s) for s in o.ret] + [("raise:" + (s.get("$exc")[1] if is_const(s.get("$exc")) else "?"), s) for s in o.exc]
    if len(finals) != 1:
        raise AnalysisError(f"decision table {fn.name}: {len(finals)} outcomes for one cell (expected exactly one)")
    return finals[0]


# ---------------------------------------------------------------------------------------------------
# registries read from source


def hook_name(cls_name: str) -> str:
    """mitmproxy.hooks.Hook.__init_subclass__: HttpRequestHook -> http_request (trusted re-statement, checked by
    ``check_hook_naming``)."""
    name = cls_name.replace("Hook", "")
    return re.sub("(?!^)([A-Z]+)", r"_\1", name).lower()


def hook_method(ctx, rel: str, cls_name: str) -> str:
    """Addon method name a hook class dispatches to: explicit ``name = "..."`` in the class body, else derived."""
    c = ctx.model.cls(rel, cls_name)
    for st in c.body:
        tgt = None
        if isinstance(st, ast.Assign) and len(st.targets) == 1:
            tgt, val = st.targets[0], st.value
        elif isinstance(st, ast.AnnAssign) and st.value is not None:
            tgt, val = st.target, st.value
        if isinstance(tgt, ast.Name) and tgt.id == "name":
            if isinstance(val, ast.Constant) and isinstance(val.value, str):
                return val.value
            raise AnalysisError(f"{rel}::{cls_name}.name is not a string literal")
    check_hook_naming(ctx)
    return hook_name(cls_name)


def check_hook_naming(ctx):
    """The name derivation above is a copy of the one in hooks.py: fail closed when that one changes."""
    fn = ctx.model.func(HOOKS, "Hook.__init_subclass__")
    src = ast.unparse(fn)
    ok = "cls.__name__.replace('Hook', '')" in src and "re.sub('(?!^)([A-Z]+)', '_\\\\1', name).lower()" in src
    if not ok:
        raise AnalysisError("hooks.py::Hook.__init_subclass__ no longer derives hook names the way the checker re-states it")
    ctx.trust("hook method name = re.sub('(?!^)([A-Z]+)', '_\\1', ClassName.replace('Hook','')).lower() (hooks.py, compared with the source on every run)")


def default_addon_order(ctx) -> list[str]:
    fn = ctx.func(ADDONS_INIT, "default_addons")
    rets = [n for n in walk_in_order(fn) if isinstance(n, ast.Return)]
    if len(rets) != 1 or not isinstance(rets[0].value, ast.List):
        raise AnalysisError("default_addons() is no longer a single `return [ ... ]` list")
    out = []
    for e in rets[0].value.elts:
        if not (isinstance(e, ast.Call) and attr_chain(e.func)):
            raise AnalysisError(f"default_addons(): unmodelled element {norm(e)}")
        out.append(last_attr(e.func))
    return out


def mode_classes(ctx) -> list[str]:
    m = ctx.model.module(MODE_SPECS)
    out = []
    for q, d in m.defs().items():
        if isinstance(d, ast.ClassDef) and "." not in q and q != "ProxyMode":
            anc = [c.name for _, c in ctx.model.mro(MODE_SPECS, q)]
            if "ProxyMode" in anc:
                out.append(q)
    if len(out) < 6:
        raise AnalysisError(f"mode_specs.py: only {len(out)} ProxyMode subclasses found")
    return out


def class_isa(model, rel: str, cls_name: str, target: str) -> bool:
    return target in [c.name for _, c in model.mro(rel, cls_name)]


def isinstance_targets(call: ast.Call) -> list[str]:
    t = call.args[1]
    elts = t.elts if isinstance(t, ast.Tuple) else [t]
    out = []
    for e in elts:
        n = last_attr(e)
        if not n or not attr_chain(e):
            raise AnalysisError(f"isinstance against an unmodelled type expression: {norm(call)}")
        out.append(n)
    return out


def modules_mentioning(ctx, *needles, sub: str = "mitmproxy", exclude=("mitmproxy/contrib/",)):
    """Modules of the package whose text contains any of ``needles`` (cheap sound pre-filter for identifier searches:
    a Name/Attribute/str reference needs the identifier in the file's text). Honours in-memory overrides."""
    m = ctx.model
    out = []
    rels = {p.relative_to(m.repo).as_posix() for p in (m.repo / sub).rglob("*.py")} | {r for r in m.overrides if r.startswith(sub)}
    for rel in sorted(rels):
        if any(rel.startswith(e) for e in exclude):
            continue
        src = m.source(rel)
        if any(n in src for n in needles):
            out.append(m.module(rel))
    return out


# ---------------------------------------------------------------------------------------------------
# Socks5Proxy model (shared by C20 and C21): typestate exploration with symbolic buffer arithmetic

import collections  # noqa: E402

from ..layerx import EV  # noqa: E402
from ..layerx import is_ev  # noqa: E402
from ..layerx import LayerSpec  # noqa: E402
from ..paths import R  # noqa: E402

MODES = "mitmproxy/proxy/layers/modes.py"
TRUTHY = ("t",)
FALSY = ("f",)


class RefiningEngine(Engine):
    """Path engine that remembers the outcome of a branch on an unknown *local name* (``if err:``), so that a later
    test of the same name (after ``return err`` into the caller) is decided consistently."""

    def _decide_into(self, shown, expr, s, depth, T, F):
        if isinstance(expr, ast.Name):
            key = f"{depth}:{expr.id}"
            if s.get(key) == UNKNOWN and self.spec.decide(expr, s, depth) is None:
                self.forks += 1
                T.add(self._cev(shown, True, s.set(key, TRUTHY)))
                F.add(self._cev(shown, False, s.set(key, FALSY)))
                return
        # `name == CONST` on a local that holds one unknown byte: remember the outcome (if/elif chains on atyp)
        if isinstance(expr, ast.Compare) and len(expr.ops) == 1 and isinstance(expr.ops[0], ast.Eq) and isinstance(expr.left, ast.Name):
            key = f"{depth}:{expr.left.id}"
            v = s.get(key)
            k = self.spec.value(expr.comparators[0], s, depth)
            atom = single_atom(v)
            if atom is not None and is_const(k) and isinstance(k[1], int) and self.spec.decide(expr, s, depth) is None:
                self.forks += 1
                T.add(self._cev(shown, True, s.set(key, k)))
                ne = s.get("$ne:" + atom)
                excl = tuple(sorted(set(ne[1] if is_const(ne) else ()) | {k[1]}))
                F.add(self._cev(shown, False, s.set("$ne:" + atom, C(excl))))
                return
        Engine._decide_into(self, shown, expr, s, depth, T, F)


# ---- linear forms over byte-valued atoms (all atoms are >= 0)


def LIN(const, terms=()):
    terms = tuple(sorted((a, c) for a, c in dict(terms).items() if c)) if isinstance(terms, dict) else tuple(sorted(terms))
    if not terms:
        return C(const)
    return ("lin", const, terms)


def as_lin(v):
    """(const, {atom: coeff}) for an int constant / linear form, else None."""
    if is_const(v) and isinstance(v[1], int) and not isinstance(v[1], bool):
        return v[1], {}
    if isinstance(v, tuple) and len(v) == 3 and v[0] == "lin":
        return v[1], dict(v[2])
    return None


def lin_add(a, b, sign=1):
    la, lb = as_lin(a), as_lin(b)
    if la is None or lb is None:
        return None
    d = dict(la[1])
    for k, c in lb[1].items():
        d[k] = d.get(k, 0) + sign * c
    return LIN(la[0] + sign * lb[0], {k: c for k, c in d.items() if c})


def lin_ge(a, b):
    """a >= b for all non-negative atom values?  (sufficient condition: a - b has only non-negative coefficients)"""
    d = lin_add(a, b, -1)
    l = as_lin(d) if d is not None else None
    if l is None:
        return False
    return l[0] >= 0 and all(c >= 0 for c in l[1].values())


def single_atom(v):
    l = as_lin(v)
    if l is not None and l[0] == 0 and len(l[1]) == 1 and list(l[1].values()) == [1]:
        return next(iter(l[1]))
    return None


def lin_text(v) -> str:
    l = as_lin(v)
    if l is None:
        return str(v)
    parts = [str(l[0])] if l[0] or not l[1] else []
    for a, c in sorted(l[1].items()):
        parts.append(a if c == 1 else f"{c}*{a}")
    return " + ".join(parts)


class Socks5Spec(LayerSpec):
    """Model of ``Socks5Proxy`` (+ ``DestinationKnown.finish_start``) extracted from proxy/layers/modes.py.

    Tracked: self.state, self._handle_event, ``$epoch`` (number of times self.buf was re-assigned: indices of different
    epochs are different symbols).  Optional bound inputs in the environment: ``$proxyauth`` (option set?), ``$valid``
    (outcome of the Socks5AuthHook), ``$byte<epoch>_<k>`` (value of self.buf[k] in that epoch, used for table cells).

    Events (all emitted in program order):
      ('enter', name)                         a state function / helper is entered (inlined)
      ('buf+',)  ('buf:=', value)  ('bufdel',)   buffer append / re-assignment / deletion
      ('send', side, payload)  ('close', side)  ('open',)  ('hook', Cls)  ('log',)
      ('child:=',)  ('child_start',)  ('child_data', args)
      ('set', 'self.state'|'self._handle_event', target)     ('addr:=', value)
      ('c', kind, data, taken, reads)         a decided / forked condition; kind 'need' (len(self.buf) < data),
                                              'valid', 'proxyauth', 'buf' (truthiness of self.buf), 'other'
      ('read', index_form)                    self.buf[index] evaluated in a statement
    """

    tracked = ("self.state", "self._handle_event")
    dispatch_attrs = ("self.state",)
    label_inlined_call = True
    record_conds = True
    max_depth = 8
    max_epoch = 6  # a handshake consumes at most three messages; the cap keeps a broken variant's state space finite

    def __init__(self, model, cls: str = "Socks5Proxy"):
        super().__init__(model, MODES, cls)
        self._depth = 0
        self._mod = model.module(MODES)
        for name in ("_handle_event", "state_greet", "state_auth", "state_connect", "socks_err", "finish_start"):
            r = model.method(MODES, cls, name)
            if r is None:
                raise AnalysisError(f"anchor vanished: {MODES}::{cls}.{name}")
            for n in walk_in_order(r[1]):
                if isinstance(n, (ast.For, ast.While, ast.Try, ast.With, ast.Match, ast.AsyncFor, ast.AsyncWith)):
                    raise AnalysisError(f"{cls}.{name}: statement kind {type(n).__name__} is not modelled by the SOCKS5 model")

    def extra_modules(self):
        return [self.model.module("mitmproxy/proxy/events.py")]

    def refs_are_distinct(self, a, b):
        return a.startswith("self.") and b.startswith("self.")

    # ---- values
    def epoch(self, st):
        v = st.get("$epoch")
        return v[1] if is_const(v) else 0

    def module_const(self, name):
        vals = self._mod.assigns(name)
        if len(vals) == 1:
            try:
                return C(ast.literal_eval(vals[0]))
            except Exception:
                return None
        return None

    def buf_atom(self, idx, st):
        l = as_lin(idx)
        if l is None:
            return None
        if not l[1]:
            b = st.get(f"$byte{self.epoch(st)}_{l[0]}")
            if is_const(b):
                return b
        return LIN(0, {f"buf{self.epoch(st)}[{lin_text(idx)}]": 1})

    def slice_bounds(self, sl, st, depth):
        lo = self.value(sl.lower, st, depth) if sl.lower is not None else C(0)
        hi = self.value(sl.upper, st, depth) if sl.upper is not None else C(None)
        if sl.step is not None:
            raise AnalysisError(f"SOCKS5 model: stepped slice {norm(sl)}")
        return lo, hi

    def value(self, expr, st, depth):
        if isinstance(expr, ast.Name):
            key = f"{depth}:{expr.id}"
            if st.has(key):
                return st.get(key)
            mc = self.module_const(expr.id)
            return mc if mc is not None else UNKNOWN
        if isinstance(expr, ast.BinOp) and isinstance(expr.op, (ast.Add, ast.Sub)):
            a, b = self.value(expr.left, st, depth), self.value(expr.right, st, depth)
            r = lin_add(a, b, 1 if isinstance(expr.op, ast.Add) else -1)
            if r is not None:
                return r
            if isinstance(expr.op, ast.Add) and is_const(a) and is_const(b) and isinstance(a[1], bytes) and isinstance(b[1], bytes):
                return C(a[1] + b[1])
            return UNKNOWN
        if isinstance(expr, ast.UnaryOp) and isinstance(expr.op, ast.USub):
            v = self.value(expr.operand, st, depth)
            return C(-v[1]) if is_const(v) and isinstance(v[1], int) else UNKNOWN
        if isinstance(expr, ast.Tuple):
            return OBJ("tuple", *[self.value(e, st, depth) for e in expr.elts])
        if isinstance(expr, ast.Subscript):
            base_chain = attr_chain(expr.value)
            if base_chain == "self.buf":
                if isinstance(expr.slice, ast.Slice):
                    lo, hi = self.slice_bounds(expr.slice, st, depth)
                    if is_const(lo) and is_const(hi) and isinstance(lo[1], int) and isinstance(hi[1], int) and 0 <= lo[1] <= hi[1]:
                        bs = [st.get(f"$byte{self.epoch(st)}_{i}") for i in range(lo[1], hi[1])]
                        if bs and all(is_const(b) for b in bs):
                            return C(bytes(b[1] for b in bs))
                    return OBJ("bufslice", self.epoch(st), lo, hi)
                idx = self.value(expr.slice, st, depth)
                at = self.buf_atom(idx, st)
                return at if at is not None else UNKNOWN
            base = self.value(expr.value, st, depth)
            if is_obj(base, "bufslice") and isinstance(expr.slice, ast.Slice):
                lo, hi = self.slice_bounds(expr.slice, st, depth)
                return OBJ("subslice", base, lo, hi)
            return UNKNOWN
        if isinstance(expr, ast.Call):
            f = expr.func
            name = last_attr(f)
            if isinstance(f, ast.Name) and f.id == "bytes" and len(expr.args) == 1 and isinstance(expr.args[0], ast.List):
                vals = [self.value(e, st, depth) for e in expr.args[0].elts]
                if all(is_const(v) and isinstance(v[1], int) for v in vals):
                    try:
                        return C(bytes(v[1] for v in vals))
                    except ValueError:
                        return UNKNOWN
                return OBJ("bytes", *vals)
            if name == "inet_ntop" and len(expr.args) == 2:
                return OBJ("inet_ntop", last_attr(expr.args[0]), self.value(expr.args[1], st, depth))
            if name == "decode" and isinstance(f, ast.Attribute):
                base = self.value(f.value, st, depth)
                if is_obj(base):
                    return OBJ("decoded", base)
                return UNKNOWN
            if name == "unpack" and len(expr.args) == 2:
                return OBJ("unpack", self.value(expr.args[0], st, depth), self.value(expr.args[1], st, depth))
            return LayerSpec.value(self, expr, st, depth)
        if attr_chain(expr) == "data.valid":
            v = st.get("$valid")
            return v if is_const(v) else UNKNOWN
        return LayerSpec.value(self, expr, st, depth)

    def bind(self, target, value_expr, st, depth, value=None):
        if isinstance(target, (ast.Tuple, ast.List)):
            v = value if value is not None else (self.value(value_expr, st, depth) if value_expr is not None else UNKNOWN)
            if is_obj(v, "tuple") and len(v) - 2 == len(target.elts):
                for t, x in zip(target.elts, v[2:]):
                    st = self.bind(t, None, st, depth, value=x)
                return st
            if is_obj(v, "unpack") and len(target.elts) == 1:
                return self.bind(target.elts[0], None, st, depth, value=OBJ("unpacked", v[2], v[3]))
            for t in target.elts:
                st = self.bind(t, None, st, depth, value=UNKNOWN)
            return st
        return LayerSpec.bind(self, target, value_expr, st, depth, value=value)

    # ---- conditions
    def decide(self, cond, st, depth):
        self._depth = depth
        return LayerSpec.decide(self, cond, st, depth)

    def decide_leaf(self, cond, st, depth):
        if isinstance(cond, ast.Name):
            v = self.value(cond, st, depth)
            if v == TRUTHY:
                return True
            if v == FALSY:
                return False
        ch = attr_chain(cond)
        if ch == "self.context.options.proxyauth":
            v = st.get("$proxyauth")
            return v[1] if is_const(v) else None
        if isinstance(cond, ast.Compare) and len(cond.ops) == 1:
            a = self.value(cond.left, st, depth)
            b = self.value(cond.comparators[0], st, depth)
            op = cond.ops[0]
            if isinstance(op, ast.In) and is_const(a) and a[1] == "proxyauth" and attr_chain(cond.comparators[0]) == "self.context.options":
                v = st.get("$proxyauth")
                return True if (is_const(v) and v[1]) else None  # a configured option is a registered option
            if is_const(a) and is_const(b) and isinstance(a[1], int) and isinstance(b[1], int) and isinstance(op, (ast.Eq, ast.NotEq)):
                return (a[1] == b[1]) if isinstance(op, ast.Eq) else (a[1] != b[1])
            atom = single_atom(a)
            if atom is not None and is_const(b) and isinstance(op, (ast.Eq, ast.NotEq)):
                ne = st.get("$ne:" + atom)
                if is_const(ne) and b[1] in ne[1]:
                    return isinstance(op, ast.NotEq)
        return LayerSpec.decide_leaf(self, cond, st, depth)

    def cond_event(self, expr, value, st):
        depth = self._depth
        reads = tuple(self.reads_in(expr, st, depth))
        if isinstance(expr, ast.Compare) and len(expr.ops) == 1 and isinstance(expr.left, ast.Call) and norm(expr.left) == "len(self.buf)":
            if not isinstance(expr.ops[0], ast.Lt):
                raise AnalysisError(f"SOCKS5 model: unmodelled length test {norm(expr)}")
            need = self.value(expr.comparators[0], st, depth)
            if as_lin(need) is None:
                raise AnalysisError(f"SOCKS5 model: length bound is not a linear form: {norm(expr)}")
            return ("c", "need", need, value, reads)
        if "len(self.buf)" in norm(expr):
            raise AnalysisError(f"SOCKS5 model: unmodelled length test {norm(expr)}")
        ch = attr_chain(expr)
        if ch == "data.valid":
            return ("c", "valid", None, value, reads)
        if ch == "self.buf":
            return ("c", "buf", None, value, reads)
        if "proxyauth" in norm(expr):
            return ("c", "proxyauth", norm(expr), value, reads)
        return ("c", "other", norm(expr), value, reads)

    def reads_in(self, node, st, depth):
        """Index forms read from self.buf in ``node``: an int form for ``self.buf[i]`` (needs i < len), and
        ('upto', form) for a slice with an explicit upper bound (the field is truncated unless form <= len)."""
        out = []
        for n in eval_order_(node):
            if isinstance(n, ast.Subscript) and attr_chain(n.value) == "self.buf":
                if isinstance(n.slice, ast.Slice):
                    if n.slice.upper is not None:
                        hi = self.value(n.slice.upper, st, depth)
                        if as_lin(hi) is None:
                            raise AnalysisError(f"SOCKS5 model: slice bound is not a linear form: {norm(n)}")
                        out.append(("upto", hi))
                    continue
                idx = self.value(n.slice, st, depth)
                if as_lin(idx) is None:
                    raise AnalysisError(f"SOCKS5 model: self.buf index is not a linear form: {norm(n)}")
                out.append(idx)
        return out

    # ---- labelling
    def events(self, node, st):
        # inlined calls are labelled here (label_inlined_call); everything else in effect() where the frame depth is known
        if isinstance(node, ast.Call):
            f = node.func
            if isinstance(f, ast.Attribute) and isinstance(f.value, ast.Name) and f.value.id == "self":
                if f.attr == "state":
                    v = st.get("self.state")
                    return [("enter", v[1] if v[0] == "r" else "?")]
                return [("enter", "self." + f.attr)]
        return []

    def side(self, expr):
        ch = attr_chain(expr)
        if ch.endswith("context.client"):
            return "client"
        if ch.endswith("context.server"):
            return "server"
        return ch or norm(expr)

    def effect(self, stmt, st, depth):
        for idx in self.reads_in(stmt, st, depth):
            st = st.emit(("read", idx))
        if isinstance(stmt, ast.Expr):
            v = stmt.value
            if isinstance(v, ast.Yield) and isinstance(v.value, ast.Call):
                c = v.value
                name = last_attr(c.func)
                if name == "SendData" and len(c.args) == 2:
                    return st.emit(("send", self.side(c.args[0]), self.value(c.args[1], st, depth)))
                if name == "CloseConnection" and c.args:
                    return st.emit(("close", self.side(c.args[0])))
                if name == "OpenConnection":
                    return st.emit(("open",))
                if name == "Log":
                    return st.emit(("log",))
                if name.endswith("Hook"):
                    return st.emit(("hook", name))
                raise AnalysisError(f"SOCKS5 model: unmodelled command {norm(c)}")
            if isinstance(v, ast.YieldFrom) and isinstance(v.value, ast.Call):
                c = v.value
                if attr_chain(c.func) == "self.child_layer.handle_event" and len(c.args) == 1 and isinstance(c.args[0], ast.Call):
                    kind = last_attr(c.args[0].func)
                    if kind == "Start":
                        return st.emit(("child_start",))
                    if kind == "DataReceived":
                        return st.emit(("child_data", tuple(norm(a) for a in c.args[0].args)))
                if norm(c) == "()":
                    return st
                raise AnalysisError(f"SOCKS5 model: unmodelled delegation {norm(c)}")
            if isinstance(v, ast.YieldFrom) and isinstance(v.value, ast.Tuple) and not v.value.elts:
                return st
            if isinstance(v, ast.Constant):
                return st
            raise AnalysisError(f"SOCKS5 model: unmodelled statement {norm(stmt)}")
        if isinstance(stmt, ast.AugAssign):
            if attr_chain(stmt.target) == "self.buf":
                if not isinstance(stmt.op, ast.Add):
                    raise AnalysisError(f"SOCKS5 model: unmodelled buffer update {norm(stmt)}")
                return st.emit(("buf+", norm(stmt.value)))
            return LayerSpec.effect(self, stmt, st, depth)
        if isinstance(stmt, ast.Delete):
            for t in stmt.targets:
                if attr_chain(t) == "self.buf":
                    st = st.emit(("bufdel",))
                else:
                    raise AnalysisError(f"SOCKS5 model: unmodelled delete {norm(stmt)}")
            return st
        if isinstance(stmt, (ast.Assign, ast.AnnAssign)):
            if isinstance(stmt, ast.AnnAssign) and stmt.value is None:
                return st
            targets = stmt.targets if isinstance(stmt, ast.Assign) else [stmt.target]
            if isinstance(stmt.value, ast.Yield):
                # err = yield commands.OpenConnection(...)
                c = stmt.value.value
                if isinstance(c, ast.Call) and last_attr(c.func) == "OpenConnection":
                    st = st.emit(("open",))
                    for t in targets:
                        st = self.bind(t, None, st, depth, value=UNKNOWN)
                    return st
                raise AnalysisError(f"SOCKS5 model: unmodelled command {norm(stmt)}")
            val = self.value(stmt.value, st, depth)
            for t in targets:
                pairs = [(t, val)]
                if isinstance(t, (ast.Tuple, ast.List)) and is_obj(val, "tuple") and len(val) - 2 == len(t.elts):
                    pairs = list(zip(t.elts, val[2:]))
                for tt, vv in pairs:
                    ch = attr_chain(tt)
                    if ch == "self.buf":
                        st = st.emit(("buf:=", vv)).set("$epoch", C(min(self.epoch(st) + 1, self.max_epoch)))
                    elif ch in ("self.state", "self._handle_event"):
                        st = st.emit(("set", ch, vv[1] if vv[0] == "r" else norm(stmt.value)))
                        st = st.set(ch, vv)
                    elif ch == "self.context.server.address":
                        st = st.emit(("addr:=", vv))
                    elif ch == "self.child_layer":
                        st = st.emit(("child:=",))
                    elif ch.startswith("self."):
                        raise AnalysisError(f"SOCKS5 model: unmodelled attribute write {norm(stmt)}")
                    else:
                        st = self.bind(tt, None, st, depth, value=vv)
            return st
        return LayerSpec.effect(self, stmt, st, depth)


def eval_order_(node):
    from ..model import eval_order

    return eval_order(node)


SOCKS_EVENTS = (EV("Start"), EV("DataReceived"), EV("ConnectionClosed"))


def explore_socks5(spec: Socks5Spec, entry_fn, init_env: dict, max_states: int = 300):
    """Fix-point over the tracked environment; returns (states, transitions) with
    transitions = [(src_env: dict, event_kind, trace, dst_env: dict, exc | None)].
    Events are offered while ``self._handle_event`` is still the layer's own handler (afterwards the layer has
    delegated to ``done`` or to the child layer)."""
    eng = RefiningEngine(spec)
    start = tuple(sorted(init_env.items()))
    seen = {start}
    q = collections.deque([start])
    trans = []
    while q:
        node = q.popleft()
        env = dict(node)
        if env.get("self._handle_event") != R("self._handle_event"):
            continue
        for ev in SOCKS_EVENTS:
            st0 = State((), dict(env)).set("0:event", ev)
            for fs in eng.finals(entry_fn, st0):
                fenv = {k: v for k, v in fs.env if not (k[:1].isdigit() and ":" in k) and k not in ("$ret", "$exc", "$handling") and not k.startswith("$ne:")}
                exc = fs.get("$exc")
                trans.append((env, ev[1], fs.trace, fenv, exc[1] if is_const(exc) else None))
                nxt = tuple(sorted(fenv.items()))
                if nxt not in seen:
                    seen.add(nxt)
                    q.append(nxt)
                    if len(seen) > max_states:
                        raise AnalysisError(f"SOCKS5 exploration exceeded {max_states} abstract states")
    return [dict(s) for s in seen], trans, eng


def socks5_init_env(**extra):
    env = {"self.state": R("self.state_greet"), "self._handle_event": R("self._handle_event"), "$epoch": C(0)}
    env.update(extra)
    return env


# ===================================================================================================
# Interpretation harness (hardening round): the layer / addon code is *interpreted* from its AST (pyint) on concrete inputs,
# so that rules compare what the code does - commands, replies, state - and not how it is written.  A refactor (helper
# extraction, match, early returns, tables, struct.pack, renamed locals / private methods, logging, assertions, defaulted
# parameters) is interpreted like the original; an edit that changes an outcome changes the interpreted result.

import socket as _socket  # noqa: E402
import struct as _struct  # noqa: E402
from types import SimpleNamespace as _NS  # noqa: E402

from ..pyint import _Return  # noqa: E402
from ..pyint import ClassRef  # noqa: E402
from ..pyint import DictRec  # noqa: E402
from ..pyint import Func  # noqa: E402
from ..pyint import Interp  # noqa: E402
from ..pyint import Raised  # noqa: E402
from ..pyint import Rec  # noqa: E402


class CachedModel:
    """Read-only proxy of ``Model`` that memoises the class-hierarchy queries the interpreter repeats for every attribute access."""

    def __init__(self, model):
        self._m = model
        self._mro: dict = {}
        self._method: dict = {}
        self._dotted: dict = {}
        self._resolved: dict = {}

    def __getattr__(self, name):
        return getattr(self._m, name)

    def module_by_dotted(self, dotted):
        if dotted not in self._dotted:
            self._dotted[dotted] = self._m.module_by_dotted(dotted)
        return self._dotted[dotted]

    def resolve_name(self, mod, expr):
        if isinstance(expr, ast.Name):
            k = (mod.rel, expr.id)
            if k not in self._resolved:
                self._resolved[k] = Model_resolve(self, mod, expr)
            return self._resolved[k]
        return Model_resolve(self, mod, expr)

    def mro(self, rel, qual):
        k = (rel, qual)
        if k not in self._mro:
            self._mro[k] = self._m.mro(rel, qual)
        return self._mro[k]

    def method(self, rel, cls_qual, name):
        k = (rel, cls_qual, name)
        if k not in self._method:
            r = None
            for m, c in self.mro(rel, cls_qual):
                for st in c.body:
                    if isinstance(st, (ast.FunctionDef, ast.AsyncFunctionDef)) and st.name == name:
                        r = (m, st)
                        break
                if r:
                    break
            self._method[k] = r
        return self._method[k]


def Model_resolve(cm, mod, expr):
    from ..model import Model

    return Model.resolve_name(cm, mod, expr)  # the unbound method, so that its inner look-ups use the caches of the proxy


class NullLogger:
    """``logging`` without effect: diagnostics are not part of any rule's alphabet."""

    def _noop(self, *a, **k):
        return None

    debug = info = warning = warn = error = exception = critical = log = _noop

    def isEnabledFor(self, *a):
        return False

    def getChild(self, *a):
        return self


NULL_LOGGER = NullLogger()
LOGGING_STUB = _NS(DEBUG=10, INFO=20, WARNING=30, WARN=30, ERROR=40, CRITICAL=50, NOTSET=0, getLogger=lambda *a: NULL_LOGGER, getLevelName=lambda lv: str(lv),
                   debug=NULL_LOGGER._noop, info=NULL_LOGGER._noop, warning=NULL_LOGGER._noop, error=NULL_LOGGER._noop, log=NULL_LOGGER._noop)
SOCKET_STUB = _NS(inet_ntop=_socket.inet_ntop, inet_ntoa=_socket.inet_ntoa, inet_pton=_socket.inet_pton, inet_aton=_socket.inet_aton, AF_INET=_socket.AF_INET, AF_INET6=_socket.AF_INET6)
WARNINGS_STUB = _NS(warn=lambda *a, **k: None)


class Opaque:
    """Value of an attribute the rule's world does not define (``conn.peername`` in a log call).  It may be passed to logging and formatted;
    any *decision* or computation on it is outside the model (AnalysisError), never a guess."""

    def __init__(self, name):
        self.name = name

    def __repr__(self):
        return f"<opaque {self.name}>"

    __str__ = __repr__

    def __format__(self, spec):
        return repr(self)


class OpenRec(Rec):
    """A record whose undefined attributes read as ``Opaque`` (instead of ending the analysis)."""


class OpenDictRec(DictRec, OpenRec):
    """A mapping record (options) whose undefined attributes read as ``Opaque``."""


class _Where:
    """Source text of a call site, rendered only when an error message needs it."""

    def __init__(self, node):
        self.node = node

    def __str__(self):
        return norm(self.node)[:80] if self.node is not None else "?"

    __repr__ = __str__

    def __format__(self, spec):
        return str(self)


class GenDone:
    """A finished (eagerly executed) call of a repository generator function."""

    def __init__(self, yields, value):
        self.yields, self.value = yields, value


def _is_dataclass(cdef) -> bool:
    return any(last_attr(d.func if isinstance(d, ast.Call) else d) == "dataclass" for d in cdef.decorator_list)


import builtins as _builtins  # noqa: E402

_BUILTIN_EXC = {n: getattr(_builtins, n) for n in dir(_builtins) if isinstance(getattr(_builtins, n), type) and issubclass(getattr(_builtins, n), BaseException)}


class ExcRec(Rec):
    """An *instance* of a repository exception class: a record bound to the class (its ``__init__`` / methods / properties are interpreted),
    with ``args`` like every exception.  It travels in ``RaisedObj`` and is what ``except Cls as e`` binds, so an error that is transported
    by a private exception (``raise _Err(message, code)`` ... ``except _Err as e: use(e.message, e.code)``) is interpreted like the inline
    code it replaced.  pyint's core represents exception instances as the string '<exc:Name>' (kept for the built-in exceptions)."""

    def message_text(self) -> str:
        a = self.__dict__.get("args", ())
        return "" if not a else (str(a[0]) if len(a) == 1 else str(tuple(a)))


class EnumInt(int):
    """Member of an int-valued repository enum (IntEnum / IntFlag / ``class X(int, Enum)``): it IS its integer value for every comparison,
    arithmetic, ``bytes([..])`` / ``struct.pack`` - exactly like the real member - and knows ``name`` / ``value`` / its class.  (pyint's core
    represents enum members as an opaque tuple, which is right for plain ``Enum`` only: ``buf[3] == Atyp.IPV4`` has to be decided by value
    when module constants are modernised into an IntEnum.)"""

    def __new__(cls, value, enum_cls, name):
        o = int.__new__(cls, value)
        o._enum_cls, o.name, o.value = enum_cls, name, int(value)
        return o

    def __repr__(self):
        return f"<{self._enum_cls}.{self.name}: {int(self)}>"

    __str__ = int.__repr__

    def __format__(self, spec):
        return format(int(self), spec)


class EnumStr(str):
    """Member of a str-valued repository enum (StrEnum / ``class X(str, Enum)``): it IS its string value."""

    def __new__(cls, value, enum_cls, name):
        o = str.__new__(cls, value)
        o._enum_cls, o.name, o.value = enum_cls, name, str.__str__(value)
        return o

    def __repr__(self):
        return f"<{self._enum_cls}.{self.name}: {str.__repr__(self)}>"


class NTVal(tuple):
    """Instance of a repository ``typing.NamedTuple`` class: a real tuple (unpacking, indexing, equality with plain tuples - what the rest
    of the program sees) whose fields also read as attributes; methods / properties of the class are interpreted."""

    def __new__(cls, values, fields, impl, cls_name):
        o = tuple.__new__(cls, values)
        o._fields, o._impl, o._cls = tuple(fields), impl, cls_name
        return o

    def __repr__(self):
        return f"{self._cls}({', '.join(f'{k}={v!r}' for k, v in zip(self._fields, self))})"


class RaisedObj(Raised):
    """``Raised`` that carries the exception instance (an ``ExcRec``)."""

    def __init__(self, value: ExcRec):
        super().__init__(value._cls, value.message_text() if all(isinstance(a, (str, bytes, int, float, bool, type(None))) for a in value.__dict__.get("args", ())) else "")
        self.value = value


class LayerInterp(Interp):
    """pyint for sans-io layers and addon hooks:
    * a call of a generator function is executed eagerly; every yielded command is handed to ``respond(command)`` (the rule's
      environment: it may mutate hook data and returns the value sent back - ``err = yield OpenConnection(..)``) and appended to
      ``self.log`` in program order; ``x = yield from g()`` gets g's return value;
    * class-level attributes are evaluated in class scope and bound like methods (``state = state_greet``); ``del self.attr``;
      ``A | B`` of classes is the tuple (A, B) for isinstance; dataclasses get the generated ``__init__``; a null ``logging``;
    * instances of repository exception classes are objects (``ExcRec``): state given to ``raise Err(msg, code)`` is what ``except Err
      as e`` reads (``e.code``, ``e.args``, ``str(e)``), bare ``raise`` re-raises the object, handlers match by class hierarchy - an error
      transported by a private exception and handled inside the layer is the same behaviour as the inline error path;
    * members of int / str valued enums are their values (``EnumInt`` / ``EnumStr``), ``Cls(value)`` looks the member up;
      ``typing.NamedTuple`` instances are real tuples with named fields (``NTVal``)."""

    def __init__(self, model, respond=None, trusted_modules=None, externals=None, **kw):
        tm = {"logging": LOGGING_STUB, "socket": SOCKET_STUB, "struct": _struct, "warnings": WARNINGS_STUB}
        for pure in ("ipaddress", "binascii", "base64", "re", "itertools", "operator", "math", "string", "codecs", "collections", "enum"):
            tm[pure] = __import__(pure)  # pure stdlib functions of bytes / str / int (arguments that are records are refused by native_call)
        tm.update(trusted_modules or {})
        super().__init__(model if isinstance(model, CachedModel) else CachedModel(model), trusted_modules=tm, externals=externals, **kw)
        self.respond = respond or (lambda cmd: None)
        self.log: list = []
        self._frames: list[list] = []
        self._attr_cache: dict = {}
        self._fn_kind: dict = {}
        self._dc_cache: dict = {}
        self._globals: dict = {}
        self._probing = 0
        self.seen_funcs: set = set()  # (module, qualified name) of every repository function that was interpreted

    # ---- generators, eagerly
    def _kind(self, node):
        """'gen' | 'plain' for a function node (cached; pyint walks the body on every call)"""
        k = self._fn_kind.get(id(node))
        if k is None:
            k = "plain"
            if not isinstance(node, ast.Lambda):
                for n in ast.walk(node):
                    if isinstance(n, (ast.Yield, ast.YieldFrom, ast.Await)) and self._owner(n, node):
                        k = "coroutine" if isinstance(n, ast.Await) else "gen"
                        if k == "coroutine":
                            break
            self._fn_kind[id(node)] = k
        return k

    def call_func(self, f, args, kwargs, depth):
        # same binding rules as pyint.call_func (without its per-call walk over the body); generator functions run eagerly
        kind = self._kind(f.node)
        self.seen_funcs.add((f.mod.rel, getattr(f.node, "_qual", getattr(f.node, "name", "<lambda>"))))
        if kind == "coroutine":
            raise AnalysisError(f"interpretation harness: {getattr(f.node, 'name', 'lambda')} is a coroutine (not modelled)")
        env = self._bind_args(f, args, kwargs, depth)
        if isinstance(f.node, ast.Lambda):
            return self.ev(f.node.body, env, f.mod, depth)
        if kind == "plain":
            try:
                self.block(f.node.body, env, f.mod, depth)
            except _Return as r:
                return r.value
            return None
        frame: list = []
        self._frames.append(frame)
        try:
            try:
                self.block(f.node.body, env, f.mod, depth)
                value = None
            except _Return as r:
                value = r.value
        finally:
            self._frames.pop()
        return GenDone(frame, value)

    def apply(self, f, args, kwargs, depth, node=None):
        if isinstance(f, Func):
            self.calls += 1
            if depth + 1 > self.max_depth:
                raise AnalysisError(f"pyint: call depth {self.max_depth} exceeded at {norm(node)[:80] if node is not None else '?'}")
            return self.call_func(f, args, kwargs, depth + 1)
        if isinstance(f, ClassRef):
            self.calls += 1
            return self.instantiate(f, args, kwargs, depth, _Where(node))
        if callable(f) and not isinstance(f, Rec):
            self.calls += 1
            return self.native_call(f, args, kwargs, _Where(node))
        return super().apply(f, args, kwargs, depth, node)

    def _bind_args(self, f, args, kwargs, depth):
        node = f.node
        a = node.args
        env = {"$closure": f.closure} if f.closure else {}
        params = [p.arg for p in a.posonlyargs + a.args]
        args = list(args)
        if f.bound is not None and params and params[0] in ("self", "cls"):
            args = [f.bound] + args
            env["$self"] = f.bound
            env["$fn"] = node
        for p, v in zip(params, args):
            env[p] = v
        extra = args[len(params):]
        if a.vararg:
            env[a.vararg.arg] = tuple(extra)
        elif extra:
            raise Raised("TypeError", "too many positional arguments")
        defaults = a.defaults
        for p, d in zip(params[len(params) - len(defaults):], defaults):
            if p not in env and p not in kwargs:
                env[p] = self.ev(d, {}, f.mod, depth)
        for p, d in zip(a.kwonlyargs, a.kw_defaults):
            if p.arg not in kwargs and d is not None:
                env[p.arg] = self.ev(d, {}, f.mod, depth)
        known = set(params) | {p.arg for p in a.kwonlyargs}
        rest = {}
        for k, v in kwargs.items():
            if k in known:
                env[k] = v
            else:
                rest[k] = v
        if a.kwarg:
            env[a.kwarg.arg] = rest
        elif rest:
            raise Raised("TypeError", f"unexpected keyword {list(rest)}")
        for p in params + [p.arg for p in a.kwonlyargs]:
            if p not in env:
                raise Raised("TypeError", f"missing argument {p}")
        return env

    def ev_call(self, e, env, mod, depth):
        if self.externals:
            return super().ev_call(e, env, mod, depth)
        f = self.ev(e.func, env, mod, depth)
        args = self.elts(e.args, env, mod, depth)
        kwargs = {}
        for k in e.keywords:
            if k.arg is None:
                kwargs.update(self.ev(k.value, env, mod, depth))
            else:
                kwargs[k.arg] = self.ev(k.value, env, mod, depth)
        if isinstance(f, tuple) and f and isinstance(f[0], str) and f[0] in ("$builtin", "$dictmethod", "$typing", "$exc"):
            if f[0] == "$builtin":
                return self.builtin(f[1], args, kwargs, e, env, mod, depth)
            if f[0] == "$dictmethod":
                return self.dictmethod(f[1], f[2], args, kwargs)
            if f[0] == "$exc":
                return f"<exc:{f[1]}>"
            return super().ev_call(e, env, mod, depth)  # typing helpers: rare, pure - evaluate the pyint way
        return self.apply(f, args, kwargs, depth, e)

    def do_yield(self, value):
        if not self._frames:
            raise AnalysisError("interpretation harness: yield outside a generator call")
        self._frames[-1].append(value)
        self.log.append(("cmd", value))
        return self.respond(value)

    def ev(self, e, env, mod, depth):
        t = type(e)
        if t is ast.Constant:
            return e.value
        if t is ast.Name:
            return self.name(e.id, env, mod, depth, e)
        if t is ast.YieldFrom:
            v = self.ev(e.value, env, mod, depth)
            if not self._frames:
                raise AnalysisError("interpretation harness: yield from outside a generator call")
            for x in self.iterate(v, e.value):
                if not isinstance(v, GenDone):  # commands of an eagerly executed sub-generator were logged when they were yielded
                    self.log.append(("cmd", x))
                    self.respond(x)
                self._frames[-1].append(x)
            return v.value if isinstance(v, GenDone) else None
        return super().ev(e, env, mod, depth)

    def iterate(self, v, node):
        if isinstance(v, GenDone):
            return list(v.yields)
        return super().iterate(v, node)

    def truthy(self, v):
        if isinstance(v, GenDone):
            return True
        if isinstance(v, Opaque):
            raise AnalysisError(f"interpretation harness: decision on an attribute outside the modelled world: {v!r}")
        return super().truthy(v)

    # ---- values outside the world
    def cmp(self, op, a, b, node):
        if isinstance(a, Opaque) or isinstance(b, Opaque):
            raise AnalysisError(f"interpretation harness: comparison of an attribute outside the modelled world: {norm(node)[:80]}")
        return super().cmp(op, a, b, node)

    def binop(self, op, l, r, node):
        if isinstance(l, Opaque) or isinstance(r, Opaque):
            raise AnalysisError(f"interpretation harness: arithmetic on an attribute outside the modelled world: {norm(node)[:80]}")
        if isinstance(op, ast.BitOr):
            isty = lambda x: isinstance(x, (ClassRef, type)) or (isinstance(x, tuple) and x and all(isinstance(y, (ClassRef, type)) for y in x))  # noqa: E731
            if isty(l) and isty(r) and (isinstance(l, (ClassRef, tuple)) or isinstance(r, (ClassRef, tuple))):
                return (l if isinstance(l, tuple) else (l,)) + (r if isinstance(r, tuple) else (r,))  # X | Y in isinstance / annotations
        return super().binop(op, l, r, node)

    def native_call(self, f, args, kwargs, where):
        if isinstance(getattr(f, "__self__", None), NullLogger) or getattr(f, "_abstract_ok", False):
            return f(*args, **kwargs)
        if (f is str or f is repr) and len(args) == 1 and not kwargs and isinstance(args[0], ExcRec):
            return self.exc_text(args[0], repr_=f is repr)
        if any(isinstance(a, Opaque) for a in list(args) + list(kwargs.values())):
            raise AnalysisError(f"interpretation harness: attribute outside the modelled world passed to a library call at {where}")
        return super().native_call(f, args, kwargs, where)

    # ---- statements pyint does not model
    def stmt(self, st, env, mod, depth):
        if isinstance(st, ast.Delete) and any(isinstance(t, ast.Attribute) for t in st.targets):
            for t in st.targets:
                if not isinstance(t, ast.Attribute):
                    super().stmt(ast.copy_location(ast.Delete(targets=[t]), st), env, mod, depth)
                    continue
                base = self.ev(t.value, env, mod, depth)
                if not isinstance(base, Rec):
                    raise AnalysisError(f"interpretation harness: del of an attribute of a non-record: {norm(t)}")
                if t.attr not in base.__dict__:
                    raise Raised("AttributeError")
                del base.__dict__[t.attr]
                self.writes.append((base._name, "delattr", t.attr, None))
            return
        if isinstance(st, ast.Raise):
            return self.raise_(st, env, mod, depth)
        return super().stmt(st, env, mod, depth)

    # ---- exceptions as objects: instances of repository exception classes keep their state from `raise` to `except .. as e`
    def raise_(self, st, env, mod, depth):
        self.tick()
        if st.exc is None:
            cur = env.get("$handling_obj")
            if isinstance(cur, ExcRec) and env.get("$handling") == cur._cls:
                raise RaisedObj(cur)
            return super().stmt(st, env, mod, depth)
        try:
            v = self.ev(st.exc, env, mod, depth)
            if isinstance(v, ClassRef) and self._class_info(v)[5]:
                v = self.instantiate(v, [], {}, depth, _Where(st))  # `raise Cls` raises Cls()
        except AnalysisError:
            # the exception's arguments are outside the interpreted subset: only its class matters then (pyint's own reading)
            return super().stmt(st, env, mod, depth)
        if isinstance(v, ExcRec):
            raise RaisedObj(v)
        if isinstance(v, str) and v.startswith("<exc:") and v.endswith(">"):
            raise Raised(v[5:-1])
        if isinstance(v, tuple) and len(v) == 2 and v[0] == "$exc":
            raise Raised(v[1])
        return super().stmt(st, env, mod, depth)

    def exc_matches(self, r, handler: str, mod) -> bool:
        """does ``except <handler>`` catch the raised exception?  For an exception *object* the answer comes from its class hierarchy
        (wherever the class is defined); pyint's reading by name otherwise."""
        v = getattr(r, "value", None)
        if isinstance(v, ExcRec):
            names = {v._cls} | set(v._bases)
            if handler in names or handler == "BaseException":
                return True
            h = _BUILTIN_EXC.get(handler)
            return h is not None and any(n in _BUILTIN_EXC and issubclass(_BUILTIN_EXC[n], h) for n in names)
        return self.exc_isa(r.name, handler, mod)

    def try_(self, st, env, mod, depth):
        # pyint.try_ with the exception object bound by `as` (and kept for a bare `raise`)
        try:
            try:
                self.block(st.body, env, mod, depth)
            except Raised as r:
                for h in st.handlers:
                    names = ["BaseException"] if h.type is None else [last_attr(e) for e in (h.type.elts if isinstance(h.type, ast.Tuple) else [h.type])]
                    if any(self.exc_matches(r, n, mod) for n in names):
                        obj = getattr(r, "value", None)
                        if h.name:
                            env[h.name] = obj if isinstance(obj, ExcRec) else f"<exc:{r.name}>"
                        prev, prev_obj = env.get("$handling"), env.get("$handling_obj")
                        env["$handling"] = r.name
                        env["$handling_obj"] = obj
                        try:
                            self.block(h.body, env, mod, depth)
                        finally:
                            if prev is None:
                                env.pop("$handling", None)
                            else:
                                env["$handling"] = prev
                            if prev_obj is None:
                                env.pop("$handling_obj", None)
                            else:
                                env["$handling_obj"] = prev_obj
                        break
                else:
                    raise
            else:
                self.block(st.orelse, env, mod, depth)
        finally:
            if st.finalbody:
                self.block(st.finalbody, env, mod, depth)

    # ---- int / str valued enums: members are their values
    def _enum_kind(self, cref):
        """'int' | 'str' | 'plain' | None (not an enum) for a repository class"""
        qual = getattr(cref.node, "_qual", cref.node.name)
        k = ("$enumkind", cref.mod.rel, qual)
        if k not in self._dc_cache:
            ext = [last_attr(b) for _, cc in self.model.mro(cref.mod.rel, qual) for b in cc.bases]
            kind = None
            if any(b in ("Enum", "IntEnum", "Flag", "IntFlag", "StrEnum") for b in ext):
                kind = "int" if any(b in ("IntEnum", "IntFlag", "int") for b in ext) else "str" if any(b in ("StrEnum", "str") for b in ext) else "plain"
            self._dc_cache[k] = kind
        return self._dc_cache[k]

    def class_attr(self, cref, attr, depth):
        kind = self._enum_kind(cref)
        if kind not in ("int", "str"):
            return super().class_attr(cref, attr, depth)
        k = ("$enummember", cref.mod.rel, getattr(cref.node, "_qual", cref.node.name), attr)
        if k not in self._dc_cache:  # one object per member: `x is Cls.MEMBER` holds like for the real enum
            v = super().class_attr(cref, attr, depth)
            if isinstance(v, tuple) and len(v) == 4 and v[0] == "$enum":
                if kind == "int" and type(v[3]) is int:
                    v = EnumInt(v[3], cref.node.name, attr)
                elif kind == "str" and type(v[3]) is str:
                    v = EnumStr(v[3], cref.node.name, attr)
            self._dc_cache[k] = v
        return self._dc_cache[k]

    # ---- typing.NamedTuple classes: real tuples with named fields
    def _namedtuple(self, c, args, kwargs, depth):
        fields = [(st.target.id, st.value) for st in c.node.body if isinstance(st, ast.AnnAssign) and isinstance(st.target, ast.Name)]
        names = [f[0] for f in fields]
        if len(args) > len(names):
            raise Raised("TypeError", "too many positional arguments")
        vals = dict(zip(names, args))
        for k, v in kwargs.items():
            if k not in names or k in vals:
                raise Raised("TypeError", f"unexpected keyword {k}")
            vals[k] = v
        for fname, default in fields:
            if fname not in vals:
                if default is None:
                    raise Raised("TypeError", f"missing argument {fname}")
                vals[fname] = self.ev(default, {}, c.mod, depth)
        return NTVal([vals[n] for n in names], names, (c.mod.rel, getattr(c.node, "_qual", c.node.name)), c.node.name)

    def _nt_getattr(self, base: NTVal, attr, node, depth):
        if attr in base._fields:
            return base[base._fields.index(attr)]
        if attr == "_fields":
            return base._fields
        if attr in ("_replace", "_asdict"):
            def _replace(**kw):
                if set(kw) - set(base._fields):
                    raise Raised("ValueError", "unexpected field names")
                return NTVal([kw.get(n, v) for n, v in zip(base._fields, base)], base._fields, base._impl, base._cls)

            def _asdict():
                return dict(zip(base._fields, base))

            f = _replace if attr == "_replace" else _asdict
            f._abstract_ok = True
            return f
        hit = self._class_lookup(base._impl, attr)
        if hit is not None and hit[0] == "def":
            _, m, fnode, _c = hit
            decs = [norm(d) for d in fnode.decorator_list]
            if any(d in ("property", "cached_property", "functools.cached_property") for d in decs):
                return self.apply(Func(m, fnode, bound=base), [], {}, depth)
            if "staticmethod" in decs:
                return Func(m, fnode)
            if "classmethod" in decs:
                raise AnalysisError(f"interpretation harness: classmethod {base._cls}.{attr} of a NamedTuple is not modelled")
            return Func(m, fnode, bound=base)
        if hit is not None and hit[0] == "value":
            return self.ev(hit[2], {}, hit[1], depth)
        try:
            return getattr(tuple(base), attr)  # count / index
        except AttributeError:
            raise Raised("AttributeError")

    def _enum_members(self, cref, depth):
        out = []
        for st in cref.node.body:
            targets = st.targets if isinstance(st, ast.Assign) else [st.target] if isinstance(st, ast.AnnAssign) and st.value is not None else []
            for t in targets:
                if isinstance(t, ast.Name) and not t.id.startswith("_"):
                    m = self.class_attr(cref, t.id, depth)
                    if isinstance(m, (EnumInt, EnumStr)):
                        out.append(m)
        return out

    def isinstance_(self, v, classes) -> bool:
        if isinstance(v, (EnumInt, EnumStr)):
            if any(isinstance(c, ClassRef) and c.node.name == v._enum_cls for c in classes):
                return True
        if isinstance(v, NTVal):
            if any(isinstance(c, ClassRef) and c.node.name == v._cls for c in classes):
                return True
        if isinstance(v, ExcRec):
            for c in classes:
                if isinstance(c, tuple) and len(c) == 2 and c[0] == "$exc" and isinstance(c[1], str):
                    h = _BUILTIN_EXC.get(c[1])
                    if h is not None and any(n in _BUILTIN_EXC and issubclass(_BUILTIN_EXC[n], h) for n in v._bases):
                        return True
        return super().isinstance_(v, classes)

    def exc_text(self, rec: ExcRec, repr_: bool = False) -> str:
        """``str(e)`` / ``repr(e)`` of an exception object: the class's own ``__str__`` / ``__repr__`` when the repository defines one"""
        r = self.model.method(rec._impl[0], rec._impl[1], "__repr__" if repr_ else "__str__") if rec._impl else None
        if r is not None:
            out = self.apply(Func(r[0], r[1], bound=rec), [], {}, 1)
            if not isinstance(out, str):
                raise Raised("TypeError", "__str__ returned non-string")
            return out
        a = rec.__dict__.get("args", ())
        if any(isinstance(x, (Rec, Func, ClassRef, Opaque)) for x in a):
            return f"<{rec._cls}>"  # message text with abstract parts: diagnostics only
        if repr_:
            return f"{rec._cls}({', '.join(repr(x) for x in a)})"
        return rec.message_text()

    def builtin(self, name, args, kwargs, e, env, mod, depth):
        if name in ("getattr", "hasattr"):
            self._probing += 1
            try:
                return super().builtin(name, args, kwargs, e, env, mod, depth)
            finally:
                self._probing -= 1
        return super().builtin(name, args, kwargs, e, env, mod, depth)

    def name(self, ident, env, mod, depth, node):
        if ident in env:
            return env[ident]
        if "$closure" not in env:
            k = (mod.rel, ident)
            if k in self._globals:
                return self._globals[k]
            if ident == "__name__":
                return mod.rel[:-3].replace("/", ".")
            v = self._name_or_builtin(ident, env, mod, depth, node)
            if k not in self.overrides:
                self._globals[k] = v  # module-level definitions / constants / imports / builtins do not change during a run
            return v
        if ident == "__name__":
            return mod.rel[:-3].replace("/", ".")
        return self._name_or_builtin(ident, env, mod, depth, node)

    _PURE_BUILTINS = {n: getattr(_builtins, n) for n in ("memoryview", "slice", "bin", "oct", "format", "pow", "ascii", "hash")}

    def _name_or_builtin(self, ident, env, mod, depth, node):
        try:
            return super().name(ident, env, mod, depth, node)
        except AnalysisError:
            if ident in self._PURE_BUILTINS:  # pure built-ins pyint's table does not list (a name the module defines itself was found above)
                return self._PURE_BUILTINS[ident]
            raise

    # ---- attribute lookup on records bound to a repository class
    def _class_lookup(self, impl, attr):
        k = (impl, attr)
        if k not in self._attr_cache:
            hit = None
            for m, c in self.model.mro(*impl):
                for st in c.body:
                    if isinstance(st, (ast.FunctionDef, ast.AsyncFunctionDef)) and st.name == attr:
                        hit = ("def", m, st, c)
                    elif isinstance(st, ast.Assign) and any(isinstance(t, ast.Name) and t.id == attr for t in st.targets):
                        hit = ("value", m, st.value, c)
                    elif isinstance(st, ast.AnnAssign) and isinstance(st.target, ast.Name) and st.target.id == attr and st.value is not None:
                        hit = ("value", m, st.value, c)
                if hit:
                    break
            self._attr_cache[k] = hit
        return self._attr_cache[k]

    def getattr(self, base, attr, node, depth):
        if isinstance(base, NTVal):
            return self._nt_getattr(base, attr, node, depth)
        if attr == "__dict__" and isinstance(base, Rec):
            return {k: v for k, v in base.__dict__.items() if not (k.startswith("_") and not k.startswith("__"))}  # a copy: reads only
        if isinstance(base, Rec) and attr not in base.__dict__ and base._impl is not None and not (isinstance(base, DictRec) and attr in ("get", "pop", "items", "keys", "values", "setdefault", "get_all", "clear", "copy")):
            hit = self._class_lookup(base._impl, attr)
            if hit is not None and hit[0] == "value":
                _, m, vnode, c = hit
                scope = {s.name: Func(m, s) for s in c.body if isinstance(s, (ast.FunctionDef, ast.AsyncFunctionDef))}
                v = self.ev(vnode, scope, m, depth)
                if isinstance(v, Func) and v.bound is None and isinstance(v.node, ast.FunctionDef) and "staticmethod" not in [norm(d) for d in v.node.decorator_list]:
                    v = Func(v.mod, v.node, bound=base)  # a function stored in the class is a method of its instances
                return v
            if hit is not None and hit[0] == "def":
                _, m, fnode, c = hit
                decs = [norm(d) for d in fnode.decorator_list]
                if not any(d in ("property", "cached_property", "functools.cached_property") or d.endswith(".setter") for d in decs):
                    if "staticmethod" in decs:
                        return Func(m, fnode)
                    return Func(m, fnode, bound=base)
        if isinstance(base, OpenRec) and attr not in base.__dict__ and not attr.startswith("__"):
            try:
                return super().getattr(base, attr, node, depth)
            except AnalysisError:
                if self._probing:
                    raise  # getattr(obj, name, default) / hasattr(obj, name): an attribute the world does not define is absent
                return Opaque(f"{base._name}.{attr}")
        return super().getattr(base, attr, node, depth)

    # ---- dataclasses: the generated __init__ takes the fields of the dataclass-decorated classes only
    def _class_info(self, c):
        qual = getattr(c.node, "_qual", c.node.name)
        k = (c.mod.rel, qual)
        if k not in self._dc_cache:
            mro = self.model.mro(c.mod.rel, qual)
            first = None
            for m, cc in mro:
                if any(isinstance(st, ast.FunctionDef) and st.name == "__init__" for st in cc.body):
                    first = "init"
                    break
                if _is_dataclass(cc):
                    first = "dataclass"
                    break
            fields: list = []
            for m, cc in reversed(mro):
                if not _is_dataclass(cc):
                    continue
                for st in cc.body:
                    if isinstance(st, ast.AnnAssign) and isinstance(st.target, ast.Name) and "ClassVar" not in norm(st.annotation):
                        old = [i for i, f in enumerate(fields) if f[0] == st.target.id]
                        if old:
                            fields[old[0]] = (st.target.id, st.value, m)
                        else:
                            fields.append((st.target.id, st.value, m))
            names = [cc.name for _, cc in mro]
            ext = {last_attr(b) for _, cc in mro for b in cc.bases}
            init = self.model.method(c.mod.rel, qual, "__init__")
            is_exc = bool(ext & set(_BUILTIN_EXC))  # derives (through repository classes) from a built-in exception class
            self._dc_cache[k] = (qual, first, fields, tuple(names[1:]) + tuple(ext), init, is_exc)
        return self._dc_cache[k]

    def instantiate(self, c, args, kwargs, depth, where):
        if self._enum_kind(c) in ("int", "str") and len(args) == 1 and not kwargs:
            # Cls(value): the member with that value, ValueError otherwise
            for m in self._enum_members(c, depth):
                if type(args[0]) in (int, str, bool, EnumInt, EnumStr) and m == args[0]:
                    return m
            if any(last_attr(b) in ("Flag", "IntFlag") for _, cc in self.model.mro(c.mod.rel, getattr(c.node, "_qual", c.node.name)) for b in cc.bases):
                raise AnalysisError(f"interpretation harness: {c.node.name}({args[0]!r}): composite flag values are not modelled")
            raise Raised("ValueError", f"{args[0]!r} is not a valid {c.node.name}")
        if any(last_attr(b) == "NamedTuple" for b in c.node.bases):
            return self._namedtuple(c, args, kwargs, depth)
        qual, first, fields, bases, init, is_exc = self._class_info(c)
        if is_exc:
            # an exception object: `args` as BaseException.__new__ sets them; the repository's __init__ chain is interpreted,
            # `super().__init__(*a)` of the outermost repository class reaches BaseException.__init__ (args = a)
            rec = ExcRec(c.node.name, _bases=bases, _impl=(c.mod.rel, qual), args=tuple(args), __cause__=None, __context__=None, __traceback__=None)

            def base_init(*a, **k):
                if k:
                    raise Raised("TypeError", f"{c.node.name}() takes no keyword arguments")
                object.__setattr__(rec, "args", tuple(a))

            def with_traceback(tb=None):
                return rec

            base_init._abstract_ok = with_traceback._abstract_ok = True
            object.__setattr__(rec, "_super_stubs", {"__init__": base_init})
            object.__setattr__(rec, "with_traceback", with_traceback)
            if first == "init":
                self.apply(Func(init[0], init[1], bound=rec), list(args), kwargs, depth)
                return rec
            if first != "dataclass":
                if kwargs:
                    raise Raised("TypeError", f"{c.node.name}() takes no keyword arguments")
                return rec
        elif first != "dataclass":
            if init is None:
                return super().instantiate(c, args, kwargs, depth, where)
            rec = Rec(c.node.name, _bases=bases, _impl=(c.mod.rel, qual))
            self.apply(Func(init[0], init[1], bound=rec), list(args), kwargs, depth)
            return rec
        else:
            rec = Rec(c.node.name, _bases=bases, _impl=(c.mod.rel, qual))
        if len(args) > len(fields):
            raise Raised("TypeError", "too many positional arguments")
        for (fname, _, _), v in zip(fields, args):
            object.__setattr__(rec, fname, v)
        for k, v in kwargs.items():
            if k not in [f[0] for f in fields] or k in rec.__dict__:
                raise Raised("TypeError", f"unexpected keyword {k}")
            object.__setattr__(rec, k, v)
        for fname, default, m in fields:
            if fname not in rec.__dict__:
                if default is None:
                    raise Raised("TypeError", f"missing argument {fname}")
                if isinstance(default, ast.Call) and last_attr(default.func) == "field":
                    kws = {k.arg: k.value for k in default.keywords}
                    if "default" in kws:
                        object.__setattr__(rec, fname, self.ev(kws["default"], {}, m, depth))
                    elif "default_factory" in kws:
                        object.__setattr__(rec, fname, self.apply(self.ev(kws["default_factory"], {}, m, depth), [], {}, depth))
                    else:
                        raise Raised("TypeError", f"missing argument {fname}")
                    continue
                object.__setattr__(rec, fname, self.ev(default, {}, m, depth))
        return rec


# ---------------------------------------------------------------------------------------------------
# Socks5Proxy: interpreted runs, reference model (RFC 1928 / 1929), input domain

EVENTS_REL = "mitmproxy/proxy/events.py"
LAYER_REL = "mitmproxy/proxy/layer.py"
SOCKS5_TAIL = b"\x00\x01\x00\x00\x00\x00\x00\x00"


class Socks5Cfg:
    """One environment of the SOCKS5 layer: is proxyauth configured, which credentials the auth hook accepts, connection
    strategy, outcome of OpenConnection."""

    def __init__(self, proxyauth=False, accept=None, eager=True, err=None, registered=True):
        self.proxyauth = proxyauth  # the option value is truthy
        self.accept = accept  # (user, password) accepted by the hook, "*" = any, None = none
        self.eager = eager
        self.err = err
        self.registered = registered  # is the proxyauth option registered at all ("proxyauth" in options)

    def valid(self, user, password) -> bool:
        return self.accept == "*" or (self.accept is not None and (user, password) == tuple(self.accept))

    def key(self):
        return (self.proxyauth, self.accept if self.accept in (None, "*") else tuple(self.accept), self.eager, self.err, self.registered)

    def __repr__(self):
        return f"proxyauth={'on' if self.proxyauth else 'off'}{'' if self.registered else ' (option not registered)'}, hook accepts {self.accept!r}, {'eager' if self.eager else 'lazy'}, open->{self.err!r}"


NO_BUFFER = ("no buffer attribute identified",)


class Socks5Step:
    """What the layer did for one event."""

    __slots__ = ("event", "trace", "exc", "handler", "address", "buf", "addr_writes")

    def __init__(self, event):
        self.event = event
        self.trace = []  # ('send', conn, bytes) | ('close', conn) | ('open', conn, address) | ('hook', Cls, user, password) | ('child_start',) | ('child_data', conn, bytes) | ('child_event', Cls) | ('other', Cls)
        self.exc = None
        self.handler = "own"  # own | child | other (classified as done / live by a probe at the end of the run)
        self.address = None
        self.buf = None  # value of the layer's buffer attribute after the event (None: deleted)
        self.addr_writes = 0


def merge_sends(trace):
    """Consecutive sends to the same connection are one byte string on the wire; Log commands are dropped by the recorder."""
    out = []
    for e in trace:
        if e[0] in ("send", "child_data") and out and out[-1][0] == e[0] and out[-1][1] == e[1]:
            out[-1] = (e[0], e[1], out[-1][2] + e[2])
        else:
            out.append(e)
    return out


class Socks5World:
    """Interprets ``Socks5Proxy`` (bound to the repository class, all helpers resolved through the MRO) for one environment.
    ``run(segments, close=False)`` delivers Start, one DataReceived per segment and optionally ConnectionClosed through the handler
    that is installed at that moment (as ``Layer.handle_event`` does) and returns the steps plus the verdict of a final probe."""

    def __init__(self, model, cls: str = "Socks5Proxy"):
        self.model = model if isinstance(model, CachedModel) else CachedModel(model)
        self.cls = cls
        self.cfg = None
        self.it = LayerInterp(self.model, respond=self._respond)
        self.it.overrides[(LAYER_REL, "NextLayer")] = self._next_layer
        self._next_layer.__func__._abstract_ok = True
        self._child_handle.__func__._abstract_ok = True
        self.evmod = self.model.module(EVENTS_REL)
        r = self.model.method(MODES, cls, "_handle_event")
        if r is None:
            raise AnalysisError(f"anchor vanished: {MODES}::{cls}._handle_event")
        self.own_node = r[1]
        self.runs = 0
        bufs = []
        for m, c in self.model.mro(MODES, cls):
            for st in c.body:
                if isinstance(st, (ast.Assign, ast.AnnAssign)) and getattr(st, "value", None) is not None and isinstance(st.value, ast.Constant) and isinstance(st.value.value, bytes):
                    t = st.targets[0] if isinstance(st, ast.Assign) else st.target
                    if isinstance(t, ast.Name):
                        bufs.append((t.id, st.value.value))
        if len(bufs) > 1:
            bufs = [b for b in bufs if b[1] == b""]
        self.buf_attr = bufs[0][0] if len(bufs) == 1 else None  # the (single) empty bytes-valued class attribute: unparsed handshake bytes
        self.buf_init = bufs[0][1] if len(bufs) == 1 else None

    # ---- environment
    def _respond(self, cmd):
        if isinstance(cmd, Rec):
            if cmd._cls.endswith("Hook"):
                for v in list(cmd.__dict__.values()):
                    if isinstance(v, Rec) and "valid" in v.__dict__ and "username" in v.__dict__:
                        self._hooked.append(v)
                        if self.cfg.valid(v.__dict__.get("username"), v.__dict__.get("password")):
                            object.__setattr__(v, "valid", True)  # what ProxyAuth.socks5_auth does for accepted credentials (C20 R20.3)
            if cmd._cls == "OpenConnection":
                return self.cfg.err
        return None

    def _next_layer(self, context, *a, **k):
        self._children += 1
        return Rec("NextLayer", _bases=("Layer",), _name="child", handle_event=self._child_handle, context=context)

    def _child_handle(self, event):
        self.it.log.append(("child", event))
        return ()

    def _mk_event(self, cls, *args):
        return self.it.instantiate(ClassRef(self.evmod, self.model.cls(EVENTS_REL, cls)), list(args), {}, 0, cls)

    # ---- recording
    def _conn(self, v):
        return v._name if isinstance(v, Rec) else repr(v)

    def _abstract(self, entries):
        out = []
        for kind, x in entries:
            if kind == "child":
                if isinstance(x, Rec) and x._cls == "Start":
                    out.append(("child_start",))
                elif isinstance(x, Rec) and x._cls == "DataReceived":
                    out.append(("child_data", self._conn(x.__dict__.get("connection")), x.__dict__.get("data")))
                else:
                    out.append(("child_event", getattr(x, "_cls", type(x).__name__)))
                continue
            if not isinstance(x, Rec):
                out.append(("other", repr(x)[:40]))
                continue
            d = x.__dict__
            if x.isa("SendData"):
                out.append(("send", self._conn(d.get("connection")), d.get("data")))
            elif x.isa("CloseConnection"):
                out.append(("close", self._conn(d.get("connection"))))
            elif x.isa("OpenConnection"):
                out.append(("open", self._conn(d.get("connection")), self.server.__dict__.get("address")))
            elif x.isa("Log"):
                continue
            elif x._cls.endswith("Hook"):
                data = next((v for v in d.values() if isinstance(v, Rec) and "username" in v.__dict__), None)
                out.append(("hook", x._cls, data.__dict__.get("username") if data else None, data.__dict__.get("password") if data else None))
            else:
                out.append(("other", x._cls))
        return out

    def _handler(self):
        h = self.layer.__dict__.get("_handle_event")
        if h is None or (isinstance(h, Func) and h.node is self.own_node and h.bound is self.layer):
            return "own", h
        if h == self._child_handle:
            return "child", h
        return "other", h

    def _deliver(self, kind, *args):
        step = Socks5Step(kind)
        ev = self._mk_event(kind, *args)
        self.it.log = []
        w0 = len(self.it.writes)
        try:
            h = self.it.getattr(self.layer, "_handle_event", None, 0)
            r = self.it.apply(h, [ev], {}, 0)
            if r is not None and not isinstance(r, (GenDone, tuple, list)):
                raise AnalysisError(f"SOCKS5 harness: the event handler returned {type(r).__name__}, not a command generator")
        except Raised as e:
            step.exc = e.name
        step.trace = self._abstract(self.it.log)
        step.handler = self._handler()[0]
        step.address = self.server.__dict__.get("address")
        attr = self.buf_attr or self._run_buf_attr
        step.buf = self.layer.__dict__.get(attr, self.buf_init) if attr else NO_BUFFER
        if attr and attr not in self.layer.__dict__ and any(w[0] == "layer" and w[1] == "delattr" and w[2] == attr for w in self.it.writes):
            step.buf = None
        step.addr_writes = sum(1 for w in self.it.writes[w0:] if w[0] == "server" and w[1] == "attr" and w[2] == "address")
        return step

    def run(self, segments, cfg: Socks5Cfg, close: bool = False, probe: bytes = b"\x05\x01\x00\x05\x01\x00\x01\x7f\x00\x00\x01\x00\x50", expect_done: bool = False):
        """-> (steps, final) with final = 'own' | 'child' | 'done' (the layer ignores data and close from now on) | 'live' (a replaced handler
        that still reacts).  ``expect_done``: the reference says the handshake has ended - then a layer that kept its own handler is probed too
        (ending by a flag instead of swapping the handler is the same behaviour)."""
        self.cfg = cfg
        self.runs += 1
        self.it.steps = 0
        self.it.writes = []
        self._hooked = []
        self._children = 0
        self.client = OpenRec("Client", _bases=("Connection",), _name="client")
        self.server = OpenRec("Server", _bases=("Connection",), _name="server", address=None, transport_protocol="tcp")
        opts = {"connection_strategy": "eager" if cfg.eager else "lazy"}
        if cfg.registered:
            opts["proxyauth"] = ("user:pass" if cfg.proxyauth else None)
        options = OpenDictRec("Options", dict(opts), _name="options", **opts)
        self.context = OpenRec("Context", _name="context", client=self.client, server=self.server, options=options, layers=[])
        # the layer object is built by interpreting the constructor chain (Layer.__init__ and whatever the subclasses add)
        self.layer = self.it.instantiate(ClassRef(self.model.module(MODES), self.model.cls(MODES, self.cls)), [self.context], {}, 0, self.cls)
        if not isinstance(self.layer, Rec) or self.layer.__dict__.get("context") is not self.context:
            raise AnalysisError(f"SOCKS5 harness: constructing {self.cls}(context) does not give a layer bound to the context")
        object.__setattr__(self.layer, "_name", "layer")
        self.it.writes = []
        self._run_buf_attr = None
        if self.buf_attr is None:
            # no class-level default: the (single) empty bytes / bytearray attribute the constructor created is the handshake buffer
            made = [k for k, v in self.layer.__dict__.items() if isinstance(v, (bytes, bytearray)) and len(v) == 0]
            if len(made) == 1:
                self._run_buf_attr = made[0]
        steps = [self._deliver("Start")]
        for seg in segments:
            if steps[-1].exc is not None:
                break
            steps.append(self._deliver("DataReceived", self.client, seg))
        if close and steps[-1].exc is None:
            steps.append(self._deliver("ConnectionClosed", self.client))
        final = steps[-1].handler
        if (final == "other" or (final == "own" and expect_done and not close)) and steps[-1].exc is None:
            # semantic meaning of "the layer has ended": whatever arrives now has no effect
            p1 = self._deliver("DataReceived", self.client, probe)
            p2 = self._deliver("ConnectionClosed", self.client) if p1.exc is None else p1
            silent = all(p.exc is None and not p.trace and not p.addr_writes for p in (p1, p2)) and p2.handler == final
            final = "done" if silent else ("live" if final == "other" else "own")
        return steps, final


def socks5_reference(stream: bytes, cfg: Socks5Cfg):
    """What RFC 1928 / 1929 (and the property) demand after ``stream`` has been received, in whatever segmentation:
    -> dict(wire=[...], child=[...], state='own'|'done'|'child', address, rest (unparsed bytes while 'own'), phase)."""
    wire, child = [], []
    pos = 0
    res = {"wire": wire, "child": child, "address": None, "rest": None, "phase": "greeting"}

    def have(k):
        return len(stream) - pos >= k

    def wait():
        res.update(state="own", rest=stream[pos:])
        return res

    def reject(code=None, alt=None):
        if code is not None:
            wire.append(("send", "client", alt if alt else bytes([5, code]) + SOCKS5_TAIL))
        wire.append(("close", "client"))
        res.update(state="done")
        return res

    if not have(2):
        return wait()
    if stream[0] != 5:
        return reject()
    n = stream[1]
    if not have(2 + n):
        return wait()
    use_auth = bool(cfg.proxyauth and cfg.registered)
    method = 2 if use_auth else 0
    if method not in stream[2 : 2 + n]:
        # RFC 1928: X'05' X'FF'; today's code pads the reply like a request reply - either way it starts with 05 FF
        return reject(0xFF, alt=(b"\x05\xff", b"\x05\xff" + SOCKS5_TAIL))
    wire.append(("send", "client", bytes([5, method])))
    pos += 2 + n
    if use_auth:
        res["phase"] = "auth"
        if not have(3):
            return wait()
        ulen = stream[pos + 1]
        if not have(3 + ulen):
            return wait()
        plen = stream[pos + 2 + ulen]
        if not have(3 + ulen + plen):
            return wait()
        user = stream[pos + 2 : pos + 2 + ulen].decode("utf-8", "backslashreplace")
        password = stream[pos + 3 + ulen : pos + 3 + ulen + plen].decode("utf-8", "backslashreplace")
        wire.append(("hook", "Socks5AuthHook", user, password))
        if not cfg.valid(user, password):
            wire.append(("send", "client", b"\x01\x01"))
            return reject()
        wire.append(("send", "client", b"\x01\x00"))
        pos += 3 + ulen + plen
    res["phase"] = "request"
    if not have(5):
        return wait()
    if stream[pos : pos + 3] != b"\x05\x01\x00":
        return reject(0x07)
    atyp = stream[pos + 3]
    if atyp == 1:
        ln = 10
    elif atyp == 4:
        ln = 22
    elif atyp == 3:
        ln = 7 + stream[pos + 4]
    else:
        return reject(0x08)
    if not have(ln):
        return wait()
    msg = stream[pos : pos + ln]
    pos += ln
    if atyp == 1:
        host = _socket.inet_ntop(_socket.AF_INET, msg[4:8])
    elif atyp == 4:
        host = _socket.inet_ntop(_socket.AF_INET6, msg[4:20])
    else:
        host = msg[5:-2].decode("ascii", "replace")
    port = (msg[-2] << 8) | msg[-1]
    res["address"] = (host, port)
    res["phase"] = "relay"
    if cfg.eager:
        wire.append(("open", "server", (host, port)))
        if cfg.err:
            wire.append(("send", "client", b"\x05\x04" + SOCKS5_TAIL))
            wire.append(("close", "client"))
            res.update(state="done")
            return res
    wire.append(("send", "client", b"\x05\x00" + SOCKS5_TAIL))
    child.append(("child_start",))
    if stream[pos:]:
        child.append(("child_data", "client", stream[pos:]))
    res.update(state="child")
    return res


def socks5_boundaries(stream: bytes, cfg: Socks5Cfg):
    """Offsets at which a complete message ends (greeting, authentication, request) according to the reference."""
    out = []
    for i in range(1, len(stream) + 1):
        a, b = socks5_reference(stream[: i - 1], cfg), socks5_reference(stream[:i], cfg)
        if (a["phase"], a["state"]) != (b["phase"], b["state"]):
            out.append(i)
    return out


def socks5_request(atyp: int, addr: bytes, port: int, cmd: int = 1, ver: int = 5, rsv: int = 0) -> bytes:
    return bytes([ver, cmd, rsv, atyp]) + addr + bytes([port >> 8, port & 0xFF])


def socks5_auth_msg(user: bytes, password: bytes, ver: int = 1) -> bytes:
    return bytes([ver, len(user)]) + user + bytes([len(password)]) + password


def socks5_domain(thorough: bool = False):
    """[(name, stream, Socks5Cfg)]: valid and malformed handshakes, every address type, boundary lengths, pipelined payload."""
    V4 = socks5_request(1, bytes([192, 0, 2, 7]), 8080)
    V6 = socks5_request(4, bytes(range(0x20, 0x30)), 443)
    DOM = socks5_request(3, bytes([11]) + b"example.com", 443)
    DOM0 = socks5_request(3, bytes([0]), 80)
    DOM1 = socks5_request(3, bytes([1]) + b"x", 0x0102)
    DOMX = socks5_request(3, bytes([4]) + b"h\xff\x80t", 65535)  # non-ASCII host bytes, highest port
    TAIL = b"\x16\x03\x01\x00\x05hello"
    NOAUTH = Socks5Cfg(False)
    LAZY = Socks5Cfg(False, eager=False)
    FAIL = Socks5Cfg(False, err="connection refused")
    AUTH = Socks5Cfg(True, accept=("user", "p:w"))
    AUTH_LAZY = Socks5Cfg(True, accept=("user", "p:w"), eager=False)
    AUTH_FAIL = Socks5Cfg(True, accept=("user", "p:w"), err="timed out")
    ANY = Socks5Cfg(True, accept="*")
    G0 = b"\x05\x01\x00"
    G2 = b"\x05\x01\x02"
    OK = socks5_auth_msg(b"user", b"p:w")
    cases = [
        ("ipv4 + payload", G0 + V4 + TAIL, NOAUTH),
        ("ipv4, lazy", G0 + V4, LAZY),
        ("ipv6 + payload, lazy", G0 + V6 + TAIL, LAZY),
        ("domain + payload", b"\x05\x02\x02\x00" + DOM + TAIL, NOAUTH),
        ("empty domain", G0 + DOM0 + b"x", NOAUTH),
        ("1-byte domain", b"\x05\x03\x01\x02\x00" + DOM1, LAZY),
        ("non-ascii domain", G0 + DOMX + b"\x00", NOAUTH),
        ("connect fails", G0 + DOM + TAIL, FAIL),
        ("200-byte domain", G0 + socks5_request(3, bytes([200]) + b"sub." * 50, 0x8001) + b"t", LAZY),
        ("130 methods", b"\x05\x82" + bytes(range(130, 0, -1)) + V4 + b"m", NOAUTH),
        ("no methods", b"\x05\x00" + V4, NOAUTH),
        ("method 0 not offered", b"\x05\x02\x01\x02" + V4, NOAUTH),
        ("version 4", b"\x04\x01\x00\x50\x7f\x00\x00\x01\x00", NOAUTH),
        ("http request", b"GET / HTTP/1.1\r\n\r\n", NOAUTH),
        ("lowercase garbage", b"ge", NOAUTH),
        ("bind command", G0 + socks5_request(1, bytes(4), 80, cmd=2) + b"x", NOAUTH),
        ("udp associate", G0 + socks5_request(3, b"\x01a", 80, cmd=3), NOAUTH),
        ("request version 4", G0 + socks5_request(1, bytes(4), 80, ver=4), NOAUTH),
        ("reserved byte set", G0 + socks5_request(1, bytes(4), 80, rsv=1), NOAUTH),
        ("address type 2", G0 + socks5_request(2, bytes(4), 80) + b"rest", NOAUTH),
        ("address type 0", G0 + socks5_request(0, bytes(6), 80), NOAUTH),
        ("address type 255", G0 + socks5_request(255, bytes(3), 80), LAZY),
        ("auth ok, domain + payload", G2 + OK + DOM + TAIL, AUTH),
        ("auth ok, ipv4, lazy", b"\x05\x02\x00\x02" + OK + V4 + b"q", AUTH_LAZY),
        ("auth ok, connect fails", G2 + OK + V6, AUTH_FAIL),
        ("auth wrong password", G2 + socks5_auth_msg(b"user", b"nope") + V4 + TAIL, AUTH),
        ("auth empty credentials refused", G2 + socks5_auth_msg(b"", b"") + V4, AUTH),
        ("auth empty credentials accepted", G2 + socks5_auth_msg(b"", b"") + DOM + b"x", ANY),
        ("auth empty user", G2 + socks5_auth_msg(b"", b"secret") + V4, ANY),
        ("auth empty password", G2 + socks5_auth_msg(b"me", b"") + V4 + b"\x00\x01", ANY),
        ("auth non-utf8", G2 + socks5_auth_msg(b"us\xff", b"\xc3") + V4, ANY),
        ("auth 129-byte user, 128-byte password", G2 + socks5_auth_msg(b"u" * 129, b"\xf0" * 128) + V4 + b"!", ANY),
        ("auth only method 0 offered", G0 + V4 + TAIL, AUTH),
        ("auth skipped by client", G2 + V4 + TAIL, AUTH),
        ("auth, bad request", G2 + OK + socks5_request(1, bytes(4), 80, cmd=2), AUTH),
        ("auth sub-negotiation version 5", G2 + socks5_auth_msg(b"user", b"p:w", ver=5) + V4, AUTH),
    ]
    if thorough:
        long_user, long_pw = bytes(range(1, 256)), b"P" * 255
        cases += [
            ("255-byte domain", G0 + socks5_request(3, bytes([255]) + b"d" * 255, 1) + b"t", LAZY),
            ("255 methods", b"\x05\xff" + bytes(range(255, 0, -1)) + V4, AUTH),
            ("255-byte credentials", G2 + socks5_auth_msg(long_user, long_pw) + V4 + b"!", ANY),
            ("ipv6 + payload, eager", G0 + V6 + TAIL, NOAUTH),
            ("auth ok, ipv6 + payload", G2 + OK + V6 + TAIL, AUTH),
        ]
    return cases


def socks5_segmentations(stream: bytes, cfg: Socks5Cfg, thorough: bool = False, budget: int = 40):
    """Cut-point tuples: whole, every single cut, byte by byte, the message boundaries, cuts around the boundaries, and pairs
    (all pairs in the thorough tier for short streams, a deterministic sample otherwise)."""
    n = len(stream)
    segs = [()]
    singles = [(i,) for i in range(1, n)]
    if n > 64 and not thorough:
        b = socks5_boundaries(stream, cfg)
        near = sorted({j for i in b for j in (i - 2, i - 1, i, i + 1) if 0 < j < n} | set(range(1, min(n, 12))) | {n - 1, n - 2})
        singles = [(i,) for i in near if 0 < i < n]
    segs += singles
    if n > 1:
        segs.append(tuple(range(1, n)))
    bounds = [i for i in socks5_boundaries(stream, cfg) if 0 < i < n]
    if bounds:
        segs.append(tuple(bounds))
    pairs = [(i, j) for i in range(1, n) for j in range(i + 1, n)]
    if thorough and n <= 32:
        segs += pairs
    elif pairs:
        step = max(1, len(pairs) // budget)
        segs += pairs[::step][:budget]
        for bnd in bounds:
            for d in (1, 2):
                if bnd + d < n:
                    segs.append((bnd, bnd + d))
                if bnd - d > 0:
                    segs.append((bnd - d, bnd))
    seen, out = set(), []
    for c in segs:
        if c not in seen:
            seen.add(c)
            out.append(c)
    return out


def cut(stream: bytes, cuts) -> list:
    pts = [0] + list(cuts) + [len(stream)]
    return [stream[a:b] for a, b in zip(pts, pts[1:])]


def _merge_expected(trace):
    out = []
    for e in trace:
        if e[0] == "send" and out and out[-1][0] == "send" and out[-1][1] == e[1] and isinstance(e[2], bytes) and isinstance(out[-1][2], bytes):
            out[-1] = ("send", e[1], out[-1][2] + e[2])
        else:
            out.append(e)
    return out


def _payload_ok(got, want) -> bool:
    return got in want if isinstance(want, tuple) and want and isinstance(want[0], bytes) else got == want


def _same(got, want) -> bool:
    if len(got) != len(want):
        return False
    for g, w in zip(got, want):
        if g[0] != w[0] or len(g) != len(w):
            return False
        if g[0] == "send":
            if g[1] != w[1] or not _payload_ok(g[2], w[2]):
                return False
        elif g != w:
            return False
    return True


def _show(trace) -> str:
    def one(e):
        if e[0] in ("send", "child_data"):
            alts = e[2] if isinstance(e[2], tuple) else (e[2],)
            return f"{e[0]}({e[1]}, {' | '.join(a.hex(' ') if isinstance(a, bytes) else repr(a) for a in alts)})"
        return f"{e[0]}({', '.join(repr(x) for x in e[1:])})"

    return "[" + ", ".join(one(e) for e in trace) + "]"


WIRE_KINDS = ("send", "close", "open", "hook", "other")
CHILD_KINDS = ("child_start", "child_data", "child_event")


def socks5_judge(steps, final, stream: bytes, cuts, cfg: Socks5Cfg, closed: bool = False):
    """Compare an interpreted run with the reference after every event.  -> [(kind, at, message)] with kind in
    'exception' | 'start' | 'wire' | 'child' | 'state' | 'address' | 'buffer' | 'order' | 'close' and at = number of bytes
    delivered when the difference showed (None: whole run)."""
    out = []
    seen: set = set()
    segs = cut(stream, cuts)
    trace = []
    got_bytes = 0
    writes = 0
    for k, st in enumerate(steps):
        if st.event == "Start":
            if st.trace or st.exc or st.addr_writes or st.handler != "own":
                out.append(("start", 0, f"Start has an effect before any byte arrived: {_show(st.trace)} {st.exc or ''}".strip()))
            continue
        if st.event == "ConnectionClosed":
            before = socks5_reference(stream, cfg)
            if st.exc:
                out.append(("exception", len(stream), f"{st.exc} escapes the layer on ConnectionClosed"))
            elif before["state"] == "own" and [e for e in st.trace if e[0] != "other"] != [("close", "client")]:
                out.append(("close", len(stream), f"ConnectionClosed during the handshake is answered with {_show(st.trace)}, expected close(client)"))
            continue
        got_bytes += len(segs[k - 1])
        want = socks5_reference(stream[:got_bytes], cfg)
        trace += st.trace
        writes += st.addr_writes
        wire = merge_sends([e for e in trace if e[0] in WIRE_KINDS])
        child = merge_sends([e for e in trace if e[0] in CHILD_KINDS])
        want["wire"] = _merge_expected(want["wire"])

        def diff(kind, msg):
            if kind not in seen:
                seen.add(kind)
                out.append((kind, got_bytes, msg))

        if st.exc:
            diff("exception", f"{st.exc} escapes the layer")
        if not _same(wire, want["wire"]) and not (st.exc and _same(wire, want["wire"][: len(wire)]) and want["state"] == "own"):
            diff("wire", f"commands {_show(wire)}, expected {_show(want['wire'])}")
        if not _same(child, want["child"]):
            diff("child", f"the next layer received {_show(child)}, expected {_show(want['child'])}")
        if st.exc:
            break
        state = st.handler if st.handler != "other" else "done"
        if state == "own" and want["state"] == "done" and final == "done":
            state = "done"  # ended without swapping the handler: the probe at the end of the run showed that nothing has an effect any more
        if state != want["state"]:
            names = {"own": "still parsing", "done": "ended", "child": "relaying to the next layer"}
            diff("state", f"the layer is {names.get(state, state)}, expected: {names[want['state']]}")
        if st.address != want["address"]:
            diff("address", f"context.server.address is {st.address!r}, expected {want['address']!r}")
        if want["state"] == "own" and state == "own" and st.buf is not NO_BUFFER and st.buf != want["rest"]:
            diff("buffer", f"unparsed buffer is {st.buf!r}, expected {want['rest']!r}")
    if writes > 1:
        out.append(("order", None, f"context.server.address is written {writes} times"))
    kinds = [e[0] for e in trace]
    if kinds.count("child_start") > 1:
        out.append(("order", None, "the next layer is started more than once"))
    if "child_data" in kinds and ("child_start" not in kinds or kinds.index("child_data") < kinds.index("child_start")):
        out.append(("order", None, "data is handed to the next layer before its Start event"))
    if "child_start" in kinds and "open" in kinds and kinds.index("child_start") < kinds.index("open"):
        out.append(("order", None, "the next layer is started before the server connection was opened (eager strategy)"))
    if final == "live":
        out.append(("state", None, "after the handshake ended the installed handler still reacts to data / close (the layer has not ended)"))
    # what an ended handshake looks like, whatever the reference says
    wire_all = [e for e in trace if e[0] in WIRE_KINDS]
    closes = [i for i, e in enumerate(trace) if e == ("close", "client")]
    if closes and any(e[0] in WIRE_KINDS + CHILD_KINDS for e in trace[closes[0] + 1 :]):
        out.append(("order", None, f"the layer goes on after it closed the client connection: {_show(trace[closes[0] + 1 :][:3])}"))
    if final in ("done", "live") and not any(s.exc for s in steps) and not any(s.event == "ConnectionClosed" for s in steps):
        if wire_all[-1:] != [("close", "client")]:
            out.append(("order", None, "the handshake ended without closing the client connection"))
        if any(e[0] in CHILD_KINDS for e in trace):
            out.append(("order", None, "the next layer was started although the handshake ended with an error"))
    if final == "child" and closes:
        out.append(("order", None, "the layer relays to the next layer although it closed the client connection"))
    return out


def hook_method_sem(ctx, rel: str, cls_name: str) -> str:
    """Like ``hook_method``, but the derived name is obtained by *interpreting* ``Hook.__init_subclass__`` for a class of that name
    (whatever way the derivation is written); the textual re-statement is only the fallback when that code leaves the interpreted subset."""
    c = ctx.model.cls(rel, cls_name)
    for st in c.body:
        tgt = val = None
        if isinstance(st, ast.Assign) and len(st.targets) == 1:
            tgt, val = st.targets[0], st.value
        elif isinstance(st, ast.AnnAssign) and st.value is not None:
            tgt, val = st.target, st.value
        if isinstance(tgt, ast.Name) and tgt.id == "name":
            if isinstance(val, ast.Constant) and isinstance(val.value, str):
                return val.value
            raise AnalysisError(f"{rel}::{cls_name}.name is not a string literal")
    try:
        fn = ctx.model.func(HOOKS, "Hook.__init_subclass__")
        it = LayerInterp(ctx.model)
        it.overrides[(HOOKS, "object")] = object
        cls = Rec("type", _name="cls")
        object.__setattr__(cls, "__name__", cls_name)
        it.apply(Func(ctx.model.module(HOOKS), fn), [cls], {}, 0)
        name = cls.__dict__.get("name")
        if isinstance(name, str) and name:
            ctx.trust("hook method name = the name Hook.__init_subclass__ assigns (hooks.py, interpreted on every run)")
            return name
    except (AnalysisError, Raised):
        pass
    return hook_method(ctx, rel, cls_name)


# ---------------------------------------------------------------------------------------------------
# ---- hard-C22 / hard-C24 (additions only below this marker) ----------------------------------------
# Module-level initialisation: pyint.modconst() takes the value of the LAST plain `NAME = expr` and ignores every later top-level
# statement that completes the object (`TABLE = {}` ... `TABLE["k"] = f`, `TABLE.update(..)`, `LIST += [..]`, `for k in ..: TABLE[k] = ..`,
# `if cond: NAME = a else: NAME = b`, `A, B = ..`).  ModuleInitMixin executes exactly those statements, in program order, like the import
# of the module does.

_MUTATING_METHODS = frozenset(
    "append extend insert remove pop popitem clear update setdefault add discard sort reverse appendleft extendleft popleft "
    "__setitem__ __delitem__ move_to_end difference_update intersection_update symmetric_difference_update subtract".split()
)
_SCOPES = (ast.FunctionDef, ast.AsyncFunctionDef, ast.Lambda, ast.ClassDef)
from ..pyint import _Break  # noqa: E402
from ..pyint import _Continue  # noqa: E402
import builtins as _builtins  # noqa: E402


def _root_name(node):
    while isinstance(node, (ast.Attribute, ast.Subscript, ast.Starred)):
        node = node.value
    return node.id if isinstance(node, ast.Name) else None


def _walk_same_scope(node):
    """nodes of ``node`` that are evaluated in its own scope, when it runs (bodies of nested functions / classes and the targets of
    comprehensions are other scopes)"""
    todo = [node]
    while todo:
        n = todo.pop()
        yield n
        for ch in ast.iter_child_nodes(n):
            if isinstance(ch, _SCOPES):
                continue
            if isinstance(ch, ast.comprehension):
                todo.extend([ch.iter, *ch.ifs])
                continue
            todo.append(ch)


def stmt_touches(st, name: str):
    """None | 'bind' | 'mutate': what the top-level statement ``st`` does to the module-level name"""
    kind = None
    for n in _walk_same_scope(st):
        if isinstance(n, ast.Name) and n.id == name and isinstance(n.ctx, (ast.Store, ast.Del)):
            return "bind"
        if isinstance(n, (ast.Attribute, ast.Subscript)) and isinstance(n.ctx, (ast.Store, ast.Del)) and _root_name(n) == name:
            kind = "mutate"
        elif isinstance(n, ast.Call) and isinstance(n.func, ast.Attribute) and _root_name(n.func) == name and n.func.attr in _MUTATING_METHODS:
            kind = "mutate"
        elif isinstance(n, ast.Expr) and isinstance(n.value, ast.Call) and isinstance(n.value.func, ast.Attribute) and _root_name(n.value.func) == name:
            kind = "mutate"  # a method call whose value is discarded is made for its effect
        elif isinstance(n, (ast.alias,)) and (n.asname or n.name.split(".")[0]) == name:
            return None  # (an import inside if/try: resolved through mod.imports, not here)
    return kind


def module_init_statements(mod, name: str):
    """The top-level statements that build the module-level object ``name``, in program order - or None when plain `NAME = expr`
    statements are all there is (pyint's own rule, last assignment wins, is exact then)."""
    cache = mod.__dict__.setdefault("_init_stmts_cache", {})
    if name not in cache:
        out, plain = [], True
        for st in mod.tree.body:
            if isinstance(st, (ast.FunctionDef, ast.AsyncFunctionDef, ast.ClassDef, ast.Import, ast.ImportFrom)):
                continue
            kind = stmt_touches(st, name)
            if kind is None:
                continue
            out.append(st)
            simple = (isinstance(st, ast.Assign) and all(isinstance(t, ast.Name) for t in st.targets)) or (isinstance(st, ast.AnnAssign) and isinstance(st.target, ast.Name))
            if not (kind == "bind" and simple):
                plain = False
        cache[name] = None if plain or not out else out
    return cache[name]


class ModuleInitMixin:
    """Interp mixin: a module-level name whose object is completed by later top-level statements gets the value the import leaves behind."""

    def modconst(self, mod, name, depth):
        key = (mod.rel, name)
        if key in self._modconst:
            return self._modconst[key]
        stmts = module_init_statements(mod, name)
        if stmts is None:
            return super().modconst(mod, name, depth)
        busy = self.__dict__.setdefault("_modinit_busy", set())
        if key in busy:
            raise AnalysisError(f"pyint: module-level initialisation of {mod.rel}::{name} depends on itself through another module-level name (not modelled)")
        busy.add(key)
        try:
            env: dict = {}
            try:
                for st in stmts:
                    self.stmt(st, env, mod, depth)
            except Raised as r:
                raise AnalysisError(f"pyint: module-level initialisation of {mod.rel}::{name} raises {r.name} (not modelled)")
            except (_Return, _Break, _Continue):
                raise AnalysisError(f"pyint: module-level initialisation of {mod.rel}::{name}: control flow not modelled")
        finally:
            busy.discard(key)
        if name not in env:
            raise AnalysisError(f"pyint: module-level initialisation of {mod.rel}::{name} leaves the name unbound on the evaluated path")
        self._modconst[key] = env[name]
        return env[name]

    def name(self, ident, env, mod, depth, node):
        try:
            return super().name(ident, env, mod, depth, node)
        except AnalysisError as e:
            # bound only inside a top-level compound statement (`if cond: NAME = a` / `try: NAME = ..` / `for ..`): Module.assigns() does not see it
            if "unbound name" not in str(e) or ident in env or module_init_statements(mod, ident) is None:
                raise
            return self.modconst(mod, ident, depth)


class NativeExcMixin:
    """Interp mixin: an exception raised by a trusted library keeps its class hierarchy.  pyint turns it into ``Raised(<class name>)`` and
    ``exc_isa`` only knows builtins and repository classes, so ``except ValueError`` did not catch ``ipaddress.AddressValueError`` /
    ``binascii.Error`` / ``json.JSONDecodeError`` / ``struct.error`` (all ValueError / Exception subclasses in Python)."""

    def _exc_registry(self):
        reg = self.__dict__.get("_native_excs")
        if reg is None:
            import types

            reg = self.__dict__["_native_excs"] = {}
            amb = set()
            for m in list(self.trusted.values()):
                if not isinstance(m, types.ModuleType):
                    continue
                for v in vars(m).values():
                    if isinstance(v, type) and issubclass(v, BaseException) and getattr(_builtins, v.__name__, None) is not v:
                        if reg.get(v.__name__, v) is not v:
                            amb.add(v.__name__)
                        reg[v.__name__] = v
            for n in amb:
                reg.pop(n)  # the same spelling in two libraries: only an exception actually raised (below) tells which one is meant
        return reg

    def native_call(self, f, args, kwargs, where):
        try:
            return super().native_call(f, args, kwargs, where)
        except Raised as r:
            e = r.__context__
            if isinstance(e, Exception) and not isinstance(e, (Raised, AnalysisError)) and type(e).__name__ == r.name:
                self._exc_registry()[r.name] = type(e)
            raise

    def exc_isa(self, name, handler, mod):
        if super().exc_isa(name, handler, mod):
            return True
        if isinstance(getattr(_builtins, name, None), type):
            return False
        c1 = self._exc_registry().get(name)
        if c1 is None or self._repo_ancestors(name, mod) != {name}:
            return False  # a repository class of that name: pyint's own rule is the answer
        c2 = getattr(_builtins, handler, None)
        if not isinstance(c2, type):
            c2 = self._exc_registry().get(handler) if self._repo_ancestors(handler, mod) == {handler} else None
        return isinstance(c2, type) and issubclass(c1, c2)


class InitLayerInterp(NativeExcMixin, ModuleInitMixin, LayerInterp):
    """LayerInterp + module-level initialisation statements + class hierarchy of library exceptions."""
