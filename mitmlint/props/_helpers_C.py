"""Shared helpers for the batch-C property modules (C20..C24): proxy modes, authentication, access control.

* ``StrictSpec``   a path-engine Spec for *decision tables*: the rule binds a finite abstract input domain
                   (``atom`` hook), every branch condition must then be decided (an undecidable condition is an
                   unmodelled construct -> AnalysisError, never a guess), writes are reported through
                   ``write_event`` and bare call statements must be whitelisted (``call_ok``).
* ``hook_name``    the addon method name mitmproxy derives from a hook class name (mitmproxy/hooks.py).
* ``default_addon_order``  class names instantiated by addons/__init__.py::default_addons, in order.
* ``mode_classes`` names of the ProxyMode subclasses declared in proxy/mode_specs.py.
"""

from __future__ import annotations

import ast
import re

from ..core import AnalysisError
from ..core import norm
from ..model import attr_chain
from ..model import last_attr
from ..model import walk_in_order
from ..paths import C
from ..paths import Engine
from ..paths import is_const
from ..paths import Spec
from ..paths import State
from ..paths import UNKNOWN

ADDONS_INIT = "mitmproxy/addons/__init__.py"
MODE_SPECS = "mitmproxy/proxy/mode_specs.py"
HOOKS = "mitmproxy/hooks.py"


def OBJ(*what):
    """An abstract non-None object (always truthy unless the rule says otherwise)."""
    return ("obj",) + tuple(what)


def is_obj(v, head=None):
    return isinstance(v, tuple) and len(v) >= 1 and v[0] == "obj" and (head is None or (len(v) > 1 and v[1] == head))


class StrictSpec(Spec):
    """Abstract evaluation where *every* condition has to be decided from the bound abstract inputs.

    Hooks for the rule:
      atom(expr, st, depth)            -> abstract value or None (not an input of the table)
      write_event(target, value, stmt, st, depth) -> event tuple | None  for assignments to attribute / subscript targets
      call_ok(call)                    -> bool: may this bare call statement be ignored (pure logging)?
    ``problems`` collects defects noticed while evaluating values (e.g. an attribute read that would raise).
    """

    log_roots = ("logging", "logger", "log")
    allowed_stmts = (ast.If, ast.Return, ast.Assign, ast.AnnAssign, ast.Expr, ast.Pass, ast.Match, ast.Raise, ast.Assert)

    def __init__(self):
        self.problems: list[str] = []

    # ---- hooks
    def atom(self, expr, st, depth):
        return None

    def write_event(self, target, value, stmt, st, depth):
        raise AnalysisError(f"decision table: unmodelled write {norm(stmt)}")

    def call_ok(self, call) -> bool:
        ch = attr_chain(call.func)
        return bool(ch) and ch.split(".")[0] in self.log_roots

    def truthy(self, v):
        if is_const(v):
            return bool(v[1])
        if is_obj(v):
            return True
        return None

    # ---- refuse what is not modelled
    def vet(self, fn):
        for n in walk_in_order(fn):
            if n is fn:
                continue
            if isinstance(n, ast.stmt) and not isinstance(n, self.allowed_stmts):
                raise AnalysisError(f"decision table {fn.name}: statement kind {type(n).__name__} is not modelled: {norm(n)}")
            if isinstance(n, (ast.Lambda, ast.ListComp, ast.SetComp, ast.DictComp, ast.GeneratorExp, ast.Await, ast.Yield, ast.YieldFrom)):
                raise AnalysisError(f"decision table {fn.name}: expression kind {type(n).__name__} is not modelled: {norm(n)}")

    # ---- values
    def value(self, expr, st, depth):
        if expr is None:
            return C(None)
        a = self.atom(expr, st, depth)
        if a is not None:
            return a
        if isinstance(expr, ast.Constant):
            return C(expr.value)
        if isinstance(expr, ast.Name):
            return st.get(f"{depth}:{expr.id}")
        if isinstance(expr, ast.JoinedStr):
            # an f-string with a non-empty literal part is a non-empty string
            if any(isinstance(p, ast.Constant) and p.value for p in expr.values):
                return OBJ("str", "nonempty")
            return UNKNOWN
        if isinstance(expr, ast.BoolOp):
            # value semantics of and/or: first operand that decides the result
            last = UNKNOWN
            for e in expr.values:
                last = self.value(e, st, depth)
                t = self.truthy(last)
                if t is None:
                    return UNKNOWN
                if isinstance(expr.op, ast.Or) and t:
                    return last
                if isinstance(expr.op, ast.And) and not t:
                    return last
            return last
        if isinstance(expr, ast.IfExp):
            t = self.truth(expr.test, st, depth)
            if t is None:
                return UNKNOWN
            return self.value(expr.body if t else expr.orelse, st, depth)
        if isinstance(expr, ast.NamedExpr):
            return self.value(expr.value, st, depth)
        if isinstance(expr, ast.Compare) or (isinstance(expr, ast.UnaryOp) and isinstance(expr.op, ast.Not)):
            t = self.truth(expr, st, depth)
            return C(t) if t is not None else UNKNOWN
        if isinstance(expr, ast.Call) and isinstance(expr.func, ast.Name) and expr.func.id in ("isinstance", "bool"):
            t = self.truth(expr, st, depth)
            return C(t) if t is not None else UNKNOWN
        return UNKNOWN

    def decide_leaf(self, cond, st, depth):
        if isinstance(cond, ast.Call) and isinstance(cond.func, ast.Name) and cond.func.id == "bool" and len(cond.args) == 1:
            return self.truth(cond.args[0], st, depth)
        if isinstance(cond, ast.Call) and isinstance(cond.func, ast.Name) and cond.func.id == "isinstance":
            return self.decide_isinstance(cond, st, depth)
        if isinstance(cond, ast.NamedExpr):
            return self.truthy(self.value(cond.value, st, depth))
        if not isinstance(cond, ast.Compare):
            t = self.truthy(self.value(cond, st, depth))
            if t is not None:
                return t
            return None
        if len(cond.ops) == 1:
            a = self.value(cond.left, st, depth)
            b = self.value(cond.comparators[0], st, depth)
            op = cond.ops[0]
            if isinstance(op, (ast.Is, ast.IsNot)) and is_const(b) and b[1] is None and (is_const(a) or is_obj(a)):
                isnone = is_const(a) and a[1] is None
                return isnone if isinstance(op, ast.Is) else not isnone
            if isinstance(op, (ast.Eq, ast.NotEq)) and is_const(a) and is_const(b):
                return (a[1] == b[1]) if isinstance(op, ast.Eq) else (a[1] != b[1])
            if isinstance(op, (ast.In, ast.NotIn)) and is_const(a) and isinstance(cond.comparators[0], (ast.Tuple, ast.Set, ast.List)):
                elts = [self.value(e, st, depth) for e in cond.comparators[0].elts]
                if all(is_const(e) for e in elts):
                    r = any(a[1] == e[1] for e in elts)
                    return r if isinstance(op, ast.In) else not r
        return None

    def decide_isinstance(self, cond, st, depth):
        return None

    def decide(self, cond, st, depth):
        t = self.truth(cond, st, depth)
        if t is None:
            raise AnalysisError(f"decision table: condition not decidable from the abstract inputs: {norm(cond)}")
        return t

    # ---- effects / events
    def events(self, node, st):
        if isinstance(node, ast.Expr):
            v = node.value
            if isinstance(v, ast.Constant):
                return []
            if isinstance(v, ast.Call) and self.call_ok(v):
                return []
            raise AnalysisError(f"decision table: unmodelled statement {norm(node)}")
        return []

    def effect(self, stmt, st, depth):
        if isinstance(stmt, (ast.Assign, ast.AnnAssign)):
            targets = stmt.targets if isinstance(stmt, ast.Assign) else [stmt.target]
            if stmt.value is None:
                return st
            v = self.value(stmt.value, st, depth)
            for t in targets:
                st = self.bind(t, stmt.value, st, depth, value=v, stmt=stmt)
            return st
        if isinstance(stmt, (ast.AugAssign, ast.Delete)):
            raise AnalysisError(f"decision table: unmodelled statement {norm(stmt)}")
        return st

    def bind(self, target, value_expr, st, depth, value=None, stmt=None):
        v = value if value is not None else self.value(value_expr, st, depth)
        if isinstance(target, ast.Name):
            return st.set(f"{depth}:{target.id}", v)
        if isinstance(target, (ast.Tuple, ast.List)):
            return self.bind_tuple(target, v, stmt or target, st, depth)
        ev = self.write_event(target, v, stmt or target, st, depth)
        if ev is not None:
            st = st.emit(ev)
        return self.after_write(target, v, st, depth)

    def bind_tuple(self, target, v, stmt, st, depth):
        for e in target.elts:
            if not isinstance(e, ast.Name):
                raise AnalysisError(f"decision table: unmodelled unpacking {norm(stmt)}")
            st = st.set(f"{depth}:{e.id}", UNKNOWN)
        return st

    def after_write(self, target, v, st, depth):
        return st

    def match_case(self, subject, pattern, st, depth):
        raise AnalysisError("decision table: match statements are not modelled here")


def run_cell(spec: StrictSpec, fn, bindings: dict):
    """Evaluate ``fn`` for one cell. Exactly one path may result (everything is decided).
    Returns (how, state) with how = 'return' | 'raise:<Cls>'."""
    eng = Engine(spec)
    o = eng.run(fn, State(), bindings)
    finals = [("return", s) for s in o.ret] + [("raise:" + (s.get("$exc")[1] if is_const(s.get("$exc")) else "?"), s) for s in o.exc]
    if len(finals) != 1:
        raise AnalysisError(f"decision table {fn.name}: {len(finals)} outcomes for one cell (expected exactly one)")
    return finals[0]


# ---------------------------------------------------------------------------------------------------
# registries read from source


def hook_name(cls_name: str) -> str:
    """mitmproxy.hooks.Hook.__init_subclass__: HttpRequestHook -> http_request (trusted re-statement, checked by
    ``check_hook_naming``)."""
    name = cls_name.replace("Hook", "")
    return re.sub("(?!^)([A-Z]+)", r"_\1", name).lower()


def hook_method(ctx, rel: str, cls_name: str) -> str:
    """Addon method name a hook class dispatches to: explicit ``name = "..."`` in the class body, else derived."""
    c = ctx.model.cls(rel, cls_name)
    for st in c.body:
        tgt = None
        if isinstance(st, ast.Assign) and len(st.targets) == 1:
            tgt, val = st.targets[0], st.value
        elif isinstance(st, ast.AnnAssign) and st.value is not None:
            tgt, val = st.target, st.value
        if isinstance(tgt, ast.Name) and tgt.id == "name":
            if isinstance(val, ast.Constant) and isinstance(val.value, str):
                return val.value
            raise AnalysisError(f"{rel}::{cls_name}.name is not a string literal")
    check_hook_naming(ctx)
    return hook_name(cls_name)


def check_hook_naming(ctx):
    """The name derivation above is a copy of the one in hooks.py: fail closed when that one changes."""
    fn = ctx.model.func(HOOKS, "Hook.__init_subclass__")
    src = ast.unparse(fn)
    ok = "cls.__name__.replace('Hook', '')" in src and "re.sub('(?!^)([A-Z]+)', '_\\\\1', name).lower()" in src
    if not ok:
        raise AnalysisError("hooks.py::Hook.__init_subclass__ no longer derives hook names the way the checker re-states it")
    ctx.trust("hook method name = re.sub('(?!^)([A-Z]+)', '_\\1', ClassName.replace('Hook','')).lower() (hooks.py, compared with the source on every run)")


def default_addon_order(ctx) -> list[str]:
    fn = ctx.func(ADDONS_INIT, "default_addons")
    rets = [n for n in walk_in_order(fn) if isinstance(n, ast.Return)]
    if len(rets) != 1 or not isinstance(rets[0].value, ast.List):
        raise AnalysisError("default_addons() is no longer a single `return [ ... ]` list")
    out = []
    for e in rets[0].value.elts:
        if not (isinstance(e, ast.Call) and attr_chain(e.func)):
            raise AnalysisError(f"default_addons(): unmodelled element {norm(e)}")
        out.append(last_attr(e.func))
    return out


def mode_classes(ctx) -> list[str]:
    m = ctx.model.module(MODE_SPECS)
    out = []
    for q, d in m.defs().items():
        if isinstance(d, ast.ClassDef) and "." not in q and q != "ProxyMode":
            anc = [c.name for _, c in ctx.model.mro(MODE_SPECS, q)]
            if "ProxyMode" in anc:
                out.append(q)
    if len(out) < 6:
        raise AnalysisError(f"mode_specs.py: only {len(out)} ProxyMode subclasses found")
    return out


def class_isa(model, rel: str, cls_name: str, target: str) -> bool:
    return target in [c.name for _, c in model.mro(rel, cls_name)]


def isinstance_targets(call: ast.Call) -> list[str]:
    t = call.args[1]
    elts = t.elts if isinstance(t, ast.Tuple) else [t]
    out = []
    for e in elts:
        n = last_attr(e)
        if not n or not attr_chain(e):
            raise AnalysisError(f"isinstance against an unmodelled type expression: {norm(call)}")
        out.append(n)
    return out


def modules_mentioning(ctx, *needles, sub: str = "mitmproxy", exclude=("mitmproxy/contrib/",)):
    """Modules of the package whose text contains any of ``needles`` (cheap sound pre-filter for identifier searches:
    a Name/Attribute/str reference needs the identifier in the file's text). Honours in-memory overrides."""
    m = ctx.model
    out = []
    rels = {p.relative_to(m.repo).as_posix() for p in (m.repo / sub).rglob("*.py")} | {r for r in m.overrides if r.startswith(sub)}
    for rel in sorted(rels):
        if any(rel.startswith(e) for e in exclude):
            continue
        src = m.source(rel)
        if any(n in src for n in needles):
            out.append(m.module(rel))
    return out


# ---------------------------------------------------------------------------------------------------
# Socks5Proxy model (shared by C20 and C21): typestate exploration with symbolic buffer arithmetic

import collections  # noqa: E402

from ..layerx import EV  # noqa: E402
from ..layerx import is_ev  # noqa: E402
from ..layerx import LayerSpec  # noqa: E402
from ..paths import R  # noqa: E402

MODES = "mitmproxy/proxy/layers/modes.py"
TRUTHY = ("t",)
FALSY = ("f",)


class RefiningEngine(Engine):
    """Path engine that remembers the outcome of a branch on an unknown *local name* (``if err:``), so that a later
    test of the same name (after ``return err`` into the caller) is decided consistently."""

    def _decide_into(self, shown, expr, s, depth, T, F):
        if isinstance(expr, ast.Name):
            key = f"{depth}:{expr.id}"
            if s.get(key) == UNKNOWN and self.spec.decide(expr, s, depth) is None:
                self.forks += 1
                T.add(self._cev(shown, True, s.set(key, TRUTHY)))
                F.add(self._cev(shown, False, s.set(key, FALSY)))
                return
        # `name == CONST` on a local that holds one unknown byte: remember the outcome (if/elif chains on atyp)
        if isinstance(expr, ast.Compare) and len(expr.ops) == 1 and isinstance(expr.ops[0], ast.Eq) and isinstance(expr.left, ast.Name):
            key = f"{depth}:{expr.left.id}"
            v = s.get(key)
            k = self.spec.value(expr.comparators[0], s, depth)
            atom = single_atom(v)
            if atom is not None and is_const(k) and isinstance(k[1], int) and self.spec.decide(expr, s, depth) is None:
                self.forks += 1
                T.add(self._cev(shown, True, s.set(key, k)))
                ne = s.get("$ne:" + atom)
                excl = tuple(sorted(set(ne[1] if is_const(ne) else ()) | {k[1]}))
                F.add(self._cev(shown, False, s.set("$ne:" + atom, C(excl))))
                return
        Engine._decide_into(self, shown, expr, s, depth, T, F)


# ---- linear forms over byte-valued atoms (all atoms are >= 0)


def LIN(const, terms=()):
    terms = tuple(sorted((a, c) for a, c in dict(terms).items() if c)) if isinstance(terms, dict) else tuple(sorted(terms))
    if not terms:
        return C(const)
    return ("lin", const, terms)


def as_lin(v):
    """(const, {atom: coeff}) for an int constant / linear form, else None."""
    if is_const(v) and isinstance(v[1], int) and not isinstance(v[1], bool):
        return v[1], {}
    if isinstance(v, tuple) and len(v) == 3 and v[0] == "lin":
        return v[1], dict(v[2])
    return None


def lin_add(a, b, sign=1):
    la, lb = as_lin(a), as_lin(b)
    if la is None or lb is None:
        return None
    d = dict(la[1])
    for k, c in lb[1].items():
        d[k] = d.get(k, 0) + sign * c
    return LIN(la[0] + sign * lb[0], {k: c for k, c in d.items() if c})


def lin_ge(a, b):
    """a >= b for all non-negative atom values?  (sufficient condition: a - b has only non-negative coefficients)"""
    d = lin_add(a, b, -1)
    l = as_lin(d) if d is not None else None
    if l is None:
        return False
    return l[0] >= 0 and all(c >= 0 for c in l[1].values())


def single_atom(v):
    l = as_lin(v)
    if l is not None and l[0] == 0 and len(l[1]) == 1 and list(l[1].values()) == [1]:
        return next(iter(l[1]))
    return None


def lin_text(v) -> str:
    l = as_lin(v)
    if l is None:
        return str(v)
    parts = [str(l[0])] if l[0] or not l[1] else []
    for a, c in sorted(l[1].items()):
        parts.append(a if c == 1 else f"{c}*{a}")
    return " + ".join(parts)


class Socks5Spec(LayerSpec):
    """Model of ``Socks5Proxy`` (+ ``DestinationKnown.finish_start``) extracted from proxy/layers/modes.py.

    Tracked: self.state, self._handle_event, ``$epoch`` (number of times self.buf was re-assigned: indices of different
    epochs are different symbols).  Optional bound inputs in the environment: ``$proxyauth`` (option set?), ``$valid``
    (outcome of the Socks5AuthHook), ``$byte<epoch>_<k>`` (value of self.buf[k] in that epoch, used for table cells).

    Events (all emitted in program order):
      ('enter', name)                         a state function / helper is entered (inlined)
      ('buf+',)  ('buf:=', value)  ('bufdel',)   buffer append / re-assignment / deletion
      ('send', side, payload)  ('close', side)  ('open',)  ('hook', Cls)  ('log',)
      ('child:=',)  ('child_start',)  ('child_data', args)
      ('set', 'self.state'|'self._handle_event', target)     ('addr:=', value)
      ('c', kind, data, taken, reads)         a decided / forked condition; kind 'need' (len(self.buf) < data),
                                              'valid', 'proxyauth', 'buf' (truthiness of self.buf), 'other'
      ('read', index_form)                    self.buf[index] evaluated in a statement
    """

    tracked = ("self.state", "self._handle_event")
    dispatch_attrs = ("self.state",)
    label_inlined_call = True
    record_conds = True
    max_depth = 8
    max_epoch = 6  # a handshake consumes at most three messages; the cap keeps a broken variant's state space finite

    def __init__(self, model, cls: str = "Socks5Proxy"):
        super().__init__(model, MODES, cls)
        self._depth = 0
        self._mod = model.module(MODES)
        for name in ("_handle_event", "state_greet", "state_auth", "state_connect", "socks_err", "finish_start"):
            r = model.method(MODES, cls, name)
            if r is None:
                raise AnalysisError(f"anchor vanished: {MODES}::{cls}.{name}")
            for n in walk_in_order(r[1]):
                if isinstance(n, (ast.For, ast.While, ast.Try, ast.With, ast.Match, ast.AsyncFor, ast.AsyncWith)):
                    raise AnalysisError(f"{cls}.{name}: statement kind {type(n).__name__} is not modelled by the SOCKS5 model")

    def extra_modules(self):
        return [self.model.module("mitmproxy/proxy/events.py")]

    def refs_are_distinct(self, a, b):
        return a.startswith("self.") and b.startswith("self.")

    # ---- values
    def epoch(self, st):
        v = st.get("$epoch")
        return v[1] if is_const(v) else 0

    def module_const(self, name):
        vals = self._mod.assigns(name)
        if len(vals) == 1:
            try:
                return C(ast.literal_eval(vals[0]))
            except Exception:
                return None
        return None

    def buf_atom(self, idx, st):
        l = as_lin(idx)
        if l is None:
            return None
        if not l[1]:
            b = st.get(f"$byte{self.epoch(st)}_{l[0]}")
            if is_const(b):
                return b
        return LIN(0, {f"buf{self.epoch(st)}[{lin_text(idx)}]": 1})

    def slice_bounds(self, sl, st, depth):
        lo = self.value(sl.lower, st, depth) if sl.lower is not None else C(0)
        hi = self.value(sl.upper, st, depth) if sl.upper is not None else C(None)
        if sl.step is not None:
            raise AnalysisError(f"SOCKS5 model: stepped slice {norm(sl)}")
        return lo, hi

    def value(self, expr, st, depth):
        if isinstance(expr, ast.Name):
            key = f"{depth}:{expr.id}"
            if st.has(key):
                return st.get(key)
            mc = self.module_const(expr.id)
            return mc if mc is not None else UNKNOWN
        if isinstance(expr, ast.BinOp) and isinstance(expr.op, (ast.Add, ast.Sub)):
            a, b = self.value(expr.left, st, depth), self.value(expr.right, st, depth)
            r = lin_add(a, b, 1 if isinstance(expr.op, ast.Add) else -1)
            if r is not None:
                return r
            if isinstance(expr.op, ast.Add) and is_const(a) and is_const(b) and isinstance(a[1], bytes) and isinstance(b[1], bytes):
                return C(a[1] + b[1])
            return UNKNOWN
        if isinstance(expr, ast.UnaryOp) and isinstance(expr.op, ast.USub):
            v = self.value(expr.operand, st, depth)
            return C(-v[1]) if is_const(v) and isinstance(v[1], int) else UNKNOWN
        if isinstance(expr, ast.Tuple):
            return OBJ("tuple", *[self.value(e, st, depth) for e in expr.elts])
        if isinstance(expr, ast.Subscript):
            base_chain = attr_chain(expr.value)
            if base_chain == "self.buf":
                if isinstance(expr.slice, ast.Slice):
                    lo, hi = self.slice_bounds(expr.slice, st, depth)
                    if is_const(lo) and is_const(hi) and isinstance(lo[1], int) and isinstance(hi[1], int) and 0 <= lo[1] <= hi[1]:
                        bs = [st.get(f"$byte{self.epoch(st)}_{i}") for i in range(lo[1], hi[1])]
                        if bs and all(is_const(b) for b in bs):
                            return C(bytes(b[1] for b in bs))
                    return OBJ("bufslice", self.epoch(st), lo, hi)
                idx = self.value(expr.slice, st, depth)
                at = self.buf_atom(idx, st)
                return at if at is not None else UNKNOWN
            base = self.value(expr.value, st, depth)
            if is_obj(base, "bufslice") and isinstance(expr.slice, ast.Slice):
                lo, hi = self.slice_bounds(expr.slice, st, depth)
                return OBJ("subslice", base, lo, hi)
            return UNKNOWN
        if isinstance(expr, ast.Call):
            f = expr.func
            name = last_attr(f)
            if isinstance(f, ast.Name) and f.id == "bytes" and len(expr.args) == 1 and isinstance(expr.args[0], ast.List):
                vals = [self.value(e, st, depth) for e in expr.args[0].elts]
                if all(is_const(v) and isinstance(v[1], int) for v in vals):
                    try:
                        return C(bytes(v[1] for v in vals))
                    except ValueError:
                        return UNKNOWN
                return OBJ("bytes", *vals)
            if name == "inet_ntop" and len(expr.args) == 2:
                return OBJ("inet_ntop", last_attr(expr.args[0]), self.value(expr.args[1], st, depth))
            if name == "decode" and isinstance(f, ast.Attribute):
                base = self.value(f.value, st, depth)
                if is_obj(base):
                    return OBJ("decoded", base)
                return UNKNOWN
            if name == "unpack" and len(expr.args) == 2:
                return OBJ("unpack", self.value(expr.args[0], st, depth), self.value(expr.args[1], st, depth))
            return LayerSpec.value(self, expr, st, depth)
        if attr_chain(expr) == "data.valid":
            v = st.get("$valid")
            return v if is_const(v) else UNKNOWN
        return LayerSpec.value(self, expr, st, depth)

    def bind(self, target, value_expr, st, depth, value=None):
        if isinstance(target, (ast.Tuple, ast.List)):
            v = value if value is not None else (self.value(value_expr, st, depth) if value_expr is not None else UNKNOWN)
            if is_obj(v, "tuple") and len(v) - 2 == len(target.elts):
                for t, x in zip(target.elts, v[2:]):
                    st = self.bind(t, None, st, depth, value=x)
                return st
            if is_obj(v, "unpack") and len(target.elts) == 1:
                return self.bind(target.elts[0], None, st, depth, value=OBJ("unpacked", v[2], v[3]))
            for t in target.elts:
                st = self.bind(t, None, st, depth, value=UNKNOWN)
            return st
        return LayerSpec.bind(self, target, value_expr, st, depth, value=value)

    # ---- conditions
    def decide(self, cond, st, depth):
        self._depth = depth
        return LayerSpec.decide(self, cond, st, depth)

    def decide_leaf(self, cond, st, depth):
        if isinstance(cond, ast.Name):
            v = self.value(cond, st, depth)
            if v == TRUTHY:
                return True
            if v == FALSY:
                return False
        ch = attr_chain(cond)
        if ch == "self.context.options.proxyauth":
            v = st.get("$proxyauth")
            return v[1] if is_const(v) else None
        if isinstance(cond, ast.Compare) and len(cond.ops) == 1:
            a = self.value(cond.left, st, depth)
            b = self.value(cond.comparators[0], st, depth)
            op = cond.ops[0]
            if isinstance(op, ast.In) and is_const(a) and a[1] == "proxyauth" and attr_chain(cond.comparators[0]) == "self.context.options":
                v = st.get("$proxyauth")
                return True if (is_const(v) and v[1]) else None  # a configured option is a registered option
            if is_const(a) and is_const(b) and isinstance(a[1], int) and isinstance(b[1], int) and isinstance(op, (ast.Eq, ast.NotEq)):
                return (a[1] == b[1]) if isinstance(op, ast.Eq) else (a[1] != b[1])
            atom = single_atom(a)
            if atom is not None and is_const(b) and isinstance(op, (ast.Eq, ast.NotEq)):
                ne = st.get("$ne:" + atom)
                if is_const(ne) and b[1] in ne[1]:
                    return isinstance(op, ast.NotEq)
        return LayerSpec.decide_leaf(self, cond, st, depth)

    def cond_event(self, expr, value, st):
        depth = self._depth
        reads = tuple(self.reads_in(expr, st, depth))
        if isinstance(expr, ast.Compare) and len(expr.ops) == 1 and isinstance(expr.left, ast.Call) and norm(expr.left) == "len(self.buf)":
            if not isinstance(expr.ops[0], ast.Lt):
                raise AnalysisError(f"SOCKS5 model: unmodelled length test {norm(expr)}")
            need = self.value(expr.comparators[0], st, depth)
            if as_lin(need) is None:
                raise AnalysisError(f"SOCKS5 model: length bound is not a linear form: {norm(expr)}")
            return ("c", "need", need, value, reads)
        if "len(self.buf)" in norm(expr):
            raise AnalysisError(f"SOCKS5 model: unmodelled length test {norm(expr)}")
        ch = attr_chain(expr)
        if ch == "data.valid":
            return ("c", "valid", None, value, reads)
        if ch == "self.buf":
            return ("c", "buf", None, value, reads)
        if "proxyauth" in norm(expr):
            return ("c", "proxyauth", norm(expr), value, reads)
        return ("c", "other", norm(expr), value, reads)

    def reads_in(self, node, st, depth):
        """Index forms read from self.buf in ``node``: an int form for ``self.buf[i]`` (needs i < len), and
        ('upto', form) for a slice with an explicit upper bound (the field is truncated unless form <= len)."""
        out = []
        for n in eval_order_(node):
            if isinstance(n, ast.Subscript) and attr_chain(n.value) == "self.buf":
                if isinstance(n.slice, ast.Slice):
                    if n.slice.upper is not None:
                        hi = self.value(n.slice.upper, st, depth)
                        if as_lin(hi) is None:
                            raise AnalysisError(f"SOCKS5 model: slice bound is not a linear form: {norm(n)}")
                        out.append(("upto", hi))
                    continue
                idx = self.value(n.slice, st, depth)
                if as_lin(idx) is None:
                    raise AnalysisError(f"SOCKS5 model: self.buf index is not a linear form: {norm(n)}")
                out.append(idx)
        return out

    # ---- labelling
    def events(self, node, st):
        # inlined calls are labelled here (label_inlined_call); everything else in effect() where the frame depth is known
        if isinstance(node, ast.Call):
            f = node.func
            if isinstance(f, ast.Attribute) and isinstance(f.value, ast.Name) and f.value.id == "self":
                if f.attr == "state":
                    v = st.get("self.state")
                    return [("enter", v[1] if v[0] == "r" else "?")]
                return [("enter", "self." + f.attr)]
        return []

    def side(self, expr):
        ch = attr_chain(expr)
        if ch.endswith("context.client"):
            return "client"
        if ch.endswith("context.server"):
            return "server"
        return ch or norm(expr)

    def effect(self, stmt, st, depth):
        for idx in self.reads_in(stmt, st, depth):
            st = st.emit(("read", idx))
        if isinstance(stmt, ast.Expr):
            v = stmt.value
            if isinstance(v, ast.Yield) and isinstance(v.value, ast.Call):
                c = v.value
                name = last_attr(c.func)
                if name == "SendData" and len(c.args) == 2:
                    return st.emit(("send", self.side(c.args[0]), self.value(c.args[1], st, depth)))
                if name == "CloseConnection" and c.args:
                    return st.emit(("close", self.side(c.args[0])))
                if name == "OpenConnection":
                    return st.emit(("open",))
                if name == "Log":
                    return st.emit(("log",))
                if name.endswith("Hook"):
                    return st.emit(("hook", name))
                raise AnalysisError(f"SOCKS5 model: unmodelled command {norm(c)}")
            if isinstance(v, ast.YieldFrom) and isinstance(v.value, ast.Call):
                c = v.value
                if attr_chain(c.func) == "self.child_layer.handle_event" and len(c.args) == 1 and isinstance(c.args[0], ast.Call):
                    kind = last_attr(c.args[0].func)
                    if kind == "Start":
                        return st.emit(("child_start",))
                    if kind == "DataReceived":
                        return st.emit(("child_data", tuple(norm(a) for a in c.args[0].args)))
                if norm(c) == "()":
                    return st
                raise AnalysisError(f"SOCKS5 model: unmodelled delegation {norm(c)}")
            if isinstance(v, ast.YieldFrom) and isinstance(v.value, ast.Tuple) and not v.value.elts:
                return st
            if isinstance(v, ast.Constant):
                return st
            raise AnalysisError(f"SOCKS5 model: unmodelled statement {norm(stmt)}")
        if isinstance(stmt, ast.AugAssign):
            if attr_chain(stmt.target) == "self.buf":
                if not isinstance(stmt.op, ast.Add):
                    raise AnalysisError(f"SOCKS5 model: unmodelled buffer update {norm(stmt)}")
                return st.emit(("buf+", norm(stmt.value)))
            return LayerSpec.effect(self, stmt, st, depth)
        if isinstance(stmt, ast.Delete):
            for t in stmt.targets:
                if attr_chain(t) == "self.buf":
                    st = st.emit(("bufdel",))
                else:
                    raise AnalysisError(f"SOCKS5 model: unmodelled delete {norm(stmt)}")
            return st
        if isinstance(stmt, (ast.Assign, ast.AnnAssign)):
            if isinstance(stmt, ast.AnnAssign) and stmt.value is None:
                return st
            targets = stmt.targets if isinstance(stmt, ast.Assign) else [stmt.target]
            if isinstance(stmt.value, ast.Yield):
                # err = yield commands.OpenConnection(...)
                c = stmt.value.value
                if isinstance(c, ast.Call) and last_attr(c.func) == "OpenConnection":
                    st = st.emit(("open",))
                    for t in targets:
                        st = self.bind(t, None, st, depth, value=UNKNOWN)
                    return st
                raise AnalysisError(f"SOCKS5 model: unmodelled command {norm(stmt)}")
            val = self.value(stmt.value, st, depth)
            for t in targets:
                pairs = [(t, val)]
                if isinstance(t, (ast.Tuple, ast.List)) and is_obj(val, "tuple") and len(val) - 2 == len(t.elts):
                    pairs = list(zip(t.elts, val[2:]))
                for tt, vv in pairs:
                    ch = attr_chain(tt)
                    if ch == "self.buf":
                        st = st.emit(("buf:=", vv)).set("$epoch", C(min(self.epoch(st) + 1, self.max_epoch)))
                    elif ch in ("self.state", "self._handle_event"):
                        st = st.emit(("set", ch, vv[1] if vv[0] == "r" else norm(stmt.value)))
                        st = st.set(ch, vv)
                    elif ch == "self.context.server.address":
                        st = st.emit(("addr:=", vv))
                    elif ch == "self.child_layer":
                        st = st.emit(("child:=",))
                    elif ch.startswith("self."):
                        raise AnalysisError(f"SOCKS5 model: unmodelled attribute write {norm(stmt)}")
                    else:
                        st = self.bind(tt, None, st, depth, value=vv)
            return st
        return LayerSpec.effect(self, stmt, st, depth)


def eval_order_(node):
    from ..model import eval_order

    return eval_order(node)


SOCKS_EVENTS = (EV("Start"), EV("DataReceived"), EV("ConnectionClosed"))


def explore_socks5(spec: Socks5Spec, entry_fn, init_env: dict, max_states: int = 300):
    """Fix-point over the tracked environment; returns (states, transitions) with
    transitions = [(src_env: dict, event_kind, trace, dst_env: dict, exc | None)].
    Events are offered while ``self._handle_event`` is still the layer's own handler (afterwards the layer has
    delegated to ``done`` or to the child layer)."""
    eng = RefiningEngine(spec)
    start = tuple(sorted(init_env.items()))
    seen = {start}
    q = collections.deque([start])
    trans = []
    while q:
        node = q.popleft()
        env = dict(node)
        if env.get("self._handle_event") != R("self._handle_event"):
            continue
        for ev in SOCKS_EVENTS:
            st0 = State((), dict(env)).set("0:event", ev)
            for fs in eng.finals(entry_fn, st0):
                fenv = {k: v for k, v in fs.env if not (k[:1].isdigit() and ":" in k) and k not in ("$ret", "$exc", "$handling") and not k.startswith("$ne:")}
                exc = fs.get("$exc")
                trans.append((env, ev[1], fs.trace, fenv, exc[1] if is_const(exc) else None))
                nxt = tuple(sorted(fenv.items()))
                if nxt not in seen:
                    seen.add(nxt)
                    q.append(nxt)
                    if len(seen) > max_states:
                        raise AnalysisError(f"SOCKS5 exploration exceeded {max_states} abstract states")
    return [dict(s) for s in seen], trans, eng


def socks5_init_env(**extra):
    env = {"self.state": R("self.state_greet"), "self._handle_event": R("self._handle_event"), "$epoch": C(0)}
    env.update(extra)
    return env
