"""C02 - HTTP/1 behaviour does not depend on TCP segmentation or pipelining (buffer discipline of _http1.py).

Decided (who-may-read + path enumeration with scenario-decided atoms over Http1Connection / Http1Server / Http1Client):
  R02.1 the bytes of a received segment (`event.data` of the connection event) are read only by
        Http1Connection._handle_event - appended to self.buf BEFORE the state function runs, on every path where
        the event is a DataReceived and the connection is not in passthrough - and by `passthrough`; no state
        function looks at a segment.
  R02.2 read_headers (server and client) on DataReceived: the only consumer of self.buf is maybe_extract_lines();
        when it returns nothing, nothing is yielded / assigned / consumed (an incomplete head leaves the machine
        untouched); when a head was parsed the machine switches to read_body and re-dispatches the SAME event, so
        body bytes that arrived in the same segment are parsed now.  read_body only returns after the reader said
        "need more data" (None), after end-of-message, or after a protocol error - never after a Data event.
  R02.3 wait() on DataReceived yields / assigns / consumes nothing (pipelined bytes stay in self.buf);
        mark_done on the keep-alive path resets request_done/response_done, advances stream_id (server += 2, client
        := None), rebinds state to read_headers and re-dispatches a DataReceived when self.buf is non-empty;
        make_pipe switches to passthrough first and forwards the whole remaining buffer exactly once.
  R02.4 Http1Server.send writes to the client only after checking event.stream_id == self.stream_id;
        Http1Server.mark_done parks the connection in `wait` exactly when the request is done and the response is
        not (decision table) so the next pipelined request is parsed only after the current flow finished.
NOT decided: equality of outcomes over all splits (needs execution); h11's ReceiveBuffer / readers are trusted to be
incremental. Resetting self.request/self.response on keep-alive is not demanded (not a segmentation question).

How the code is read (semantics, not shape):
  * every rule works on the traces of the path engine over the rule's alphabet (buffer consumers, body reader, yields of
    commands/events other than Log, writes to attributes of the connection that are read somewhere, re-dispatches);
    `if`/`match`/early return/De Morgan/temporaries are the engine's business;
  * private helper methods (`self._x(...)`, also overridden per subclass = fork on the concrete class) and module helpers that
    receive the buffer or the event are inlined, with their exception edges; the anchors themselves (state functions,
    _handle_event, send, mark_done, make_pipe) are not;
  * all matching is value based: the buffer, the body reader, the event, the segment bytes, the extracted head are recognised
    through local aliases, helper parameters and `match` captures; a boolean temporary holding one atom decides like the atom;
  * the segment bytes may flow (directly, through a local, a capture or a helper parameter) only into `self.buf += ...` and
    into logger calls; writes to attributes that nothing reads (counters), logger calls, assertions, annotations, docstrings
    and `yield commands.Log(...)` are outside the alphabet.
"""

from __future__ import annotations

import ast

from ..core import AnalysisError
from ..core import norm
from ..model import attr_chain
from ..model import enclosing_func
from ..model import eval_order
from ..model import last_attr
from ..model import walk_in_order
from ..paths import C
from ..paths import is_const
from ..paths import R
from ..paths import UNKNOWN
from ..selftest import Mutant
from ._helpers_A import ASpec
from ._helpers_A import compare_pair
from ._helpers_A import isinstance_names
from ._helpers_A import params_of
from ._helpers_A import proj
from ._helpers_A import run_block
from ._helpers_A import show
from ._helpers_A import truthiness_of

PROP = "C02"
REG = {
    "strength": "partial",
    "technique": "who-may-read of segment bytes + CFG path enumeration with scenario-decided atoms (buffer discipline, decision table)",
    "claim": "In _http1.py segment bytes are only appended to self.buf (before the state function runs) or relayed in passthrough; heads are "
    "taken only by maybe_extract_lines and an incomplete head changes nothing; a parsed head re-dispatches the same event into read_body, "
    "which returns only on need-more-data / end-of-message / error; wait() leaves pipelined bytes alone; keep-alive mark_done resets, advances "
    "stream_id, and re-dispatches buffered bytes; make_pipe forwards the remaining buffer once; the server only answers the current stream.",
    "note": "h11 ReceiveBuffer/readers trusted to be incremental; loops unrolled twice.",
}

F = "mitmproxy/proxy/layers/http/_http1.py"
BASE = "Http1Connection"
CLASSES = ("Http1Connection", "Http1Server", "Http1Client")
HEAD = ("head",)
BUFV = ("bufbytes",)
BUFLEN = ("buflen",)
SEG = ("segment",)
H11 = ("h11ev",)
RBUF = R("self.buf")
RREADER = R("self.body_reader")
LOG_METHODS = {"debug", "info", "warning", "warn", "error", "exception", "critical", "log"}
# methods that are anchors of the rules: analysed on their own, never inlined into a caller
ANCHORS = {"_handle_event", "send", "mark_done", "make_pipe", "start", "__init__"}


def _state_targets(ctx):
    """Names of methods that are ever bound to ``self.state`` / class attribute ``state`` in the module."""
    out = set()
    mod = ctx.model.module(F)

    def add(v, where):
        if isinstance(v, ast.IfExp):
            add(v.body, where)
            add(v.orelse, where)
            return
        ch = attr_chain(v)
        if ch == "self.state":
            return  # `self.state = x if c else self.state`
        ctx.require(ch.startswith("self.") and ch.count(".") == 1, f"self.state is bound to something that is not a method: {norm(where)}")
        out.add(ch[5:])

    for n in ast.walk(mod.tree):
        if isinstance(n, (ast.Assign, ast.AnnAssign)) and n.value is not None:
            for t in n.targets if isinstance(n, ast.Assign) else [n.target]:
                if attr_chain(t) == "self.state":
                    add(n.value, n)
                elif isinstance(t, ast.Name) and t.id == "state" and isinstance(getattr(n, "_parent", None), ast.ClassDef):
                    ctx.require(isinstance(n.value, ast.Name), f"class attribute state is not a method name: {norm(n)}")
                    out.add(n.value.id)
    return out


# ---------------------------------------------------------------------------------------------------------------------
# program facts shared by the rules


def is_log_call(n) -> bool:
    """`logger.debug(...)`, `logging.info(...)`, `self.log.warning(...)` ... (the stdlib logging API; not `commands.Log`)."""
    if not (isinstance(n, ast.Call) and isinstance(n.func, ast.Attribute) and n.func.attr in LOG_METHODS):
        return False
    base = attr_chain(n.func.value)
    if not base and isinstance(n.func.value, ast.Call):  # logging.getLogger(__name__).debug(...)
        base = attr_chain(n.func.value.func)
    return "log" in base.rsplit(".", 1)[-1].lower() or base.split(".", 1)[0] == "logging"


def _in_log_call(node) -> bool:
    n = getattr(node, "_parent", None)
    while n is not None and not isinstance(n, ast.stmt):
        if is_log_call(n):
            return True
        n = getattr(n, "_parent", None)
    return False


class _Program:
    """Classes / helpers of _http1.py, call resolution, attributes nobody reads."""

    def __init__(self, ctx, targets):
        m = ctx.model
        self.mod = m.module(F)
        self.classes = {c: m.cls(F, c) for c in CLASSES}
        subs = sorted(n.name for n in self.mod.tree.body if isinstance(n, ast.ClassDef) and BASE in [last_attr(b) for b in n.bases])
        ctx.require(subs == ["Http1Client", "Http1Server"], f"concrete HTTP/1 connection classes changed: {subs}")
        self.modfuncs = {n.name: n for n in self.mod.tree.body if isinstance(n, ast.FunctionDef)}
        self.targets = set(targets)
        self.boundary = self.targets | ANCHORS
        self._synth = {}
        # attributes of self that are never read (except by logger calls or to compute their own next value): writes to them
        # cannot influence what the connection does, they are not part of any rule's alphabet (counters, timestamps for logging)
        read = set()
        written = set()
        for cls in self.classes.values():
            for n in ast.walk(cls):
                if isinstance(n, ast.Attribute) and isinstance(n.value, ast.Name) and n.value.id == "self":
                    if isinstance(n.ctx, ast.Load):
                        if _in_log_call(n) or self._feeds_itself(n):
                            continue
                        read.add(n.attr)
                    else:
                        written.add(n.attr)
        declared = {st.target.id for st in self.classes[BASE].body if isinstance(st, ast.AnnAssign) and isinstance(st.target, ast.Name)}
        self.inert = written - read - declared

    @staticmethod
    def _feeds_itself(n) -> bool:
        st = n
        while st is not None and not isinstance(st, ast.stmt):
            st = getattr(st, "_parent", None)
        if isinstance(st, ast.Assign) and len(st.targets) == 1 and attr_chain(st.targets[0]) == "self." + n.attr:
            return True
        return isinstance(st, ast.AugAssign) and attr_chain(st.target) == "self." + n.attr

    def own(self, cls, name):
        for st in self.classes[cls].body:
            if isinstance(st, ast.FunctionDef) and st.name == name:
                return st
        return None

    def lookup(self, cls, name):
        """FunctionDef run by ``self.<name>()`` when self is an instance of ``cls`` (within this module)."""
        return self.own(cls, name) or (self.own(BASE, name) if cls != BASE else None)

    @staticmethod
    def _plain(fn) -> bool:
        return fn is not None and not fn.decorator_list and fn.args.vararg is None and fn.args.kwarg is None

    def method(self, cls, name):
        """Body to inline for ``self.<name>(...)`` seen in a method of ``cls``; in the abstract base the concrete class is not known:
        a helper that differs between the two concrete classes becomes `if isinstance(self, Http1Server): <server's> else: <client's>`."""
        if name in self.boundary:
            return None
        if cls != BASE:
            fn = self.lookup(cls, name)
            return fn if self._plain(fn) else None
        a, b = self.lookup("Http1Server", name), self.lookup("Http1Client", name)
        if a is b:
            return a if self._plain(a) else None
        if not (self._plain(a) and self._plain(b)) or ast.dump(a.args) != ast.dump(b.args):
            return None
        key = (id(a), id(b))
        if key not in self._synth:
            test = ast.Call(func=ast.Name(id="isinstance", ctx=ast.Load()), args=[ast.Name(id="self", ctx=ast.Load()), ast.Name(id="Http1Server", ctx=ast.Load())], keywords=[])
            branch = ast.If(test=test, body=list(a.body), orelse=list(b.body))
            fn = ast.FunctionDef(name=name, args=a.args, body=[branch], decorator_list=[], returns=None, type_comment=None)
            fn.type_params = []
            for n in (fn, branch, test, test.func, *test.args):
                ast.copy_location(n, a)
            self._synth[key] = fn
        return self._synth[key]

    def callee(self, call, cls):
        """(FunctionDef, is_method) for a call to a private helper method / module function of this file, else None."""
        f = call.func
        if isinstance(f, ast.Attribute) and isinstance(f.value, ast.Name) and f.value.id == "self":
            fn = self.method(cls, f.attr)
            return (fn, True) if fn is not None else None
        if isinstance(f, ast.Name) and self._plain(self.modfuncs.get(f.id)):
            return self.modfuncs[f.id], False
        return None


def _bind_arg(call, fn, arg_node):
    """Name of the parameter of ``fn`` that receives ``arg_node`` (an argument expression of ``call``), or None."""
    ps = params_of(fn)
    kwonly = {a.arg for a in fn.args.kwonlyargs}
    pos = [p for p in ps if p not in kwonly]
    for i, a in enumerate(call.args):
        if a is arg_node:
            return pos[i] if i < len(pos) and not isinstance(a, ast.Starred) else None
    for k in call.keywords:
        if k.value is arg_node:
            return k.arg if k.arg in ps else None
    return None


def _stores(fn, name) -> int:
    n = sum(1 for x in ast.walk(fn) if isinstance(x, ast.Name) and x.id == name and not isinstance(x.ctx, ast.Load))
    n += sum(1 for x in ast.walk(fn) if isinstance(x, (ast.MatchAs, ast.MatchStar)) and x.name == name)
    n += sum(1 for x in ast.walk(fn) if isinstance(x, ast.ExceptHandler) and x.name == name)
    return n


class _SegmentFlow:
    """R02.1 as dataflow: where may the bytes of the received segment go?"""

    def __init__(self, ctx, prog):
        self.ctx = ctx
        self.prog = prog
        self.seg_names: dict[int, set] = {}  # id(FunctionDef) -> locals that hold the segment bytes and only feed `self.buf += ...`

    # -- the event and its aliases
    @staticmethod
    def aliases(fn, p):
        al = {p}
        changed = True
        while changed:
            changed = False
            for n in ast.walk(fn):
                if isinstance(n, ast.Assign) and isinstance(n.value, ast.Name) and n.value.id in al:
                    for t in n.targets:
                        if isinstance(t, ast.Name) and t.id not in al:
                            al.add(t.id)
                            changed = True
                elif isinstance(n, ast.MatchAs) and n.name and n.name not in al:
                    # `match event: case DataReceived() as e` names the event again
                    mt = n
                    while mt is not None and not isinstance(mt, ast.Match):
                        mt = getattr(mt, "_parent", None)
                    if mt is not None and isinstance(mt.subject, ast.Name) and mt.subject.id in al and isinstance(getattr(n, "_parent", None), ast.match_case):
                        al.add(n.name)
                        changed = True
        return al

    def closure(self, roots):
        """{(id(fn), param): (fn, cls, param, kinds)} of functions that receive the connection event, starting at the state functions."""
        out = {}
        work = list(roots)
        while work:
            fn, cls, p, kind = work.pop()
            key = (id(fn), p)
            if key in out:
                if kind in out[key][3]:
                    continue
                out[key][3].add(kind)
            else:
                out[key] = (fn, cls, p, {kind})
            al = self.aliases(fn, p)
            for n in ast.walk(fn):
                if not isinstance(n, ast.Call) or is_log_call(n):
                    continue
                for a in list(n.args) + [k.value for k in n.keywords]:
                    if isinstance(a, ast.Name) and a.id in al:
                        if isinstance(n.func, ast.Attribute) and isinstance(n.func.value, ast.Name) and n.func.value.id == "self" and (n.func.attr in self.prog.boundary or n.func.attr == "state"):
                            continue  # state functions are roots themselves; send() receives HttpEvents, not connection events
                        c = self.prog.callee(n, cls)
                        if c is None:
                            continue
                        q = _bind_arg(n, c[0], a)
                        if q is not None:
                            work.append((c[0], cls, q, kind))
        return out

    # -- reads of the segment
    def reads(self, fn, p):
        """[(node, how)]: how = 'attr' for `<event>.data`, ('capture', name) / 'pattern' for a `data` sub-pattern of a class pattern."""
        al = self.aliases(fn, p)
        out = []
        for n in walk_in_order(fn):
            if isinstance(n, ast.Attribute) and n.attr == "data" and isinstance(n.value, ast.Name) and n.value.id in al and isinstance(n.ctx, ast.Load):
                out.append((n, "attr"))
            elif isinstance(n, ast.Call) and isinstance(n.func, ast.Name) and n.func.id in ("getattr", "vars", "attrgetter") and n.args and isinstance(n.args[0], ast.Name) and n.args[0].id in al:
                raise AnalysisError(f"{fn.name}: reflective access to the event ({norm(n)}) is not modelled")
            elif isinstance(n, ast.Match) and isinstance(n.subject, ast.Name) and n.subject.id in al:
                for case in n.cases:
                    for pat in self._class_patterns(case.pattern):
                        subs = [sp for k, sp in zip(pat.kwd_attrs, pat.kwd_patterns) if k == "data"]
                        if last_attr(pat.cls) == "DataReceived" and len(pat.patterns) >= 2:
                            subs.append(pat.patterns[1])  # __match_args__ of the dataclass: (connection, data)
                        for sp in subs:
                            if isinstance(sp, ast.MatchAs) and sp.pattern is None:
                                if sp.name is not None:
                                    out.append((sp, ("capture", sp.name)))
                            else:
                                out.append((sp, "pattern"))
        return out

    @staticmethod
    def _class_patterns(p):
        if isinstance(p, ast.MatchClass):
            yield p
        elif isinstance(p, ast.MatchAs) and p.pattern is not None:
            yield from _SegmentFlow._class_patterns(p.pattern)
        elif isinstance(p, ast.MatchOr):
            for q in p.patterns:
                yield from _SegmentFlow._class_patterns(q)

    # -- append-only flow
    def _feeds_inert(self, node) -> bool:
        """Is ``node`` part of the value written to an attribute that nothing reads (`self.bytes_seen += len(data)`)?"""
        st = node
        while st is not None and not isinstance(st, ast.stmt):
            st = getattr(st, "_parent", None)
        ts = st.targets if isinstance(st, ast.Assign) else [st.target] if isinstance(st, (ast.AugAssign, ast.AnnAssign)) else []
        return bool(ts) and all(attr_chain(t).startswith("self.") and attr_chain(t).count(".") == 1 and attr_chain(t)[5:] in self.prog.inert for t in ts)

    def _name_ok(self, fn, cls, name, seen):
        key = (id(fn), name)
        if key in seen:
            return True
        seen.add(key)
        if _stores(fn, name) + (1 if name in params_of(fn) else 0) != 1:
            return False
        ok = all(self.flows_into_buffer(n, fn, cls, seen) for n in ast.walk(fn) if isinstance(n, ast.Name) and n.id == name and isinstance(n.ctx, ast.Load))
        if ok:
            self.seg_names.setdefault(id(fn), set()).add(name)
        return ok

    def flows_into_buffer(self, node, fn, cls, seen=None) -> bool:
        """Does the value of ``node`` (the segment bytes) go nowhere but into `self.buf += ...` (or a logger call)?"""
        seen = set() if seen is None else seen
        par = getattr(node, "_parent", None)
        if isinstance(par, ast.AugAssign) and isinstance(par.op, ast.Add) and attr_chain(par.target) == "self.buf" and par.value is node:
            return True
        if _in_log_call(node) or self._feeds_inert(node):
            return True
        if isinstance(par, (ast.Assign, ast.AnnAssign)) and par.value is node:
            ts = par.targets if isinstance(par, ast.Assign) else [par.target]
            return len(ts) == 1 and isinstance(ts[0], ast.Name) and self._name_ok(fn, cls, ts[0].id, seen)
        if isinstance(par, ast.keyword):
            par = getattr(par, "_parent", None)
        if isinstance(par, ast.Call) and (node in par.args or any(k.value is node for k in par.keywords)):
            c = self.prog.callee(par, cls)
            if c is not None and c[1]:
                q = _bind_arg(par, c[0], node)
                return q is not None and self._name_ok(c[0], cls, q, seen)
        return False


# ---------------------------------------------------------------------------------------------------------------------
# the abstract machine of the path rules


def _boolish(expr) -> bool:
    return isinstance(expr, (ast.BoolOp, ast.Compare)) or (isinstance(expr, ast.UnaryOp) and isinstance(expr.op, ast.Not)) or (
        isinstance(expr, ast.Call) and isinstance(expr.func, ast.Name) and expr.func.id in ("isinstance", "bool"))


class _Spec(ASpec):
    """ASpec + helper resolution with state, boolean temporaries that remember their expression, element-wise tuple assignment."""

    cls = BASE

    def inline(self, call, st, depth):
        return self._resolver(call, st, self) if self._resolver else None

    # a temporary such as `is_server = isinstance(self, Http1Server)` holds ('sym', expression, frame depth, frozen locals): testing
    # the temporary later decides (and is recorded) exactly like testing the expression where it was computed
    def value(self, expr, st, depth):
        v = ASpec.value(self, expr, st, depth)
        if v == UNKNOWN and expr is not None and _boolish(expr):
            frozen = []
            for n in ast.walk(expr):
                if isinstance(n, ast.Name) and st.has(f"{depth}:{n.id}"):
                    frozen.append((f"{depth}:{n.id}", st.get(f"{depth}:{n.id}")))
            for ch in self.tracked:
                if st.has(ch):
                    frozen.append((ch, st.get(ch)))
            return ("sym", expr, depth, tuple(sorted(set(frozen), key=lambda kv: kv[0])))
        return v

    def _sym(self, expr, st, depth):
        if isinstance(expr, ast.Name):
            v = self.value(expr, st, depth)
            if isinstance(v, tuple) and v and v[0] == "sym":
                for k, val in v[3]:
                    st = st.set(k, val)
                return v[1], v[2], st
        return None

    def decide_leaf(self, cond, st, depth):
        s = self._sym(cond, st, depth)
        if s is not None:
            old, self._depth = self._depth, s[1]
            try:
                return self.truth(s[0], s[2], s[1])
            finally:
                self._depth = old
        return ASpec.decide_leaf(self, cond, st, depth)

    def cond_event(self, expr, value, st):
        if isinstance(expr, ast.NamedExpr):
            expr = expr.target  # `if (x := f()):` was decided on x (already bound), record it as a test of x
        s = self._sym(expr, st, self._depth)
        if s is not None:
            node = s[0]
            while True:
                if isinstance(node, ast.UnaryOp) and isinstance(node.op, ast.Not):
                    node, value = node.operand, not value
                elif isinstance(node, ast.Call) and isinstance(node.func, ast.Name) and node.func.id == "bool" and len(node.args) == 1 and _boolish(node.args[0]):
                    node = node.args[0]
                else:
                    break
            old, self._depth = self._depth, s[1]
            try:
                return ASpec.cond_event(self, node, value, s[2])
            finally:
                self._depth = old
        return ASpec.cond_event(self, expr, value, st)

    def bind(self, target, value_expr, st, depth, value=None):
        if isinstance(target, (ast.Tuple, ast.List)) and isinstance(value_expr, (ast.Tuple, ast.List)) and len(target.elts) == len(value_expr.elts) \
                and not any(isinstance(e, ast.Starred) for e in list(target.elts) + list(value_expr.elts)):
            vals = [self.value(e, st, depth) for e in value_expr.elts]
            for t, e, v in zip(target.elts, value_expr.elts, vals):
                st = self.bind(t, e, st, depth, value=v)
            return st
        return ASpec.bind(self, target, value_expr, st, depth, value=value)


EVENT_ATOMS = {"DataReceived": "D", "ConnectionClosed": "CL", "HttpEvent": "H"}
H11_ATOMS = {"Data": "DATA", "EndOfMessage": "EOM"}


def _spec(prog, flow, scenario, cls=BASE, unroll=2, tracked=()):
    all_seg_names = set().union(*flow.seg_names.values()) if flow.seg_names else set()

    def simple(x):
        return isinstance(x, (ast.Name, ast.Attribute))

    def is_ev(x, st, sp):
        return isinstance(x, ast.Name) and sp.v(x, st)[0] == "param"

    def is_buf(x, st, sp):
        return simple(x) and sp.v(x, st) == RBUF

    def is_reader(x, st, sp):
        return simple(x) and sp.v(x, st) == RREADER

    def val(expr, st, sp):
        if isinstance(expr, ast.Name):
            if expr.id in all_seg_names and not st.has(f"{sp._depth}:{expr.id}"):
                fn = enclosing_func(expr)
                if fn is not None and expr.id in flow.seg_names.get(id(fn), ()):
                    return SEG  # a `match` capture of the segment bytes (the engine does not bind captures)
            return None
        if isinstance(expr, ast.Attribute):
            if expr.attr == "data" and is_ev(expr.value, st, sp):
                return SEG
            return None
        if isinstance(expr, ast.Call) and not expr.keywords:
            f = expr.func
            a = expr.args
            if isinstance(f, ast.Attribute):
                if is_buf(f.value, st, sp):
                    if f.attr == "maybe_extract_lines":
                        return HEAD
                    if f.attr == "maybe_extract_at_most":
                        return BUFV if len(a) == 1 and sp.v(a[0], st) == BUFLEN else ("bufpart",)
                if f.attr == "lstrip" and sp.v(f.value, st) == BUFV:
                    return BUFV
                if f.attr == "read_eof" and is_reader(f.value, st, sp):
                    return H11
            if is_reader(f, st, sp):
                return H11
            if isinstance(f, ast.Name) and len(a) == 1:
                if f.id == "len" and is_buf(a[0], st, sp):
                    return BUFLEN
                if f.id in ("bytes", "bytearray") and sp.v(a[0], st) == BUFV:
                    return BUFV
        if isinstance(expr, ast.BoolOp) and isinstance(expr.op, ast.Or) and len(expr.values) == 2 and sp.v(expr.values[0], st) == BUFV \
                and isinstance(expr.values[1], ast.Constant) and expr.values[1].value == b"":
            return BUFV
        return None

    def vtext(x, st, sp):
        """Canonical text of an assigned / passed value: what it denotes, not how it is spelled."""
        v = sp.v(x, st)
        if v in (BUFV, SEG):
            return v
        if isinstance(v, tuple) and len(v) == 2 and v[0] == "r":
            return v[1]
        if is_const(v):
            return repr(v[1])
        return norm(x)

    def evdesc(a, st, sp):
        if is_ev(a, st, sp):
            return "event"
        if isinstance(a, ast.Call):
            args = list(a.args)
            if last_attr(a.func) == "DataReceived" and a.keywords:  # dataclass fields: (connection, data)
                kw = {k.arg: k.value for k in a.keywords}
                for name in ("connection", "data")[len(args):]:
                    if name in kw:
                        args.append(kw[name])
            return (last_attr(a.func),) + tuple(vtext(x, st, sp) for x in args)
        return norm(a)

    def writes(node, st, sp):
        """[(target expression, value expression)] of an assignment statement, tuple assignments element-wise."""
        if isinstance(node, ast.Assign):
            out = []
            for t in node.targets:
                if isinstance(t, (ast.Tuple, ast.List)) and isinstance(node.value, (ast.Tuple, ast.List)) and len(t.elts) == len(node.value.elts):
                    out.extend(zip(t.elts, node.value.elts))
                else:
                    out.append((t, node.value))
            return out
        if isinstance(node, ast.AnnAssign) and node.value is not None:
            return [(node.target, node.value)]
        par = getattr(node, "_parent", None)
        if isinstance(par, ast.IfExp) and (node is par.body or node is par.orelse):
            # `self.x = a if c else b`: the engine forks on c and presents the chosen arm
            asg = getattr(par, "_parent", None)
            if isinstance(asg, ast.Assign) and asg.value is par and len(asg.targets) == 1:
                return [(asg.targets[0], node)]
        return []

    def set_event(t, v, st, sp):
        ch = attr_chain(t)
        if not ch.startswith("self.") or ch.count(".") != 1 or ch[5:] in prog.inert or attr_chain(v) == ch:
            return None  # not an attribute of the connection / nobody reads it / `self.x = self.x`
        if isinstance(v, ast.BinOp) and isinstance(v.op, (ast.Add, ast.Sub)):  # self.x = self.x + k  ==  self.x += k
            l, r = v.left, v.right
            if attr_chain(r) == ch and isinstance(v.op, ast.Add):
                l, r = r, l
            if attr_chain(l) == ch and is_const(sp.v(r, st)):
                return ("aug", ch, type(v.op).__name__, sp.v(r, st))
        return ("set", ch, vtext(v, st, sp))

    def label(node, st, sp):
        out = []
        for n in eval_order(node):
            if isinstance(n, ast.Call):
                f = n.func
                if isinstance(f, ast.Attribute) and is_buf(f.value, st, sp):
                    out.append(("buf", f.attr))
                elif is_reader(f, st, sp) and len(n.args) == 1 and not n.keywords and is_buf(n.args[0], st, sp):
                    out.append(("reader",))
                elif isinstance(f, ast.Attribute) and f.attr == "read_eof" and is_reader(f.value, st, sp):
                    out.append(("reader_eof",))
            elif isinstance(n, ast.Yield):
                v = n.value
                if isinstance(v, ast.Call):
                    if last_attr(v.func) == "Log":
                        continue  # a log line is not part of the flows / hook sequence / bytes on the wire
                    inner = last_attr(v.args[0].func) if v.args and isinstance(v.args[0], ast.Call) else ""
                    out.append(("yield", last_attr(v.func), inner))
                else:
                    out.append(("yield", norm(v) if v is not None else "", ""))
            elif isinstance(n, ast.YieldFrom) and isinstance(n.value, ast.Call):
                c = n.value
                ch = attr_chain(c.func)
                if isinstance(c.func, ast.Name) and isinstance(sp.v(c.func, st), tuple) and sp.v(c.func, st)[0] == "r":
                    ch = sp.v(c.func, st)[1]  # handler = self.state; yield from handler(event)
                if ch == "self.state" or (ch.startswith("self.") and ch[5:] in prog.targets):
                    out.append(("dispatch", ch, evdesc(c.args[0], st, sp) if len(c.args) == 1 and not c.keywords else "?"))
                elif isinstance(c.func, ast.Attribute) and isinstance(c.func.value, ast.Call) and last_attr(c.func.value.func) == "super":
                    out.append(("super", c.func.attr))
                elif ch:
                    out.append(("call", ch))
        for t, v in writes(node, st, sp):
            e = set_event(t, v, st, sp)
            if e is not None:
                out.append(e)
        if isinstance(node, ast.AugAssign):
            ch = attr_chain(node.target)
            if ch.startswith("self.") and ch[5:] not in prog.inert:
                v = sp.v(node.value, st)
                out.append(("aug", ch, type(node.op).__name__, v if (is_const(v) or v == SEG) else norm(node.value)))
        return out

    def atom(expr, st, sp):
        io = isinstance_names(expr)
        if io:
            subj, names = io
            table = None
            if is_ev(subj, st, sp):
                table = {n: EVENT_ATOMS.get(n, "isa:" + n) for n in names}
            elif isinstance(subj, ast.Name) and subj.id == "self" and set(names) <= {"Http1Server", "Http1Client"}:
                if len(set(names)) == 2:
                    return ("@T", True)
                return ("SRV", names[0] == "Http1Server")
            elif isinstance(subj, ast.Name) and sp.v(subj, st) == H11:
                table = {n: H11_ATOMS.get(n, "h11:" + n) for n in names}
            if table:
                atoms = sorted(set(table.values()))
                if len(atoms) == 1:
                    return (atoms[0], True)
                known = [sp.scenario.get(a) for a in atoms]  # isinstance(x, (A, B)) = A or B
                if any(k is True for k in known):
                    return ("@T", True)
                if all(k is False for k in known):
                    return ("@T", False)
                return ("|".join(atoms), True)
        for chain, name in (("self.request_done", "RQ"), ("self.response_done", "RS")):
            if chain in sp.tracked:
                continue
            p = truthiness_of(expr, lambda x, chain=chain: attr_chain(x) == chain)
            if p is not None:
                return (name, p)
        for want, name, flip in ((RBUF, "BUF", False), (HEAD, "HEAD", False), (BUFV, "BUFBYTES", False), (H11, "NONE", True)):
            p = truthiness_of(expr, lambda x, want=want: simple(x) and sp.v(x, st) == want)
            if p is not None:
                return (name, (not p) if flip else p)
        cp = compare_pair(expr, (ast.Is, ast.IsNot, ast.Eq, ast.NotEq))
        if cp:
            l, r, op = cp
            pos = isinstance(op, (ast.Is, ast.Eq))
            vals = {sp.v(l, st), sp.v(r, st)} if simple(l) and simple(r) else set()
            if vals == {R("self.state"), R("self.passthrough")}:
                return ("PT", pos)
            for a, b in ((l, r), (r, l)):
                if isinstance(a, ast.Attribute) and a.attr == "stream_id" and is_ev(a.value, st, sp) and simple(b) and sp.v(b, st) == R("self.stream_id"):
                    return ("SID", pos)
        return None

    def raises(stmt, st, sp, _depth=0):
        out = []
        for n in ast.walk(stmt):
            if isinstance(n, ast.Call):
                f = n.func
                if is_reader(f, st, sp) or (isinstance(f, ast.Attribute) and f.attr == "read_eof" and is_reader(f.value, st, sp)):
                    out.append("ProtocolError")
                    continue
                ch = attr_chain(f)
                if ch.startswith("http1.") and ("read_" in ch or "expected_http_body_size" in ch):
                    out.append("ValueError")
                    continue
                fn = resolver(n, st, sp) if _depth < 3 else None
                if fn is not None:  # what an inlined helper may raise reaches the caller's handlers too
                    for s2 in fn.body:
                        out.extend(raises(s2, st, sp, _depth + 1))
        return out

    def resolver(call, st, sp):
        c = prog.callee(call, sp.cls)
        if c is None:
            return None
        fn, is_method = c
        if is_method:
            return fn
        # module helper: of interest only when it is handed the buffer, the body reader or the event
        for a in list(call.args) + [k.value for k in call.keywords]:
            if is_buf(a, st, sp) or is_reader(a, st, sp) or is_ev(a, st, sp):
                return fn
        return None

    sc = dict(scenario)
    sc["@T"] = True
    sp = _Spec(label=label, atom=atom, scenario=sc, val=val, raises=raises, resolver=resolver, unroll=unroll, tracked=tracked, max_depth=4)
    sp.cls = cls
    sp.exc_parents = {"ProtocolError": "Exception", "RemoteProtocolError": "ProtocolError", "LocalProtocolError": "ProtocolError"}
    return sp


EFFECTS = ("yield", "set", "aug", "dispatch", "call", "super", "buf", "reader", "reader_eof")
SEG_APPEND = ("aug", "self.buf", "Add", SEG)


def check(ctx):
    ctx.rule("R02.1", "segment bytes (event.data) are only appended to self.buf before the state function runs, or relayed in passthrough")
    ctx.rule("R02.2", "read_headers consumes only via maybe_extract_lines, incomplete head = no effect, parsed head re-dispatches the same event; read_body returns only on None/EOM/error")
    ctx.rule("R02.3", "wait leaves pipelined bytes alone; keep-alive mark_done resets, advances stream_id, rebinds read_headers and re-dispatches buffered bytes; make_pipe forwards the buffer once")
    ctx.rule("R02.4", "Http1Server answers only the current stream and waits (no parsing) while the response is outstanding")
    ctx.trust("h11 ReceiveBuffer.maybe_extract_lines / body readers are incremental (return None until enough bytes arrived)")
    m = ctx.model
    targets = _state_targets(ctx)
    ctx.require({"read_headers", "read_body", "wait", "passthrough"} <= targets, f"state functions of Http1Connection changed: {sorted(targets)}")
    prog = _Program(ctx, targets)
    flow = _SegmentFlow(ctx, prog)
    if prog.inert:
        ctx.note("attributes written but never read (outside the alphabet): " + ", ".join(sorted(prog.inert)))

    def spec(scenario, **kw):
        return _spec(prog, flow, scenario, **kw)

    def run(fn, sp, ev=None, bindings=None, init_env=None):
        b = dict(bindings or {})
        if ev is not None:
            b[ev] = ("param", ev)
        traces, eng = run_block(fn.body, sp, b, init_env, depth_aware=True)
        ctx.paths += len(traces)
        return traces

    # ---------------- R02.1 who-may-read (dataflow of the segment bytes)
    roots = []
    for cls in CLASSES:
        for st in m.cls(F, cls).body:
            if isinstance(st, ast.FunctionDef) and (st.name in targets or st.name == "_handle_event") and params_of(st):
                ctx.func(F, f"{cls}.{st.name}")
                kind = "handle" if st.name == "_handle_event" else "pass" if st.name == "passthrough" else "state"
                roots.append((st, cls, params_of(st)[0], kind))
    n_append = n_relay = 0
    for fn, cls, p, kinds in flow.closure(roots).values():
        q = getattr(fn, "_qual", fn.name)
        for node, how in flow.reads(fn, p):
            if how == "attr" and _in_log_call(node):
                continue
            par = getattr(node, "_parent", None)
            shown = f"{p}.data" if how == "attr" else norm(node)
            if "state" in kinds:
                ok = False
                why = "a state function reads the bytes of the current segment instead of parsing from self.buf - the outcome depends on how the stream was cut"
            elif kinds == {"pass"}:
                ok = True
                why = ""
                n_relay += 1
            else:
                if how == "attr":
                    ok = flow.flows_into_buffer(node, fn, cls)
                elif how == "pattern":
                    ok = False
                else:
                    ok = flow._name_ok(fn, cls, how[1], set())
                why = "segment bytes are used for something other than `self.buf += event.data`"
                n_append += ok
            ctx.check(ok, "R02.1", (F, q, node), f"{shown} read in {fn.name}", why, desc=f"{q}: {norm(par) if isinstance(par, (ast.stmt, ast.expr)) else shown}")
    ctx.require(ctx.findings or (n_append >= 1 and n_relay >= 1), "expected the two known reads of event.data (_handle_event appends, passthrough relays)")
    he = ctx.func(F, "Http1Connection._handle_event")
    ev = params_of(he)[0]
    w = (F, "Http1Connection._handle_event", he)
    for PT in (False, True):
        traces = run(he, spec({"H": False, "D": True, "CL": False, "PT": PT}), ev)
        ctx.require(traces, "Http1Connection._handle_event: no path")
        for tr, how, _ in traces:
            toks = tuple(t for t in proj(tr, ("aug", "dispatch", "set", "buf")) if t[0] in ("dispatch", "buf") or t[1] in ("self.buf", "self.state"))
            run_state = ("dispatch", "self.state", "event")
            want_ok = toks == (SEG_APPEND, run_state) or (PT and toks == (run_state,))
            ctx.check(want_ok and how == "return", "R02.1", w, f"DataReceived, passthrough={PT}",
                      f"a received segment must be appended to self.buf (once) before the state function is run with the event; trace: {show(toks)}",
                      desc=f"_handle_event DataReceived passthrough={PT}: {show(toks)}")
    ctx.expect_instances("R02.1", 4)

    # ---------------- R02.2 read_headers
    for cls in ("Http1Server", "Http1Client"):
        fn = ctx.func(F, f"{cls}.read_headers")
        ev = params_of(fn)[0]
        w = (F, f"{cls}.read_headers", fn)
        traces = run(fn, spec({"D": True, "CL": False}, cls=cls), ev)
        n_incomplete = n_parsed = 0
        prob = {}
        for tr, how, _ in traces:
            eff = proj(tr, EFFECTS)
            bufops = [t for t in eff if t[0] in ("buf", "reader", "reader_eof")]
            head = [t for t in tr if t[0] == "cond" and t[1] == "HEAD"]
            if any(t != ("buf", "maybe_extract_lines") for t in bufops) or len(bufops) > 1:
                prob.setdefault("buffer consumer", (f"the head is taken from self.buf by something other than one maybe_extract_lines(): {bufops}", eff))
                continue
            if not head:
                if bufops:
                    prob.setdefault("head test", ("the result of maybe_extract_lines() is not tested", eff))
                continue
            if head[-1][2] is False:
                n_incomplete += 1
                rest = [t for t in eff if t not in bufops]
                if rest:
                    prob.setdefault("incomplete head", ("an incomplete head (maybe_extract_lines() returned nothing) must leave the machine untouched, "
                                                        f"but the path has effects {show(rest)} - the outcome would depend on where the head was cut", eff))
            else:
                if any(t[0] == "caught" for t in tr):
                    continue  # parse error path: connection is closed, nothing more is read
                n_parsed += 1
                tail = [t for t in eff if t[0] in ("set", "dispatch") and (t[0] == "dispatch" or t[1] == "self.state")][-2:]
                if how != "return" or tail != [("set", "self.state", "self.read_body"), ("dispatch", tail[-1][1] if tail else "", "event")] or tail[-1][1] not in ("self.state", "self.read_body"):
                    prob.setdefault("re-dispatch after head", ("after a head was parsed the machine must switch to read_body and run it with the same event "
                                                               f"(body bytes of the same segment), saw {show(tail)}", eff))
        for cons, (why, eff) in prob.items():
            ctx.fail("R02.2", w, cons, f"{why}; trace: {show(eff)}")
        ctx.require(prob or (n_incomplete >= 1 and n_parsed >= 1), f"{cls}.read_headers: incomplete/parsed head paths not found ({n_incomplete}/{n_parsed})")
        if not prob:
            ctx.ok("R02.2", f"{cls}.read_headers: {n_incomplete} incomplete-head paths without effect, {n_parsed} parsed-head paths re-dispatch into read_body")
    rb = ctx.func(F, "Http1Connection.read_body")
    ev = params_of(rb)[0]
    w = (F, "Http1Connection.read_body", rb)
    traces = run(rb, spec({"D": True, "CL": False}), ev)
    n_ret = 0
    bad = None
    for tr, how, _ in traces:
        if how != "return":
            continue
        n_ret += 1
        idx = [i for i, t in enumerate(tr) if t[0] == "reader"]
        if not idx:
            if not any(t[0] == "caught" for t in tr):  # (an exception edge leaves the reader call before its event is recorded)
                bad = ("body reader", "read_body returns without asking the body reader", tr)
            continue
        after = tr[idx[-1] + 1 :]
        if any(t[0] in ("buf",) for t in tr):
            bad = ("body reader", "read_body consumes self.buf other than through the body reader", tr)
        conds = {(t[1], t[2]) for t in after if t[0] == "cond"}
        if not (("NONE", True) in conds or ("EOM", True) in conds or any(t[0] == "caught" for t in after)):
            bad = ("loop until None", "read_body returns although the reader did not say need-more-data / end-of-message / error - the rest of the segment "
                   "(further chunks, the end of message) would only be parsed when the next segment arrives", tr)
    ctx.require(n_ret >= 3, "Http1Connection.read_body: expected return paths for None / EndOfMessage / ProtocolError")
    ctx.check(bad is None, "R02.2", w, bad[0] if bad else "read_body loop", f"{bad[1]}; trace: {show(proj(bad[2], EFFECTS + ('cond', 'caught')))}" if bad else "",
              desc=f"read_body: {n_ret} return paths, all after None / EndOfMessage / ProtocolError")
    ctx.expect_instances("R02.2", 3)

    # ---------------- R02.3 wait / mark_done / make_pipe
    wt = ctx.func(F, "Http1Connection.wait")
    ev = params_of(wt)[0]
    traces = run(wt, spec({"D": True, "CL": False}), ev)
    ctx.require(traces, "Http1Connection.wait: no path")
    bad = [proj(tr, EFFECTS) for tr, how, _ in traces if proj(tr, EFFECTS) or how != "return"]
    ctx.check(not bad, "R02.3", (F, "Http1Connection.wait", wt), "wait(DataReceived)",
              f"while waiting for the current flow, received bytes must stay in self.buf untouched (no parsing, no effect); saw {show(bad[0]) if bad else ''}",
              desc=f"wait(DataReceived): no effect on {len(traces)} paths")

    md = ctx.func(F, "Http1Connection.mark_done")
    wmd = (F, "Http1Connection.mark_done", md)
    kw = [a.arg for a in md.args.kwonlyargs] + [a.arg for a in md.args.args[1:]]
    ctx.require(set(kw) == {"request", "response"}, "Http1Connection.mark_done signature changed")
    tracked = ("self.request_done", "self.response_done")
    traces = run(md, spec({}, tracked=tracked), None, {"request": C(False), "response": C(True)}, {"self.request_done": C(True), "self.response_done": C(False)})
    n_keep = 0
    prob = {}
    for tr, how, s in traces:
        eff = proj(tr, EFFECTS)
        if how != "return":
            continue
        if any(t[0] == "call" and t[1] == "self.make_pipe" for t in eff) or any(t[0] == "yield" and t[1].startswith("Close") for t in eff):
            continue
        n_keep += 1
        if s.get("self.request_done") != C(False) or s.get("self.response_done") != C(False):
            prob.setdefault("reset done flags", ("request_done / response_done are not both reset to False - the next message on this connection would be considered done at once", eff))
        srv = [t[2] for t in tr if t[0] == "cond" and t[1] == "SRV"]
        sid = [t for t in eff if t[0] in ("set", "aug") and t[1] == "self.stream_id"]
        if not srv:
            prob.setdefault("stream_id", ("keep-alive path does not distinguish server/client when advancing stream_id", eff))
        elif srv[-1]:
            if not (len(sid) == 1 and sid[0][0] == "aug" and sid[0][2] == "Add" and sid[0][3] == C(2)):
                prob.setdefault("stream_id", (f"the server's stream_id must advance by 2 per request (saw {sid})", eff))
        elif not (len(sid) == 1 and sid[0] == ("set", "self.stream_id", "None")):
            prob.setdefault("stream_id", (f"the client's stream_id must be cleared so that the next request's id is adopted (saw {sid})", eff))
        sets = [i for i, t in enumerate(eff) if t[0] == "set" and t[1] == "self.state"]
        if not sets or eff[sets[-1]][2] != "self.read_headers":
            prob.setdefault("state", ("state is not rebound to read_headers for the next message", eff))
            continue
        disp = [t for t in eff[sets[-1] + 1 :] if t[0] == "dispatch"]
        bufc = [t[2] for t in tr if t[0] == "cond" and t[1] == "BUF"]
        if disp:
            d = disp[0]
            if len(disp) != 1 or d[1] not in ("self.state", "self.read_headers") or not (isinstance(d[2], tuple) and len(d[2]) >= 2 and d[2][0] == "DataReceived" and d[2][1] == "self.conn"):
                prob.setdefault("re-dispatch", (f"buffered bytes must be re-dispatched once as DataReceived(self.conn, ...) to read_headers (saw {disp})", eff))
        elif not bufc or bufc[-1] is not False:
            prob.setdefault("re-dispatch", ("bytes of the next (pipelined) message that are already in self.buf are not re-dispatched after the current message "
                                            "finished - they would only be parsed when another segment arrives", eff))
    for cons, (why, eff) in prob.items():
        ctx.fail("R02.3", wmd, f"keep-alive: {cons}", f"{why}; trace: {show(eff)}")
    ctx.require(n_keep >= 2 or prob, "Http1Connection.mark_done: keep-alive paths (server and client) not found")
    if not prob:
        ctx.ok("R02.3", f"mark_done keep-alive: {n_keep} paths reset, advance stream_id, rebind read_headers, re-dispatch iff self.buf")

    mp = ctx.func(F, "Http1Connection.make_pipe")
    wmp = (F, "Http1Connection.make_pipe", mp)
    traces = run(mp, spec({"BUF": True, "BUFBYTES": True}))
    ctx.require(traces, "Http1Connection.make_pipe: no path")
    bad = None
    for tr, how, _ in traces:
        eff = proj(tr, EFFECTS)
        want = (("set", "self.state", "self.passthrough"), ("buf", "maybe_extract_at_most"))
        disp = [t for t in eff if t[0] == "dispatch"]
        ok = how == "return" and eff[:2] == want and len(eff) == 3 and len(disp) == 1 and disp[0][1] in ("self.state", "self.passthrough") \
            and isinstance(disp[0][2], tuple) and disp[0][2] == ("DataReceived", "self.conn", BUFV)
        if not ok:
            bad = eff
    ctx.check(bad is None, "R02.3", wmp, "make_pipe forwards remaining buffer",
              f"bytes that followed the CONNECT/upgrade head in the same segment must be taken out of self.buf completely and relayed once, after switching to passthrough; saw {show(bad) if bad else ''}",
              desc="make_pipe: state := passthrough, whole buffer extracted, relayed once")
    ctx.expect_instances("R02.3", 3)

    # ---------------- R02.4 server answers the current stream only / waits
    sd = ctx.func(F, "Http1Server.send")
    ev = params_of(sd)[0]
    traces = run(sd, spec({}, cls="Http1Server"), ev)
    n_send = 0
    bad = None
    for tr, how, _ in traces:
        ok = False
        for t in tr:
            if t[0] == "cond" and t[1] == "SID":
                ok = t[2] is True
            if t[0] == "yield" and t[1] == "SendData":
                n_send += 1
                if not ok:
                    bad = tr
    ctx.require(n_send >= 3, "Http1Server.send: SendData paths not found")
    ctx.check(bad is None, "R02.4", (F, "Http1Server.send", sd), "stream_id check before SendData",
              "response bytes are written although event.stream_id was not checked against the request currently being served",
              desc=f"Http1Server.send: {n_send} SendData path-sites all after event.stream_id == self.stream_id")
    smd = ctx.func(F, "Http1Server.mark_done")
    wsm = (F, "Http1Server.mark_done", smd)
    for RQ in (True, False):
        for RS in (True, False):
            traces = run(smd, spec({"RQ": RQ, "RS": RS, "SRV": True}, cls="Http1Server"))
            ctx.cells += 1
            ctx.require(traces, "Http1Server.mark_done: no path")
            for tr, how, _ in traces:
                eff = proj(tr, EFFECTS)
                sup = [i for i, t in enumerate(eff) if t == ("super", "mark_done")]
                after = [t for t in (eff[sup[0] + 1 :] if sup else eff) if t[0] == "set" and t[1] == "self.state"]
                want = [("set", "self.state", "self.wait")] if (RQ and not RS) else []
                ctx.check(len(sup) == 1 and after == want and how == "return", "R02.4", wsm, f"request_done={RQ} response_done={RS}",
                          ("the server must stop parsing (state := wait) while the response to the current request is outstanding" if want else
                           "the server must not park in `wait` unless the request is done and the response is not") + f"; trace: {show(eff)}",
                          desc=f"Http1Server.mark_done request_done={RQ} response_done={RS}: {show(want) or 'state untouched'}")
    ctx.expect_instances("R02.4", 5)


MUTANTS = [
    # R02.1
    Mutant("read-headers-peeks-segment", F, "            request_head = self.buf.maybe_extract_lines()\n            if request_head:",
           "            request_head = self.buf.maybe_extract_lines() if b\"\\r\\n\\r\\n\" in event.data else None\n            if request_head:", "R02.1"),
    Mutant("body-from-segment", F, "                    h11_event = self.body_reader(self.buf)", "                    h11_event = self.body_reader(ReceiveBuffer() + event.data)", "R02.1"),
    Mutant("append-after-dispatch", F, "                self.buf += event.data\n            yield from self.state(event)", "                yield from self.state(event)\n                self.buf += event.data\n                return\n            yield from self.state(event)", "R02.1"),
    # R02.2
    Mutant("incomplete-head-changes-state", F, "                yield from self.state(event)\n            else:\n                pass  # FIXME: protect against header size DoS\n        elif isinstance(event, events.ConnectionClosed):\n            buf = bytes(self.buf)",
           "                yield from self.state(event)\n            else:\n                self.state = self.done\n        elif isinstance(event, events.ConnectionClosed):\n            buf = bytes(self.buf)", "R02.2"),
    Mutant("server-no-redispatch-after-head", F, "                self.body_reader = make_body_reader(expected_body_size)\n                self.state = self.read_body\n                yield from self.state(event)\n",
           "                self.body_reader = make_body_reader(expected_body_size)\n                self.state = self.read_body\n", "R02.2"),
    Mutant("client-head-at-most", F, "            response_head = self.buf.maybe_extract_lines()", "            response_head = self.buf.maybe_extract_at_most(4096)", "R02.2"),
    Mutant("read-body-returns-after-data", F, "                if data:\n                    yield ReceiveHttp(self.ReceiveData(self.stream_id, data))\n",
           "                if data:\n                    yield ReceiveHttp(self.ReceiveData(self.stream_id, data))\n                return\n", "R02.2"),
    # R02.3
    Mutant("wait-parses", F, "        if isinstance(event, events.DataReceived):\n            return\n        elif isinstance(event, events.ConnectionClosed):\n            # for practical",
           "        if isinstance(event, events.DataReceived):\n            self.buf.maybe_extract_lines()\n            return\n        elif isinstance(event, events.ConnectionClosed):\n            # for practical", "R02.3"),
    Mutant("no-redispatch-of-pipelined", F, "            self.state = self.read_headers\n            if self.buf:\n                yield from self.state(events.DataReceived(self.conn, b\"\"))\n",
           "            self.state = self.read_headers\n", "R02.3"),
    Mutant("redispatch-before-rebind", F, "            self.state = self.read_headers\n            if self.buf:\n                yield from self.state(events.DataReceived(self.conn, b\"\"))\n",
           "            if self.buf:\n                yield from self.state(events.DataReceived(self.conn, b\"\"))\n            self.state = self.read_headers\n", "R02.3"),
    Mutant("done-flags-not-reset", F, "            self.request_done = self.response_done = False\n", "            self.response_done = False\n", "R02.3"),
    Mutant("stream-id-not-advanced", F, "                self.stream_id += 2\n", "                pass\n", "R02.3"),
    Mutant("pipe-forwards-part", F, "self.buf.maybe_extract_at_most(len(self.buf))", "self.buf.maybe_extract_at_most(1024)", "R02.3"),
    # R02.4
    Mutant("server-send-unchecked", F, "        assert event.stream_id == self.stream_id\n        if isinstance(event, ResponseHeaders):\n            self.response = response = event.response",
           "        if isinstance(event, ResponseHeaders):\n            self.response = response = event.response", "R02.4"),
    Mutant("server-never-waits", F, "        if self.request_done and not self.response_done:\n            self.state = self.wait", "        if self.request_done and self.response_done:\n            self.state = self.wait", "R02.4"),
]
