"""C02 - HTTP/1 behaviour does not depend on TCP segmentation or pipelining (buffer discipline of _http1.py).

Decided (who-may-read + path enumeration with scenario-decided atoms over Http1Connection / Http1Server / Http1Client):
  R02.1 the bytes of a received segment (`event.data` of the connection event) are read only by
        Http1Connection._handle_event - appended to self.buf BEFORE the state function runs, on every path where
        the event is a DataReceived and the connection is not in passthrough - and by `passthrough`; no state
        function looks at a segment.
  R02.2 read_headers (server and client) on DataReceived: the only consumer of self.buf is maybe_extract_lines();
        when it returns nothing, nothing is yielded / assigned / consumed (an incomplete head leaves the machine
        untouched); when a head was parsed the machine switches to read_body and re-dispatches the SAME event, so
        body bytes that arrived in the same segment are parsed now.  read_body only returns after the reader said
        "need more data" (None), after end-of-message, or after a protocol error - never after a Data event.
  R02.3 wait() on DataReceived yields / assigns / consumes nothing (pipelined bytes stay in self.buf);
        mark_done on the keep-alive path resets request_done/response_done, advances stream_id (server += 2, client
        := None), rebinds state to read_headers and re-dispatches a DataReceived when self.buf is non-empty;
        make_pipe switches to passthrough first and forwards the whole remaining buffer exactly once.
  R02.4 Http1Server.send writes to the client only after checking event.stream_id == self.stream_id;
        Http1Server.mark_done parks the connection in `wait` exactly when the request is done and the response is
        not (decision table) so the next pipelined request is parsed only after the current flow finished.
NOT decided: equality of outcomes over all splits (needs execution); h11's ReceiveBuffer / readers are trusted to be
incremental. Resetting self.request/self.response on keep-alive is not demanded (not a segmentation question).
"""

from __future__ import annotations

import ast

from ..core import AnalysisError
from ..core import norm
from ..model import attr_chain
from ..model import eval_order
from ..model import last_attr
from ..model import walk_in_order
from ..paths import C
from ..selftest import Mutant
from ._helpers_A import ASpec
from ._helpers_A import compare_pair
from ._helpers_A import is_self_call
from ._helpers_A import isinstance_of
from ._helpers_A import method_call_on
from ._helpers_A import params_of
from ._helpers_A import proj
from ._helpers_A import run_block
from ._helpers_A import show
from ._helpers_A import truthiness_atom

PROP = "C02"
REG = {
    "strength": "partial",
    "technique": "who-may-read of segment bytes + CFG path enumeration with scenario-decided atoms (buffer discipline, decision table)",
    "claim": "In _http1.py segment bytes are only appended to self.buf (before the state function runs) or relayed in passthrough; heads are "
    "taken only by maybe_extract_lines and an incomplete head changes nothing; a parsed head re-dispatches the same event into read_body, "
    "which returns only on need-more-data / end-of-message / error; wait() leaves pipelined bytes alone; keep-alive mark_done resets, advances "
    "stream_id, and re-dispatches buffered bytes; make_pipe forwards the remaining buffer once; the server only answers the current stream.",
    "note": "h11 ReceiveBuffer/readers trusted to be incremental; loops unrolled twice.",
}

F = "mitmproxy/proxy/layers/http/_http1.py"
CLASSES = ("Http1Connection", "Http1Server", "Http1Client")
HEAD = ("head",)
BUFV = ("bufbytes",)


def _state_targets(ctx):
    """Names of methods that are ever bound to ``self.state`` / class attribute ``state`` in the module."""
    out = set()
    mod = ctx.model.module(F)
    for n in ast.walk(mod.tree):
        if isinstance(n, ast.Assign):
            for t in n.targets:
                if attr_chain(t) == "self.state":
                    ch = attr_chain(n.value)
                    ctx.require(ch.startswith("self.") and ch.count(".") == 1, f"self.state is bound to something that is not a method: {norm(n)}")
                    out.add(ch[5:])
                elif isinstance(t, ast.Name) and t.id == "state" and isinstance(getattr(n, "_parent", None), ast.ClassDef):
                    ctx.require(isinstance(n.value, ast.Name), f"class attribute state is not a method name: {norm(n)}")
                    out.add(n.value.id)
    return out


def _spec(ev, scenario, unroll=2, tracked=()):
    def val(expr, st, sp):
        if isinstance(expr, ast.Call):
            m = method_call_on(expr, "self.buf")
            if m == "maybe_extract_lines":
                return HEAD
            if m == "maybe_extract_at_most":
                a = expr.args
                if len(a) == 1 and isinstance(a[0], ast.Call) and isinstance(a[0].func, ast.Name) and a[0].func.id == "len" and attr_chain(a[0].args[0]) == "self.buf":
                    return BUFV
                return ("bufpart",)
            if isinstance(expr.func, ast.Attribute) and expr.func.attr in ("lstrip",) and sp.v(expr.func.value, st) == BUFV:
                return BUFV
            if attr_chain(expr.func) == "self.body_reader" or attr_chain(expr.func) == "self.body_reader.read_eof":
                return ("h11ev",)
        if isinstance(expr, ast.BoolOp) and isinstance(expr.op, ast.Or) and len(expr.values) == 2 and sp.v(expr.values[0], st) == BUFV \
                and isinstance(expr.values[1], ast.Constant) and expr.values[1].value == b"":
            return BUFV
        return None

    def evdesc(a, st, sp):
        if isinstance(a, ast.Name) and a.id == ev:
            return "event"
        if isinstance(a, ast.Call):
            return (last_attr(a.func),) + tuple(sp.v(x, st) if sp.v(x, st) == BUFV else norm(x) for x in a.args)
        return norm(a)

    def label(node, st, sp):
        out = []
        for n in eval_order(node):
            if isinstance(n, ast.Call):
                m = method_call_on(n, "self.buf")
                if m:
                    out.append(("buf", m))
                elif attr_chain(n.func) == "self.body_reader" and len(n.args) == 1 and attr_chain(n.args[0]) == "self.buf":
                    out.append(("reader",))
                elif attr_chain(n.func) == "self.body_reader.read_eof":
                    out.append(("reader_eof",))
            elif isinstance(n, ast.Yield):
                v = n.value
                if isinstance(v, ast.Call):
                    inner = last_attr(v.args[0].func) if v.args and isinstance(v.args[0], ast.Call) else ""
                    out.append(("yield", last_attr(v.func), inner))
                else:
                    out.append(("yield", norm(v) if v is not None else "", ""))
            elif isinstance(n, ast.YieldFrom) and isinstance(n.value, ast.Call):
                c = n.value
                ch = attr_chain(c.func)
                if ch == "self.state" or (ch.startswith("self.") and ch[5:] in sp.state_targets):
                    out.append(("dispatch", ch, evdesc(c.args[0], st, sp) if len(c.args) == 1 else "?"))
                elif isinstance(c.func, ast.Attribute) and isinstance(c.func.value, ast.Call) and last_attr(c.func.value.func) == "super":
                    out.append(("super", c.func.attr))
                elif ch:
                    out.append(("call", ch))
        if isinstance(node, ast.Assign):
            for t in node.targets:
                ch = attr_chain(t)
                if ch.startswith("self."):
                    out.append(("set", ch, norm(node.value)))
        elif isinstance(node, ast.AugAssign):
            ch = attr_chain(node.target)
            if ch.startswith("self."):
                out.append(("aug", ch, type(node.op).__name__, sp.v(node.value, st) if sp.v(node.value, st)[0] == "c" else norm(node.value)))
        elif isinstance(node, ast.AnnAssign) and node.value is not None and attr_chain(node.target).startswith("self."):
            out.append(("set", attr_chain(node.target), norm(node.value)))
        return out

    def atom(expr, st, sp):
        io = isinstance_of(expr)
        if io:
            subj, names = io
            if isinstance(subj, ast.Name) and subj.id == ev and len(names) == 1:
                return ({"DataReceived": "D", "ConnectionClosed": "CL", "HttpEvent": "H"}.get(names[0], "isa:" + names[0]), True)
            if isinstance(subj, ast.Name) and subj.id == "self" and names == ["Http1Server"]:
                return ("SRV", True)
            if sp.v(subj, st) == ("h11ev",) and len(names) == 1:
                return ({"Data": "DATA", "EndOfMessage": "EOM"}.get(names[0], "h11:" + names[0]), True)
        for chain, name in (("self.buf", "BUF"), ("self.request_done", "RQ"), ("self.response_done", "RS")):
            if name in ("RQ", "RS") and chain in sp.tracked:
                continue
            p = truthiness_atom(expr, chain)
            if p is not None:
                return (name, p)
        # locals holding the extracted head / the h11 event
        if isinstance(expr, ast.Name):
            v = sp.v(expr, st)
            if v == HEAD:
                return ("HEAD", True)
            if v == BUFV:
                return ("BUFBYTES", True)
        cp = compare_pair(expr, (ast.Is, ast.IsNot, ast.Eq, ast.NotEq))
        if cp:
            l, r, op = cp
            pos = isinstance(op, (ast.Is, ast.Eq))
            if isinstance(r, ast.Constant) and r.value is None and isinstance(l, ast.Name):
                v = sp.v(l, st)
                if v == HEAD:
                    return ("HEAD", not pos)
                if v == ("h11ev",):
                    return ("NONE", pos)
            chains = {attr_chain(l), attr_chain(r)}
            if chains == {"self.state", "self.passthrough"}:
                return ("PT", pos)
            if chains == {ev + ".stream_id", "self.stream_id"}:
                return ("SID", pos)
        return None

    def raises(stmt, st, sp):
        out = []
        for n in ast.walk(stmt):
            if isinstance(n, ast.Call):
                ch = attr_chain(n.func)
                if ch in ("self.body_reader", "self.body_reader.read_eof"):
                    out.append("ProtocolError")
                if ch.startswith("http1.") and ("read_" in ch or "expected_http_body_size" in ch):
                    out.append("ValueError")
        return out

    sp = ASpec(label=label, atom=atom, scenario=scenario, val=val, raises=raises, unroll=unroll, tracked=tracked)
    sp.exc_parents = {"ProtocolError": "Exception", "RemoteProtocolError": "ProtocolError", "LocalProtocolError": "ProtocolError"}
    return sp


EFFECTS = ("yield", "set", "aug", "dispatch", "call", "super", "buf", "reader", "reader_eof")


def check(ctx):
    ctx.rule("R02.1", "segment bytes (event.data) are only appended to self.buf before the state function runs, or relayed in passthrough")
    ctx.rule("R02.2", "read_headers consumes only via maybe_extract_lines, incomplete head = no effect, parsed head re-dispatches the same event; read_body returns only on None/EOM/error")
    ctx.rule("R02.3", "wait leaves pipelined bytes alone; keep-alive mark_done resets, advances stream_id, rebinds read_headers and re-dispatches buffered bytes; make_pipe forwards the buffer once")
    ctx.rule("R02.4", "Http1Server answers only the current stream and waits (no parsing) while the response is outstanding")
    ctx.trust("h11 ReceiveBuffer.maybe_extract_lines / body readers are incremental (return None until enough bytes arrived)")
    m = ctx.model
    targets = _state_targets(ctx)
    ctx.require({"read_headers", "read_body", "wait", "passthrough"} <= targets, f"state functions of Http1Connection changed: {sorted(targets)}")

    def spec(ev, scenario, **kw):
        sp = _spec(ev, scenario, **kw)
        sp.state_targets = targets
        return sp

    # ---------------- R02.1 who-may-read
    reads = 0
    for cls in CLASSES:
        for st in m.cls(F, cls).body:
            if not isinstance(st, ast.FunctionDef) or not (st.name in targets or st.name == "_handle_event"):
                continue
            ps = params_of(st)
            if not ps:
                continue
            ev = ps[0]
            q = f"{cls}.{st.name}"
            ctx.func(F, q)
            for n in walk_in_order(st):
                if isinstance(n, ast.Attribute) and n.attr == "data" and isinstance(n.value, ast.Name) and n.value.id == ev:
                    reads += 1
                    par = getattr(n, "_parent", None)
                    if st.name == "_handle_event":
                        ok = isinstance(par, ast.AugAssign) and isinstance(par.op, ast.Add) and attr_chain(par.target) == "self.buf" and par.value is n
                        why = "segment bytes are used for something other than `self.buf += event.data`"
                    else:
                        ok = st.name == "passthrough"
                        why = "a state function reads the bytes of the current segment instead of parsing from self.buf - the outcome depends on how the stream was cut"
                    ctx.check(ok, "R02.1", (F, q, n), f"{ev}.data read in {st.name}", why, desc=f"{q}: {norm(par) if par is not None else ''}")
                elif isinstance(n, ast.Call) and isinstance(n.func, ast.Name) and n.func.id in ("getattr", "vars") and n.args and isinstance(n.args[0], ast.Name) and n.args[0].id == ev:
                    raise AnalysisError(f"{q}: reflective access to the event ({norm(n)}) is not modelled")
    ctx.require(reads >= 2, "expected the two known reads of event.data (_handle_event, passthrough)")
    he = ctx.func(F, "Http1Connection._handle_event")
    ev = params_of(he)[0]
    w = (F, "Http1Connection._handle_event", he)
    for PT in (False, True):
        sc = {"H": False, "D": True, "CL": False, "PT": PT}
        traces, _ = run_block(he.body, spec(ev, sc), {ev: ("param", ev)})
        ctx.paths += len(traces)
        ctx.require(traces, "Http1Connection._handle_event: no path")
        for tr, how, _ in traces:
            toks = proj(tr, ("aug", "dispatch", "set", "buf"))
            if PT:
                want_ok = toks in ((("dispatch", "self.state", "event"),), (("aug", "self.buf", "Add", f"{ev}.data"), ("dispatch", "self.state", "event")))
            else:
                want_ok = toks == (("aug", "self.buf", "Add", f"{ev}.data"), ("dispatch", "self.state", "event"))
            ctx.check(want_ok and how == "return", "R02.1", w, f"DataReceived, passthrough={PT}",
                      f"a received segment must be appended to self.buf (once) before the state function is run with the event; trace: {show(toks)}",
                      desc=f"_handle_event DataReceived passthrough={PT}: {show(toks)}")
    ctx.expect_instances("R02.1", 4)

    # ---------------- R02.2 read_headers
    for cls in ("Http1Server", "Http1Client"):
        fn = ctx.func(F, f"{cls}.read_headers")
        ev = params_of(fn)[0]
        w = (F, f"{cls}.read_headers", fn)
        traces, _ = run_block(fn.body, spec(ev, {"D": True, "CL": False}), {ev: ("param", ev)})
        ctx.paths += len(traces)
        n_incomplete = n_parsed = 0
        prob = {}
        for tr, how, _ in traces:
            eff = proj(tr, EFFECTS)
            bufops = [t for t in eff if t[0] in ("buf", "reader", "reader_eof")]
            head = [t for t in tr if t[0] == "cond" and t[1] == "HEAD"]
            if any(t != ("buf", "maybe_extract_lines") for t in bufops) or len(bufops) > 1:
                prob.setdefault("buffer consumer", (f"the head is taken from self.buf by something other than one maybe_extract_lines(): {bufops}", eff))
                continue
            if not head:
                if bufops:
                    prob.setdefault("head test", ("the result of maybe_extract_lines() is not tested", eff))
                continue
            if head[-1][2] is False:
                n_incomplete += 1
                rest = [t for t in eff if t not in bufops]
                if rest:
                    prob.setdefault("incomplete head", ("an incomplete head (maybe_extract_lines() returned nothing) must leave the machine untouched, "
                                                        f"but the path has effects {show(rest)} - the outcome would depend on where the head was cut", eff))
            else:
                if any(t[0] == "caught" for t in tr):
                    continue  # parse error path: connection is closed, nothing more is read
                n_parsed += 1
                tail = [t for t in eff if t[0] in ("set", "dispatch") and (t[0] == "dispatch" or t[1] == "self.state")][-2:]
                if how != "return" or tail != [("set", "self.state", "self.read_body"), ("dispatch", tail[-1][1] if tail else "", "event")] or tail[-1][1] not in ("self.state", "self.read_body"):
                    prob.setdefault("re-dispatch after head", ("after a head was parsed the machine must switch to read_body and run it with the same event "
                                                               f"(body bytes of the same segment), saw {show(tail)}", eff))
        for cons, (why, eff) in prob.items():
            ctx.fail("R02.2", w, cons, f"{why}; trace: {show(eff)}")
        ctx.require(prob or (n_incomplete >= 1 and n_parsed >= 1), f"{cls}.read_headers: incomplete/parsed head paths not found ({n_incomplete}/{n_parsed})")
        if not prob:
            ctx.ok("R02.2", f"{cls}.read_headers: {n_incomplete} incomplete-head paths without effect, {n_parsed} parsed-head paths re-dispatch into read_body")
    rb = ctx.func(F, "Http1Connection.read_body")
    ev = params_of(rb)[0]
    w = (F, "Http1Connection.read_body", rb)
    traces, _ = run_block(rb.body, spec(ev, {"D": True, "CL": False}), {ev: ("param", ev)})
    ctx.paths += len(traces)
    n_ret = 0
    bad = None
    for tr, how, _ in traces:
        if how != "return":
            continue
        n_ret += 1
        idx = [i for i, t in enumerate(tr) if t[0] == "reader"]
        if not idx:
            if not any(t[0] == "caught" for t in tr):  # (an exception edge leaves the reader call before its event is recorded)
                bad = ("body reader", "read_body returns without asking the body reader", tr)
            continue
        after = tr[idx[-1] + 1 :]
        if any(t[0] in ("buf",) for t in tr):
            bad = ("body reader", "read_body consumes self.buf other than through the body reader", tr)
        conds = {(t[1], t[2]) for t in after if t[0] == "cond"}
        if not (("NONE", True) in conds or ("EOM", True) in conds or any(t[0] == "caught" for t in after)):
            bad = ("loop until None", "read_body returns although the reader did not say need-more-data / end-of-message / error - the rest of the segment "
                   "(further chunks, the end of message) would only be parsed when the next segment arrives", tr)
    ctx.require(n_ret >= 3, "Http1Connection.read_body: expected return paths for None / EndOfMessage / ProtocolError")
    ctx.check(bad is None, "R02.2", w, bad[0] if bad else "read_body loop", f"{bad[1]}; trace: {show(proj(bad[2], EFFECTS + ('cond', 'caught')))}" if bad else "",
              desc=f"read_body: {n_ret} return paths, all after None / EndOfMessage / ProtocolError")
    ctx.expect_instances("R02.2", 3)

    # ---------------- R02.3 wait / mark_done / make_pipe
    wt = ctx.func(F, "Http1Connection.wait")
    ev = params_of(wt)[0]
    traces, _ = run_block(wt.body, spec(ev, {"D": True, "CL": False}), {ev: ("param", ev)})
    ctx.paths += len(traces)
    ctx.require(traces, "Http1Connection.wait: no path")
    bad = [proj(tr, EFFECTS) for tr, how, _ in traces if proj(tr, EFFECTS) or how != "return"]
    ctx.check(not bad, "R02.3", (F, "Http1Connection.wait", wt), "wait(DataReceived)",
              f"while waiting for the current flow, received bytes must stay in self.buf untouched (no parsing, no effect); saw {show(bad[0]) if bad else ''}",
              desc=f"wait(DataReceived): no effect on {len(traces)} paths")

    md = ctx.func(F, "Http1Connection.mark_done")
    wmd = (F, "Http1Connection.mark_done", md)
    kw = [a.arg for a in md.args.kwonlyargs] + [a.arg for a in md.args.args[1:]]
    ctx.require(set(kw) == {"request", "response"}, "Http1Connection.mark_done signature changed")
    tracked = ("self.request_done", "self.response_done")
    traces, _ = run_block(md.body, spec("_", {}, tracked=tracked), {"request": C(False), "response": C(True)}, {"self.request_done": C(True), "self.response_done": C(False)})
    ctx.paths += len(traces)
    n_keep = 0
    prob = {}
    for tr, how, s in traces:
        eff = proj(tr, EFFECTS)
        if how != "return":
            continue
        if any(t[0] == "call" and t[1] == "self.make_pipe" for t in eff) or any(t[0] == "yield" and t[1].startswith("Close") for t in eff):
            continue
        n_keep += 1
        if s.get("self.request_done") != C(False) or s.get("self.response_done") != C(False):
            prob.setdefault("reset done flags", ("request_done / response_done are not both reset to False - the next message on this connection would be considered done at once", eff))
        srv = [t[2] for t in tr if t[0] == "cond" and t[1] == "SRV"]
        sid = [t for t in eff if t[0] in ("set", "aug") and t[1] == "self.stream_id"]
        if not srv:
            prob.setdefault("stream_id", ("keep-alive path does not distinguish server/client when advancing stream_id", eff))
        elif srv[-1]:
            if not (len(sid) == 1 and sid[0][0] == "aug" and sid[0][2] == "Add" and sid[0][3] == C(2)):
                prob.setdefault("stream_id", (f"the server's stream_id must advance by 2 per request (saw {sid})", eff))
        elif not (len(sid) == 1 and sid[0] == ("set", "self.stream_id", "None")):
            prob.setdefault("stream_id", (f"the client's stream_id must be cleared so that the next request's id is adopted (saw {sid})", eff))
        sets = [i for i, t in enumerate(eff) if t[0] == "set" and t[1] == "self.state"]
        if not sets or eff[sets[-1]][2] != "self.read_headers":
            prob.setdefault("state", ("state is not rebound to read_headers for the next message", eff))
            continue
        disp = [t for t in eff[sets[-1] + 1 :] if t[0] == "dispatch"]
        bufc = [t[2] for t in tr if t[0] == "cond" and t[1] == "BUF"]
        if disp:
            d = disp[0]
            if len(disp) != 1 or d[1] not in ("self.state", "self.read_headers") or not (isinstance(d[2], tuple) and d[2][0] == "DataReceived" and d[2][1] == "self.conn"):
                prob.setdefault("re-dispatch", (f"buffered bytes must be re-dispatched once as DataReceived(self.conn, ...) to read_headers (saw {disp})", eff))
        elif not bufc or bufc[-1] is not False:
            prob.setdefault("re-dispatch", ("bytes of the next (pipelined) message that are already in self.buf are not re-dispatched after the current message "
                                            "finished - they would only be parsed when another segment arrives", eff))
    for cons, (why, eff) in prob.items():
        ctx.fail("R02.3", wmd, f"keep-alive: {cons}", f"{why}; trace: {show(eff)}")
    ctx.require(n_keep >= 2 or prob, "Http1Connection.mark_done: keep-alive paths (server and client) not found")
    if not prob:
        ctx.ok("R02.3", f"mark_done keep-alive: {n_keep} paths reset, advance stream_id, rebind read_headers, re-dispatch iff self.buf")

    mp = ctx.func(F, "Http1Connection.make_pipe")
    wmp = (F, "Http1Connection.make_pipe", mp)
    traces, _ = run_block(mp.body, spec("_", {"BUF": True, "BUFBYTES": True}))
    ctx.paths += len(traces)
    ctx.require(traces, "Http1Connection.make_pipe: no path")
    bad = None
    for tr, how, _ in traces:
        eff = proj(tr, EFFECTS)
        want = (("set", "self.state", "self.passthrough"), ("buf", "maybe_extract_at_most"))
        disp = [t for t in eff if t[0] == "dispatch"]
        ok = how == "return" and eff[:2] == want and len(eff) == 3 and len(disp) == 1 and disp[0][1] in ("self.state", "self.passthrough") \
            and isinstance(disp[0][2], tuple) and disp[0][2] == ("DataReceived", "self.conn", BUFV)
        if not ok:
            bad = eff
    ctx.check(bad is None, "R02.3", wmp, "make_pipe forwards remaining buffer",
              f"bytes that followed the CONNECT/upgrade head in the same segment must be taken out of self.buf completely and relayed once, after switching to passthrough; saw {show(bad) if bad else ''}",
              desc="make_pipe: state := passthrough, whole buffer extracted, relayed once")
    ctx.expect_instances("R02.3", 3)

    # ---------------- R02.4 server answers the current stream only / waits
    sd = ctx.func(F, "Http1Server.send")
    ev = params_of(sd)[0]
    traces, _ = run_block(sd.body, spec(ev, {}), {ev: ("param", ev)})
    ctx.paths += len(traces)
    n_send = 0
    bad = None
    for tr, how, _ in traces:
        ok = False
        for t in tr:
            if t[0] == "cond" and t[1] == "SID":
                ok = t[2] is True
            if t[0] == "yield" and t[1] == "SendData":
                n_send += 1
                if not ok:
                    bad = tr
    ctx.require(n_send >= 3, "Http1Server.send: SendData paths not found")
    ctx.check(bad is None, "R02.4", (F, "Http1Server.send", sd), "stream_id check before SendData",
              "response bytes are written although event.stream_id was not checked against the request currently being served",
              desc=f"Http1Server.send: {n_send} SendData path-sites all after event.stream_id == self.stream_id")
    smd = ctx.func(F, "Http1Server.mark_done")
    wsm = (F, "Http1Server.mark_done", smd)
    for RQ in (True, False):
        for RS in (True, False):
            traces, _ = run_block(smd.body, spec("_", {"RQ": RQ, "RS": RS}))
            ctx.paths += len(traces)
            ctx.cells += 1
            ctx.require(traces, "Http1Server.mark_done: no path")
            for tr, how, _ in traces:
                eff = proj(tr, EFFECTS)
                sup = [i for i, t in enumerate(eff) if t == ("super", "mark_done")]
                after = [t for t in (eff[sup[0] + 1 :] if sup else eff) if t[0] == "set" and t[1] == "self.state"]
                want = [("set", "self.state", "self.wait")] if (RQ and not RS) else []
                ctx.check(len(sup) == 1 and after == want and how == "return", "R02.4", wsm, f"request_done={RQ} response_done={RS}",
                          ("the server must stop parsing (state := wait) while the response to the current request is outstanding" if want else
                           "the server must not park in `wait` unless the request is done and the response is not") + f"; trace: {show(eff)}",
                          desc=f"Http1Server.mark_done request_done={RQ} response_done={RS}: {show(want) or 'state untouched'}")
    ctx.expect_instances("R02.4", 5)


MUTANTS = [
    # R02.1
    Mutant("read-headers-peeks-segment", F, "            request_head = self.buf.maybe_extract_lines()\n            if request_head:",
           "            request_head = self.buf.maybe_extract_lines() if b\"\\r\\n\\r\\n\" in event.data else None\n            if request_head:", "R02.1"),
    Mutant("body-from-segment", F, "                    h11_event = self.body_reader(self.buf)", "                    h11_event = self.body_reader(ReceiveBuffer() + event.data)", "R02.1"),
    Mutant("append-after-dispatch", F, "                self.buf += event.data\n            yield from self.state(event)", "                yield from self.state(event)\n                self.buf += event.data\n                return\n            yield from self.state(event)", "R02.1"),
    # R02.2
    Mutant("incomplete-head-changes-state", F, "                yield from self.state(event)\n            else:\n                pass  # FIXME: protect against header size DoS\n        elif isinstance(event, events.ConnectionClosed):\n            buf = bytes(self.buf)",
           "                yield from self.state(event)\n            else:\n                self.state = self.done\n        elif isinstance(event, events.ConnectionClosed):\n            buf = bytes(self.buf)", "R02.2"),
    Mutant("server-no-redispatch-after-head", F, "                self.body_reader = make_body_reader(expected_body_size)\n                self.state = self.read_body\n                yield from self.state(event)\n",
           "                self.body_reader = make_body_reader(expected_body_size)\n                self.state = self.read_body\n", "R02.2"),
    Mutant("client-head-at-most", F, "            response_head = self.buf.maybe_extract_lines()", "            response_head = self.buf.maybe_extract_at_most(4096)", "R02.2"),
    Mutant("read-body-returns-after-data", F, "                if data:\n                    yield ReceiveHttp(self.ReceiveData(self.stream_id, data))\n",
           "                if data:\n                    yield ReceiveHttp(self.ReceiveData(self.stream_id, data))\n                return\n", "R02.2"),
    # R02.3
    Mutant("wait-parses", F, "        if isinstance(event, events.DataReceived):\n            return\n        elif isinstance(event, events.ConnectionClosed):\n            # for practical",
           "        if isinstance(event, events.DataReceived):\n            self.buf.maybe_extract_lines()\n            return\n        elif isinstance(event, events.ConnectionClosed):\n            # for practical", "R02.3"),
    Mutant("no-redispatch-of-pipelined", F, "            self.state = self.read_headers\n            if self.buf:\n                yield from self.state(events.DataReceived(self.conn, b\"\"))\n",
           "            self.state = self.read_headers\n", "R02.3"),
    Mutant("redispatch-before-rebind", F, "            self.state = self.read_headers\n            if self.buf:\n                yield from self.state(events.DataReceived(self.conn, b\"\"))\n",
           "            if self.buf:\n                yield from self.state(events.DataReceived(self.conn, b\"\"))\n            self.state = self.read_headers\n", "R02.3"),
    Mutant("done-flags-not-reset", F, "            self.request_done = self.response_done = False\n", "            self.response_done = False\n", "R02.3"),
    Mutant("stream-id-not-advanced", F, "                self.stream_id += 2\n", "                pass\n", "R02.3"),
    Mutant("pipe-forwards-part", F, "self.buf.maybe_extract_at_most(len(self.buf))", "self.buf.maybe_extract_at_most(1024)", "R02.3"),
    # R02.4
    Mutant("server-send-unchecked", F, "        assert event.stream_id == self.stream_id\n        if isinstance(event, ResponseHeaders):\n            self.response = response = event.response",
           "        if isinstance(event, ResponseHeaders):\n            self.response = response = event.response", "R02.4"),
    Mutant("server-never-waits", F, "        if self.request_done and not self.response_done:\n            self.state = self.wait", "        if self.request_done and self.response_done:\n            self.state = self.wait", "R02.4"),
]
