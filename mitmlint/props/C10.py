"""C10 - idle connections time out, but never while a hook is pending.

How it is decided.  The watchdog (``TimeoutWatchdog`` in proxy/server.py) is *interpreted* from its AST (``pyint``; nothing of the
repository is imported or run) on a small virtual-time machine: ``time.time()`` reads a virtual clock, ``asyncio.Event`` is a flag object
owned by the rule, ``asyncio.sleep`` / ``Event.wait`` / the timeout callback are suspension points handed to a scheduler.  The rules then
talk about *behaviour* (what the flag / the activity stamp / the callback do under a schedule), not about the shape of the code, so
renamed locals and attributes, temporaries, extracted helpers, inverted branches, early ``continue``/``return``, added logging /
assertions / parameters with defaults, a class-based context manager instead of a ``@contextmanager`` generator ... are all analysed
alike.

  R10.1 ``TimeoutWatchdog.disarm()`` as a counting guard, black box: a fresh watchdog (built by interpreting ``__init__`` with the
        arguments of the call in ``ConnectionHandler.__init__``) is armed; then for every interleaving of three nested / overlapping
        ``with disarm():`` blocks, each left normally or by an exception: the watchdog is disarmed whenever >= 1 block is open, stays
        disarmed when a block exits while another is open, and is re-armed *and* stamps the activity time exactly when the last
        open block exits.  Both context-manager protocols are driven: generator (``@contextmanager``; the exceptional exit is the
        exception thrown in at the ``yield``) and ``__enter__``/``__exit__`` objects.
  R10.2 every ``await`` of ``ProxyConnectionHandler.handle_hook`` (hook dispatch, ``wait_for_resume``; helper coroutines are inlined)
        lies inside ``with self.timeout_watchdog.disarm()``; ``server_event`` registers activity before the layer runs and
        ``register_activity()`` really stamps the clock; the watchdog object is the ``TimeoutWatchdog`` built in
        ``ConnectionHandler.__init__`` with ``self.on_timeout``.
  R10.3 ``watch()`` under an adversarial scheduler: at every suspension point the environment may let time pass (just enough / far
        too long), start a hook, finish a hook, register activity, or start-and-finish a hook - using the *real* ``disarm`` /
        ``register_activity`` code.  For every schedule up to the stated length: when the timeout callback is awaited, no hook is
        pending and more than ``timeout`` seconds passed since the last activity / last hook completion (ground truth kept by
        the scheduler).  (F-C10 was a callback fired although a hook had started during the sleep; repaired in /repo, the reverse
        of the fix is a mutant.)
  R10.4 ``handle_client`` starts ``timeout_watchdog.watch()`` as a task on every path; ``on_timeout`` cancels the handler task of
        the *client* connection on every path on which that task exists.
Not decided: real timing, asyncio scheduling fairness, that addons do not block the loop, cancellation of the watchdog task.
"""

from __future__ import annotations

import ast
import math
import re

from ..core import AnalysisError
from ..core import norm
from ..model import attr_chain
from ..model import call_name
from ..model import calls_in
from ..model import decorators
from ..model import enclosing_func
from ..model import eval_order
from ..model import walk_in_order
from ..paths import Engine
from ..paths import GenericSpec
from ..paths import R
from ..paths import State
from ..paths import is_const
from ..paths import precedes
from ..pyint import ClassRef
from ..pyint import Func
from ..pyint import Gen
from ..pyint import Interp
from ..pyint import Raised
from ..pyint import Rec
from ..pyint import _restore
from ..pyint import _Return
from ..pyint import _snapshot
from ..selftest import Mutant
from ._helpers_B import mentions
from ._helpers_B import unconditional_in_stmt

PROP = "C10"
REG = {
    "strength": "partial",
    "technique": "AST interpretation of TimeoutWatchdog on a virtual-time machine: black-box protocol test of disarm() over all "
    "interleavings of three nested/overlapping blocks (normal + exceptional exit); bounded model checking of watch() against an "
    "adversarial scheduler (time, hooks, activity) with ground-truth monitors; path enumeration for the call sites",
    "claim": "disarm() is a correct counting guard (disarmed while >=1 hook pending, re-armed and activity registered exactly when "
    "the last hook completes, also on exceptions); every await of the production handle_hook lies inside disarm(); watch() awaits "
    "the timeout callback only when no hook is pending and the idle time has elapsed, under every explored schedule.",
    "note": "Timing itself (asyncio.sleep, time.time) is library behaviour. Event.wait() returns at once when the event is set and "
    "otherwise resumes after a scheduler step in which set() was called (the flag may have been cleared again by then). Schedules are "
    "bounded (3 scheduler steps quick / 4 thorough, <= 3 concurrent hooks).",
}
F = "mitmproxy/proxy/server.py"
MS = "mitmproxy/proxy/mode_servers.py"
CP = "mitmproxy/addons/clientplayback.py"

WD = "self.timeout_watchdog"
T0 = 1000.0
TIMEOUT = 10

# ---- single-assignment temporaries -----------------------------------------------------------------


def _single_defs(fn):
    """name -> value node, for locals of ``fn`` bound exactly once by a plain ``name = value`` (not parameters, loop / with / except /
    match targets, augmented or unpacking assignments)."""
    cached = getattr(fn, "_c10_defs", None)
    if cached is not None:
        return cached
    a = fn.args
    params = {p.arg for p in a.posonlyargs + a.args + a.kwonlyargs} | {p.arg for p in (a.vararg, a.kwarg) if p is not None}
    count: dict = {}
    val: dict = {}

    def bind(t, v):
        if isinstance(t, ast.Name):
            count[t.id] = count.get(t.id, 0) + 1
            val[t.id] = v
        elif isinstance(t, (ast.Tuple, ast.List)):
            for e in t.elts:
                bind(e.value if isinstance(e, ast.Starred) else e, None)

    for n in walk_in_order(fn):
        if isinstance(n, ast.Assign):
            for t in n.targets:
                bind(t, n.value if len(n.targets) == 1 else None)
        elif isinstance(n, ast.AnnAssign) and n.value is not None:
            bind(n.target, n.value)
        elif isinstance(n, ast.NamedExpr):
            bind(n.target, n.value)
        elif isinstance(n, ast.AugAssign):
            bind(n.target, None)
            bind(n.target, None)
        elif isinstance(n, (ast.For, ast.AsyncFor, ast.comprehension)):
            bind(n.target, None)
            bind(n.target, None)
        elif isinstance(n, (ast.With, ast.AsyncWith)):
            for i in n.items:
                if i.optional_vars is not None:
                    bind(i.optional_vars, None)
        elif isinstance(n, ast.ExceptHandler) and n.name:
            count[n.name] = count.get(n.name, 0) + 2
        elif isinstance(n, (ast.MatchAs, ast.MatchStar)) and n.name:
            count[n.name] = count.get(n.name, 0) + 2
    out = {k: v for k, v in val.items() if count.get(k) == 1 and v is not None and k not in params}
    fn._c10_defs = out
    return out


def _expand(expr, fn=None, _depth=0):
    """Copy of ``expr`` in which single-assignment temporaries of the enclosing function are replaced by their definitions."""
    fn = fn or enclosing_func(expr)
    if fn is None or _depth > 6:
        return expr
    defs = _single_defs(fn)

    def clone(n):
        if isinstance(n, ast.Name) and isinstance(n.ctx, ast.Load) and n.id in defs:
            return _expand(defs[n.id], fn, _depth + 1)
        if isinstance(n, ast.AST):
            new = type(n)()
            for f, v in ast.iter_fields(n):
                setattr(new, f, clone(v))
            for a in ("lineno", "col_offset", "end_lineno", "end_col_offset"):
                if hasattr(n, a):
                    setattr(new, a, getattr(n, a))
            return new
        if isinstance(n, list):
            return [clone(x) for x in n]
        return n

    return clone(expr)


def _xtext(expr) -> str:
    return norm(_expand(expr))


def _xname(call) -> str:
    """callee text with temporaries expanded: ``wd = self.timeout_watchdog; wd.disarm()`` -> 'self.timeout_watchdog.disarm'"""
    return _xtext(call.func)


# ---- path engine with alias-expanded events ----------------------------------------------------------


class _DEngine(Engine):
    """Engine that tells the spec the inlining depth of the statement being labelled (needed to look up local values in events)."""

    def stmt(self, node, states, depth):
        self.spec.cur_depth = depth
        return super().stmt(node, states, depth)

    def cond(self, expr, states, depth):
        self.spec.cur_depth = depth
        return super().cond(expr, states, depth)

    def call(self, fn, call, states, depth):
        try:
            return super().call(fn, call, states, depth)
        finally:
            self.spec.cur_depth = depth


class _XSpec(GenericSpec):
    """Events (callee / context texts have single-assignment temporaries expanded):
    ('call', f) ('await', f) ('dispatch',) after an await whose call receives the tracked value ``mark``;
    ('enter', ctx) / ('exit', ctx) per with-item; ('except', Cls); ('cond', text, taken, expanded node)."""

    def __init__(self, keep=None, resolver=None, unroll=1, implicit_raises=False, mark=None):
        super().__init__(keep=keep, resolver=resolver, record_conds=True, unroll=unroll)
        self.cur_depth = 0
        self.implicit_raises = implicit_raises
        self.mark = mark

    def _k(self, ev):
        return self._keep is None or self._keep(ev)

    def events(self, node, st):
        out = []
        for n in eval_order(node):
            if isinstance(n, ast.Call):
                out.append(("call", _xname(n)))
            elif isinstance(n, ast.Await):
                if isinstance(n.value, ast.Call):
                    out.append(("await", _xname(n.value)))
                    if self.mark is not None:
                        args = list(n.value.args) + [k.value for k in n.value.keywords]
                        if any(self.value(a, st, self.cur_depth) == self.mark for a in args):
                            out.append(("dispatch",))
                else:
                    out.append(("await", _xtext(n.value)))
        return [e for e in out if self._k(e)]

    def cond_event(self, expr, value, st):
        ev = ("cond", norm(expr), value, expr)
        return ev if self._k(ev) else None

    def with_enter(self, node, s):
        return tuple(e for e in (("enter", _xtext(i.context_expr)) for i in node.items) if self._k(e))

    def with_exit(self, node):
        return tuple(e for e in (("exit", _xtext(i.context_expr)) for i in reversed(node.items)) if self._k(e))

    def handler_event(self, h, ename, s):
        ev = ("except", ename)
        return ev if self._k(ev) else None

    def raises_into(self, stmt, handler_names, st):
        return list(dict.fromkeys(handler_names)) if self.implicit_raises else []


def _traces(fn, spec, bindings=None):
    eng = _DEngine(spec)
    spec.cur_depth = 0
    o = eng.run(fn, State((), {}), bindings)
    out = [(s.trace, "return", s) for s in o.ret]
    for s in o.exc:
        e = s.get("$exc")
        out.append((s.trace, "raise:" + (e[1] if is_const(e) else "?"), s))
    return out, eng


def _module_of(model, node):
    """the parsed module a node belongs to (via its parents), or None for synthesised nodes"""
    n = node
    while getattr(n, "_parent", None) is not None:
        n = n._parent
    for mod in list(model._mods.values()):
        if mod.tree is n:
            return mod
    return None


def _helper_resolver(model, rel, cls_qual, relevant):
    """resolver for the path engine: ``self.h()`` / ``cls.h()`` / ``Class.h()`` / ``type(self).h()`` (along the MRO of ``cls_qual``) and
    module-level ``h()`` of ``rel`` - but only helpers that (transitively) contain something of the rule's alphabet (``relevant``)."""
    mod = model.module(rel)
    cls_name = cls_qual.split(".")[-1]
    memo: dict = {}
    reached: list = []

    def target(call):
        f = call.func
        if isinstance(f, ast.Attribute):
            v = f.value
            on_self = isinstance(v, ast.Name) and v.id in ("self", "cls", cls_name)
            on_type = (isinstance(v, ast.Call) and norm(v) == "type(self)") or norm(v) == "self.__class__"
            if on_self or on_type:
                r = model.method(rel, cls_qual, f.attr)
                return r[1] if r else None
            return None
        if isinstance(f, ast.Name):
            home = _module_of(model, call) or mod
            d = home.get(f.id)
            if isinstance(d, (ast.FunctionDef, ast.AsyncFunctionDef)):
                return d
            r = model.resolve_name(home, f)
            if r and isinstance(r[1], (ast.FunctionDef, ast.AsyncFunctionDef)):
                return r[1]
        return None

    def is_rel(fn, depth=0):
        key = id(fn)
        if key in memo:
            return memo[key]
        memo[key] = False
        ok = relevant(fn)
        if not ok and depth < 3:
            for c in calls_in(fn):
                t = target(c)
                if t is not None and t is not fn and is_rel(t, depth + 1):
                    ok = True
                    break
        memo[key] = ok
        return ok

    def resolver(call):
        t = target(call)
        if t is None or any(norm(d) in ("property", "abc.abstractmethod", "abstractmethod") for d in t.decorator_list):
            return None
        if not is_rel(t):
            return None
        if t not in reached:
            reached.append(t)
        return t

    resolver.reached = reached
    return resolver


# ---- the virtual-time machine --------------------------------------------------------------------------


class _Suspend(Exception):
    """a driven generator context manager reached its yield"""


class _EndRun(Exception):
    pass


class _NeedMore(Exception):
    """the schedule prefix is exhausted"""


class _Invalid(Exception):
    """the schedule asks for something impossible (finish a hook when none is open)"""


class _Aw:
    """awaitable token of the trusted asyncio stand-in"""

    def __init__(self, kind, arg=None):
        self.kind, self.arg = kind, arg


class _World:
    def __init__(self):
        self.now = T0
        self.events: list = []


class _Event:
    def __init__(self, world):
        self._v = False
        self.fired = False
        world.events.append(self)

    def set(self):
        self._v = True
        self.fired = True

    def clear(self):
        self._v = False

    def is_set(self):
        return self._v

    def wait(self):
        return _Aw("wait", self)


MONO_ORIGIN = 900.0  # the monotonic clock has another origin than the wall clock: mixing the two in one comparison shows


class _TimeMod:
    def __init__(self, world):
        self._w = world

    def time(self):
        return self._w.now

    def monotonic(self):
        return self._w.now - MONO_ORIGIN


class _LoopObj:
    def __init__(self, world):
        self._w = world

    def time(self):
        return self._w.now - MONO_ORIGIN


class _AsyncioMod:
    CancelledError = "asyncio.CancelledError"

    def __init__(self, world):
        self._w = world

    def Event(self):
        return _Event(self._w)

    def get_running_loop(self):
        return _LoopObj(self._w)

    get_event_loop = get_running_loop

    def sleep(self, delay=0, result=None):
        if isinstance(delay, bool) or not isinstance(delay, (int, float)):
            raise AnalysisError(f"asyncio.sleep() with a non-numeric delay in the virtual-time model: {delay!r}")
        return _Aw("sleep", delay)


class _Sink:
    """logger stand-in: every method accepts anything and does nothing"""

    def _noop(self, *a, **k):
        return None

    def __getattr__(self, name):
        if name.startswith("__"):
            raise AttributeError(name)
        return self._noop


class _LoggingMod:
    DEBUG, INFO, WARNING, WARN, ERROR, CRITICAL = 10, 20, 30, 30, 40, 50

    def __init__(self):
        self._sink = _Sink()

    def getLogger(self, *a):
        return self._sink

    def __getattr__(self, name):
        if name in ("debug", "info", "warning", "error", "exception", "critical", "log"):
            return self._sink._noop
        raise AttributeError(name)


class _LazyText:
    """call text for error messages, rendered only when a message is built"""

    def __init__(self, node):
        self.node = node

    def __str__(self):
        return norm(self.node)[:80] if self.node is not None else "?"


class _VInterp(Interp):
    """pyint + coroutines on a scheduler: ``await <call>`` of a repository coroutine runs its body in place, of a trusted awaitable
    hands a suspension to ``self.scheduler``; ``yield`` inside a driven generator context manager calls ``self.yield_hook``."""

    def __init__(self, model, world):
        super().__init__(model, trusted_modules={"time": _TimeMod(world), "asyncio": _AsyncioMod(world), "logging": _LoggingMod(), "math": math}, max_steps=200000)
        self.world = world
        self.scheduler = None
        self.yield_hook = None
        self._await_call = None

    @staticmethod
    def _owner(n, fn):
        if isinstance(n, ast.Await):
            return False  # coroutines are interpreted here (pyint alone refuses them)
        return Interp._owner(n, fn)

    def native_call(self, f, args, kwargs, where):
        if isinstance(getattr(f, "__self__", None), _Sink):
            return None
        return super().native_call(f, args, kwargs, where)

    def apply(self, f, args, kwargs, depth, node=None):
        if isinstance(f, Func):
            if isinstance(f.node, ast.AsyncFunctionDef) and (node is None or node is not self._await_call):
                raise AnalysisError(f"virtual-time model: coroutine {f.node.name}() is created without being awaited directly (not modelled)")
            # as Interp.apply, without rendering the call text on every call (the schedules run this many thousand times)
            self.calls += 1
            if depth + 1 > self.max_depth:
                raise AnalysisError(f"pyint: call depth {self.max_depth} exceeded at {norm(node) if node is not None else '?'}")
            return self.call_func(f, args, kwargs, depth + 1)
        if not isinstance(f, (ClassRef, Rec)) and callable(f):
            self.calls += 1
            return self.native_call(f, args, kwargs, _LazyText(node))
        return super().apply(f, args, kwargs, depth, node)

    def ev_call(self, e, env, mod, depth):
        if self.externals:
            return super().ev_call(e, env, mod, depth)
        # as Interp.ev_call for the plain case (repository function / method / trusted native, no ** unpacking)
        f = self.ev(e.func, env, mod, depth)
        if isinstance(f, tuple) or any(k.arg is None for k in e.keywords):
            return self._ev_call_slow(e, f, env, mod, depth)
        args = self.elts(e.args, env, mod, depth)
        kwargs = {k.arg: self.ev(k.value, env, mod, depth) for k in e.keywords}
        return self.apply(f, args, kwargs, depth, e)

    def _ev_call_slow(self, e, f, env, mod, depth):
        # builtins / typing / exception constructors / **kwargs: let pyint do it; the callee expression is a name or attribute (no effects)
        return super().ev_call(e, env, mod, depth)

    def ev(self, e, env, mod, depth):
        if isinstance(e, ast.Await):
            if not isinstance(e.value, ast.Call):
                raise AnalysisError(f"virtual-time model: await of a non-call (not modelled): {norm(e)}")
            prev, self._await_call = self._await_call, e.value
            try:
                v = super().ev(e.value, env, mod, depth)
            finally:
                self._await_call = prev
            if isinstance(v, _Aw):
                if self.scheduler is None:
                    raise AnalysisError(f"virtual-time model: suspension outside a scheduled coroutine: {norm(e)}")
                return self.scheduler(v)
            return v
        return super().ev(e, env, mod, depth)

    def do_yield(self, value):
        if self.yield_hook is None:
            raise AnalysisError("virtual-time model: yield outside a driven context manager")
        return self.yield_hook(value)


class _VM:
    """one world: clock, events, interpreter and a watchdog constructed the way ConnectionHandler.__init__ constructs it"""

    def __init__(self, model, ctor_call):
        self.model = model
        self.world = _World()
        self.interp = _VInterp(model, self.world)
        self.callback = lambda: _Aw("callback")
        self.wd = self._construct(ctor_call)
        self._n_events = len(self.world.events)
        self._initial = self.snapshot()

    def reset(self):
        """back to the freshly constructed watchdog at time T0 (runs are independent; construction is interpreted once)"""
        del self.world.events[self._n_events :]
        self.restore(self._initial)
        self.interp.scheduler = self.interp.yield_hook = self.interp._await_call = None
        return self

    def _construct(self, call):
        if any(isinstance(a, ast.Starred) for a in call.args) or any(k.arg is None for k in call.keywords):
            raise AnalysisError(f"TimeoutWatchdog is constructed with * / ** arguments (not modelled): {norm(call)}")
        free = []

        def val(a):
            x = _expand(a)
            if attr_chain(x) == "self.on_timeout":
                return self.callback
            if isinstance(x, ast.Constant):
                return x.value
            free.append(a)
            return TIMEOUT

        args = [val(a) for a in call.args]
        kwargs = {k.arg: val(k.value) for k in call.keywords}
        if len(free) > 1:
            raise AnalysisError(f"TimeoutWatchdog is constructed from more than one computed argument besides the callback (not modelled): {norm(call)}")
        cref = ClassRef(self.model.module(F), self.model.cls(F, "TimeoutWatchdog"))
        try:
            wd = self.interp.instantiate(cref, args, kwargs, 0, "TimeoutWatchdog(...)")
        except Raised as r:
            raise AnalysisError(f"TimeoutWatchdog.__init__ raises {r.name} for the arguments of {norm(call)}: {r.msg}")
        if not isinstance(wd, Rec):
            raise AnalysisError("TimeoutWatchdog(...) did not produce an object in the virtual-time model")
        return wd

    # -- state
    def snapshot(self):
        return (_snapshot([self.wd]), [(e, e._v, e.fired) for e in self.world.events], self.world.now)

    def restore(self, snap):
        recs, events, now = snap
        _restore(recs)
        for e, v, fired in events:
            e._v, e.fired = v, fired
        self.world.now = now

    def armed(self):
        evs = self.world.events
        if len(evs) != 1:
            raise AnalysisError(f"TimeoutWatchdog holds {len(evs)} asyncio.Event objects (exactly one - the 'may time out' flag - is modelled)")
        return evs[0]._v

    # -- calls into repository code
    def call(self, rec, name, *args):
        it = self.interp
        f = it.getattr(rec, name, None, 0)
        if not isinstance(f, Func):
            raise AnalysisError(f"{rec!r}.{name} is not a repository method")
        it.steps = 0
        return it.call_func(f, list(args), {}, 1)

    def run_gen(self, g, hook):
        it = self.interp
        prev, it.yield_hook = it.yield_hook, hook
        try:
            try:
                it.block(g.node.body, dict(g.env), g.f.mod, g.depth)
            except _Return:
                pass
        finally:
            it.yield_hook = prev


class _HookCtx:
    """one ``with self.timeout_watchdog.disarm():`` block in progress (either context-manager protocol)"""

    def __init__(self, vm):
        self.vm = vm
        self.kind = None

    def enter(self):
        vm = self.vm
        self.s0 = vm.snapshot()
        cm = vm.call(vm.wd, "disarm")
        if isinstance(cm, Gen):
            if not any(d.split(".")[-1] == "contextmanager" for d in decorators(cm.node)):
                raise AnalysisError(f"disarm() returns a plain generator ({cm.node.name} is not a @contextmanager): not a context manager")
            self.kind, self.gen = "gen", cm
            box = {}

            def hook(value):
                box["snap"] = vm.snapshot()
                raise _Suspend()

            try:
                vm.run_gen(cm, hook)
            except _Suspend:
                vm.restore(box["snap"])  # undo what the unwinding ran (finally blocks belong to the exit half)
            else:
                raise AnalysisError("disarm(): the generator finishes without yielding (contextlib would raise RuntimeError)")
        elif isinstance(cm, Rec) and cm._impl is not None and vm.model.method(*cm._impl, "__enter__") and vm.model.method(*cm._impl, "__exit__"):
            self.kind, self.cm = "obj", cm
            vm.call(cm, "__enter__")
        else:
            raise AnalysisError(f"disarm() returns {cm!r}: neither a @contextmanager generator nor an object with __enter__/__exit__ (not modelled)")

    def exit(self, thrown=False):
        vm = self.vm
        if self.kind == "obj":
            args = [("$exc", "BaseException"), "<exc:BaseException>", None] if thrown else [None, None, None]
            vm.call(self.cm, "__exit__", *args)
            return
        # generator: re-run the enter half from the state it saw (recomputes the frame's locals), then continue from the yield in
        # the *current* world - exactly a resumed generator, for code that is deterministic in (state, clock)
        s1 = vm.snapshot()
        vm.restore(self.s0)
        n = [0]

        def hook(value):
            n[0] += 1
            if n[0] > 1:
                raise AnalysisError("disarm(): the generator yields a second time (contextlib would raise RuntimeError)")
            vm.restore(s1)
            if thrown:
                raise Raised("BaseException", "thrown in at the yield")
            return None

        try:
            vm.run_gen(self.gen, hook)
        except Raised as r:
            if n[0] == 0:
                vm.restore(s1)
            if not (thrown and r.name == "BaseException"):
                raise
        if n[0] == 0:
            vm.restore(s1)
            raise AnalysisError("disarm(): the generator did not reach its yield again on replay (not deterministic in the watchdog state)")


def _ctor_call(ctx):
    """the ``TimeoutWatchdog(...)`` call whose result ConnectionHandler.__init__ stores in self.timeout_watchdog"""
    ci = ctx.func(F, "ConnectionHandler.__init__")
    wd = [s for s in walk_in_order(ci) if isinstance(s, (ast.Assign, ast.AnnAssign)) and s.value is not None
          and any(attr_chain(t) == WD for t in (s.targets if isinstance(s, ast.Assign) else [s.target]))]
    ctx.require(len(wd) == 1, f"ConnectionHandler.__init__ assigns self.timeout_watchdog {len(wd)} times (exactly one modelled)")
    call = _expand(wd[0].value, ci)
    ctx.require(isinstance(call, ast.Call), "ConnectionHandler.__init__ no longer builds self.timeout_watchdog from a constructor call")
    return wd[0], call


# ---- R10.1 ---------------------------------------------------------------------------------------------


def _sequences(n):
    """all complete interleavings of n with-blocks: ('E',) opens the next block, ('X', j, thrown) leaves block j"""
    out = []

    def rec(seq, opened, open_ids):
        if opened == n and not open_ids:
            out.append(seq)
            return
        if opened < n:
            rec(seq + (("E",),), opened + 1, open_ids + (opened,))
        for j in open_ids:
            rest = tuple(x for x in open_ids if x != j)
            for thrown in (False, True):
                rec(seq + (("X", j, thrown),), opened, rest)

    rec((), 0, ())
    return out


def _seq_text(seq, upto):
    parts = []
    for op in seq[: upto + 1]:
        parts.append("enter" if op[0] == "E" else f"exit#{op[1] + 1}" + ("(exception)" if op[2] else ""))
    return " ; ".join(parts)


def _is_now(vm, v) -> bool:
    """v is the current reading of the wall clock or of the monotonic / loop clock"""
    return isinstance(v, (int, float)) and not isinstance(v, bool) and v in (vm.world.now, vm.world.now - MONO_ORIGIN)


def _stamp_attrs(ctx, ctor):
    """attributes of a watchdog that register_activity() sets to the current time (discovered by running it at a fresh instant)"""
    vm = _VM(ctx.model, ctor)
    vm.world.now += 7.0
    before = dict(vm.wd.__dict__)
    try:
        vm.call(vm.wd, "register_activity")
    except Raised as r:
        raise AnalysisError(f"register_activity() raises {r.name} on a fresh watchdog")
    internal = ("_cls", "_bases", "_impl", "_name", "_items")  # pyint.Rec bookkeeping
    return sorted(k for k, v in vm.wd.__dict__.items() if k not in internal and (k not in before or before[k] != v) and _is_now(vm, v))


def _r10_1(ctx, ctor, stamps):
    dis = ctx.func(F, "TimeoutWatchdog.disarm")
    ctx.func(F, "TimeoutWatchdog.__init__")
    where = (F, "TimeoutWatchdog.disarm", dis)
    n_hooks = 3
    bad: dict = {}
    seen: set = set()
    trouble = []

    def note(key, ok, seq, i, what):
        seen.add(key)
        if not ok and key not in bad:
            bad[key] = f"after `{_seq_text(seq, i)}`: {what}"

    vm = _VM(ctx.model, ctor)
    fresh = vm.armed()
    ctx.check(fresh is True, "R10.1", (F, "TimeoutWatchdog.__init__", ctx.func(F, "TimeoutWatchdog.__init__")), "a fresh watchdog is armed",
              "after __init__ the 'may time out' event is not set although no hook is pending: the connection can never time out",
              desc="__init__: armed, no hook pending")
    for seq in _sequences(n_hooks):
        ctx.paths += 1
        vm.reset()
        blocks: dict = {}
        opened = 0
        for i, op in enumerate(seq):
            vm.world.now += 1.0
            try:
                if op[0] == "E":
                    blocks[opened] = h = _HookCtx(vm)
                    opened += 1
                    h.enter()
                else:
                    blocks.pop(op[1]).exit(op[2])
            except Raised as r:
                trouble.append(f"disarm() raises {r.name} after `{_seq_text(seq, i)}`")
            k = len(blocks)
            armed = vm.armed()
            if op[0] == "E":
                note(("open", k), armed is False, seq, i, f"{k} block(s) open but the watchdog is armed")
            elif k > 0:
                note(("still", k, op[2]), armed is False, seq, i, f"{k} block(s) still open but the watchdog is armed")
            else:
                note(("rearm", op[2]), armed is True, seq, i, "no block open but the watchdog stays disarmed")
                stamped = bool(stamps) and all(_is_now(vm, vm.wd.__dict__.get(a)) for a in stamps)
                note(("stamp", op[2]), stamped, seq, i, f"the activity time ({', '.join(stamps) or '?'}) was not set to the time the last block was left")

    def mode(t):
        return "exceptional exit" if t else "normal exit"

    for k in range(1, n_hooks + 1):
        key = ("open", k)
        ctx.require(key in seen, f"R10.1: situation {key} not reached")
        ctx.check(key not in bad, "R10.1", where, f"disarmed while {k} hook(s) are pending",
                  f"{bad.get(key)}: the connection may be closed for inactivity while a hook is pending", desc=f"disarmed with {k} block(s) open")
    for t in (False, True):
        for k in range(1, n_hooks):
            key = ("still", k, t)
            ctx.require(key in seen, f"R10.1: situation {key} not reached")
            ctx.check(key not in bad, "R10.1", where, f"still disarmed when a hook completes while {k} other(s) are pending ({mode(t)})",
                      f"{bad.get(key)}: the connection may be closed for inactivity while a hook is pending", desc=f"still disarmed, {k} open after an exit ({mode(t)})")
        ctx.require(("rearm", t) in seen, "R10.1: last-exit situation not reached")
        ctx.check(("rearm", t) not in bad, "R10.1", where, f"re-armed when the last pending hook completes ({mode(t)})",
                  f"{bad.get(('rearm', t))}: the connection can never time out again", desc=f"re-armed at the last exit ({mode(t)})")
        ctx.check(("stamp", t) not in bad, "R10.1", where, f"activity registered when the last pending hook completes ({mode(t)})",
                  f"{bad.get(('stamp', t))}: the idle period does not restart when the last hook completes", desc=f"activity stamped at the last exit ({mode(t)})")
    if trouble and not any(f.rule == "R10.1" for f in ctx.findings):
        raise AnalysisError(trouble[0])
    ctx.bounds.append(f"R10.1: all interleavings of {n_hooks} with-blocks, each left normally or by an exception")


# ---- R10.2 ---------------------------------------------------------------------------------------------

DISARM_CTX = WD + ".disarm()"


def _disarm_uses_ok(ctx, fns):
    """every ``....disarm()`` in the analysed functions is a with-item on self.timeout_watchdog (else the region rule cannot see it)"""
    for fn in fns:
        with_items = {id(i.context_expr) for w in walk_in_order(fn) if isinstance(w, (ast.With, ast.AsyncWith)) for i in w.items}
        item_names = {i.context_expr.id for w in walk_in_order(fn) if isinstance(w, (ast.With, ast.AsyncWith)) for i in w.items if isinstance(i.context_expr, ast.Name)}
        defs = _single_defs(fn)
        for c in calls_in(fn):
            if not (isinstance(c.func, ast.Attribute) and c.func.attr == "disarm"):
                continue
            ctx.require(norm(_expand(c, fn)) == DISARM_CTX, f"{fn.name}: disarm() on something other than self.timeout_watchdog (not modelled): {norm(c)}")
            as_item = id(c) in with_items
            via_temp = any(defs.get(nm) is c for nm in item_names)
            ctx.require(as_item or via_temp, f"{fn.name}: {norm(c)} is not used as the context manager of a with statement (not modelled)")


def _r10_2(ctx, ctor_stmt, ctor, stamps):
    m = ctx.model
    m.cls(MS, "ProxyConnectionHandler")
    anc = [c.name for _, c in m.mro(MS, "ProxyConnectionHandler")]
    ctx.require("ConnectionHandler" in anc, "ProxyConnectionHandler no longer derives from ConnectionHandler")
    # the handle_hook the production handler runs: its own or one inherited from an intermediate base - not the abstract one
    hmod, hh = ctx.require(m.method(MS, "ProxyConnectionHandler", "handle_hook"), "ProxyConnectionHandler has no handle_hook")
    hq = getattr(hh, "_qual", hh.name)
    ctx.functions.add(f"{hmod.rel}::{hq}")
    ctx.require(not any(d.split(".")[-1] == "abstractmethod" for d in decorators(hh)), "ProxyConnectionHandler.handle_hook resolves to the abstract ConnectionHandler.handle_hook")
    a = hh.args
    params = [p.arg for p in a.posonlyargs + a.args]
    ctx.require(len(params) == 2 and not a.vararg and not a.kwarg, "handle_hook signature changed")
    hook_param = params[1]

    def relevant(fn):
        return any(isinstance(n, (ast.Await, ast.With, ast.AsyncWith, ast.AsyncFor)) for n in walk_in_order(fn))

    resolver = _helper_resolver(m, MS, "ProxyConnectionHandler", relevant)
    spec = _XSpec(keep=lambda ev: ev[0] in ("await", "enter", "exit", "dispatch"), resolver=resolver, mark=R("$hook"))
    res, eng = _traces(hh, spec, bindings={hook_param: R("$hook")})
    _disarm_uses_ok(ctx, [hh] + list(resolver.reached))
    where = (hmod.rel, hq, hh)
    inside, outside = set(), set()
    for trace, how, st in res:
        ctx.paths += 1
        depth = 0
        for ev in trace:
            if ev == ("enter", DISARM_CTX):
                depth += 1
            elif ev == ("exit", DISARM_CTX):
                depth -= 1
            elif ev[0] == "await":
                (inside if depth > 0 else outside).add(ev[1])
    names = sorted(inside | outside)
    ctx.require(names, "handle_hook no longer awaits anything (hook dispatch not found)")
    for name in names:
        ctx.check(name not in outside, "R10.2", where, f"await {name}(...)",
                  "this await can run outside `with self.timeout_watchdog.disarm()`: the connection can be closed for inactivity while the hook is pending",
                  desc=f"await {name} inside disarm()")
    # the hook dispatch itself and the wait for intercepted flows are among them
    ctx.require(any(ev == ("dispatch",) for t, _, _ in res for ev in t), "handle_hook no longer awaits a call that receives the hook (dispatch not found)")
    ctx.require(any(n == "wait_for_resume" or n.endswith(".wait_for_resume") for n in names), "handle_hook no longer awaits wait_for_resume() (intercept wait not found)")
    for trace, how, st in res:
        if how == "return":
            ctx.require(("dispatch",) in trace, "handle_hook has a returning path that does not dispatch the hook")
    ctx.expect_instances("R10.2", 2)

    # other concrete handle_hook implementations of ConnectionHandler subclasses
    for rel, qual, why in (
        (F, "SimpleConnectionHandler", "stand-alone testing handler (`# pragma: no cover`, only used under __main__)"),
    ):
        ctx.func(rel, qual + ".handle_hook")
        ctx.note(f"R10.2 suppression: {qual}.handle_hook - {why}")
    rp = ctx.func(CP, "ReplayHandler.handle_hook")
    cpmod = m.module(CP)
    starts = [c for c in calls_in(cpmod.tree) if call_name(c).endswith(".handle_client") or call_name(c).endswith("timeout_watchdog.watch")]
    ctx.check(not starts, "R10.2", (CP, "ReplayHandler.handle_hook", rp), "ReplayHandler never starts the watchdog",
              "clientplayback starts the timeout watchdog (handle_client / watch) but ReplayHandler.handle_hook does not disarm it",
              desc="ReplayHandler: watchdog never started (no handle_client()/watch() call in clientplayback)")

    # server_event registers activity before the layer handles the event
    se = ctx.func(F, "ConnectionHandler.server_event")
    REGA, HE = WD + ".register_activity", "self.layer.handle_event"

    def relevant_se(fn):
        return any(isinstance(c.func, ast.Attribute) and c.func.attr in ("register_activity", "handle_event") for c in calls_in(fn))

    spec = _XSpec(keep=lambda ev: ev[0] == "call" and ev[1] in (REGA, HE), resolver=_helper_resolver(m, F, "ConnectionHandler", relevant_se))
    res, eng = _traces(se, spec)
    ok = all(precedes(t, lambda e: e[1] == REGA, lambda e: e[1] == HE) for t, _, _ in res)
    has = any(any(e[1] == HE for e in t) for t, _, _ in res)
    ctx.require(has, "server_event no longer calls self.layer.handle_event")
    ctx.paths += len(res)
    ctx.check(ok, "R10.2", (F, "ConnectionHandler.server_event", se), "register_activity() before layer.handle_event",
              "an event reaches the layer on a path that did not register activity: an active connection can be closed as idle",
              desc="server_event: register_activity precedes handle_event on all paths")
    # register_activity really stamps the time
    reg = ctx.func(F, "TimeoutWatchdog.register_activity")
    ctx.check(bool(stamps), "R10.2", (F, "TimeoutWatchdog.register_activity", reg), "register_activity() stamps the current time",
              "register_activity() run at a fresh instant leaves no attribute of the watchdog holding that time", desc=f"register_activity stamps {', '.join(stamps)}")
    # identity of the watchdog
    args = list(ctor.args) + [k.value for k in ctor.keywords]
    ctx.check(call_name(ctor) == "TimeoutWatchdog" and any(attr_chain(x) == "self.on_timeout" for x in args), "R10.2",
              (F, "ConnectionHandler.__init__", ctor_stmt), "self.timeout_watchdog = TimeoutWatchdog(timeout, self.on_timeout)",
              "the handler's watchdog is not a TimeoutWatchdog calling self.on_timeout", desc="timeout_watchdog = TimeoutWatchdog(..., self.on_timeout)")


# ---- R10.3 ---------------------------------------------------------------------------------------------

_EXTRAS = (0.5, 50.0)  # a sleep / wait lasts just long enough, or far too long
_ACTS = ((), ("S",), ("F",), ("A",), ("S", "F"))  # hook Starts / oldest hook Finishes / Activity
_INITS = ((), ("S",))  # hooks already pending when the watch task first runs (handle_client dispatches client_connected right away)
_ACT_TEXT = {"S": "a hook starts", "F": "the oldest pending hook completes", "A": "activity is registered"}


class _Run:
    """watch() interpreted against one schedule: script[0] = actions before watch starts, script[i] = (extra time, actions) of the i-th
    scheduler step.  Ground truth (pending hooks, time of last activity / last hook completion) is kept here, not read from the code."""

    def __init__(self, vm, script):
        self.vm = vm.reset()
        self.script = script
        self.pos = 1
        self.open: list = []
        self.truth_last = self.vm.world.now
        self.log: list = []
        self.status = None
        self.fired = None
        self.trouble = None

    def act(self, actions):
        vm = self.vm
        for a in actions:
            if a == "F" and not self.open:
                raise _Invalid()
            self.log.append(f"t={vm.world.now:g}: {_ACT_TEXT[a]}")
            saved = vm.interp.scheduler
            vm.interp.scheduler = None
            try:
                if a == "S":
                    h = _HookCtx(vm)
                    self.open.append(h)
                    h.enter()
                elif a == "F":
                    self.open.pop(0).exit(False)
                    if not self.open:
                        self.truth_last = vm.world.now
                else:
                    vm.call(vm.wd, "register_activity")
                    self.truth_last = vm.world.now
            except Raised as r:  # must not leak into the interpreted watch() frames
                self.trouble = self.trouble or f"{_ACT_TEXT[a]}: the watchdog code raises {r.name}"
            finally:
                vm.interp.scheduler = saved

    def step(self):
        if self.pos >= len(self.script):
            raise _NeedMore()
        s = self.script[self.pos]
        self.pos += 1
        return s

    def schedule(self, aw):
        w = self.vm.world
        if aw.kind == "callback":
            self.fired = (len(self.open), w.now - self.truth_last)
            self.log.append(f"t={w.now:g}: watch() awaits the timeout callback ({len(self.open)} hook(s) pending, {w.now - self.truth_last:g}s since the last activity, timeout {TIMEOUT}s)")
            raise _EndRun()
        if aw.kind == "sleep":
            extra, acts = self.step()
            self.log.append(f"t={w.now:g}: watch() sleeps {aw.arg:g}s")
            w.now += max(aw.arg, 0) + extra
            self.act(acts)
            self.log.append(f"t={w.now:g}: watch() wakes up")
            return None
        if aw.kind == "wait":
            ev = aw.arg
            if ev._v:
                return True  # asyncio.Event.wait() does not suspend when the event is set
            self.log.append(f"t={w.now:g}: watch() waits for the event")
            ev.fired = False
            while not ev.fired:
                extra, acts = self.step()
                w.now += extra
                self.act(acts)
            self.log.append(f"t={w.now:g}: watch() resumes (the event was set)")
            return True
        raise AnalysisError(f"virtual-time model: unknown awaitable {aw.kind}")

    def go(self):
        vm = self.vm
        try:
            self.act(self.script[0])
            self.log.append(f"t={vm.world.now:g}: watch() starts")
            vm.interp.scheduler = self.schedule
            vm.call(vm.wd, "watch")
            self.status = "returned"
        except _EndRun:
            self.status = "fired"
        except _NeedMore:
            self.status = "more"
        except _Invalid:
            self.status = "invalid"
        except Raised as r:
            raise AnalysisError(f"watch() raises {r.name} in the virtual-time model ({'; '.join(self.log[-4:])})")
        return self


def _r10_3(ctx, ctor):
    watch = ctx.func(F, "TimeoutWatchdog.watch")
    where = (F, "TimeoutWatchdog.watch", watch)
    max_steps = 3 if ctx.tier == "quick" else 4
    alphabet = [(x, acts) for x in _EXTRAS for acts in _ACTS]
    todo = [(init,) for init in _INITS]
    runs = fired = 0
    bad_pending, bad_idle, trouble = [], [], []
    vm = _VM(ctx.model, ctor)
    while todo:
        script = todo.pop()
        r = _Run(vm, script).go()
        runs += 1
        if r.status == "invalid":
            continue
        if r.trouble:
            trouble.append(r.trouble)
        if r.status == "fired":
            fired += 1
            pending, idle = r.fired
            if pending > 0:
                bad_pending.append(r.log)
            if idle <= TIMEOUT:
                bad_idle.append(r.log)
            if len(ctx.samples) < 3 and pending == 0 and idle > TIMEOUT:
                ctx.sample({"rule": "R10.3", "schedule": r.log})
        elif r.status == "more" and len(script) - 1 < max_steps:
            todo.extend(script + (s,) for s in alphabet)
    ctx.paths += runs
    ctx.bounds.append(f"R10.3: every schedule of up to {max_steps} scheduler steps ({len(alphabet)} choices each, {len(_INITS)} initial situations): {runs} runs of watch(), {fired} reach the callback")
    ctx.require(fired > 0, "watch: no explored schedule reaches `await <callback>()` (anchor changed / watchdog never fires)")
    short = lambda logs: " | ".join(min(logs, key=len)) if logs else ""  # noqa: E731
    ctx.check(not bad_pending, "R10.3", where, "timeout callback awaited while a hook is pending",
              f"{len(bad_pending)} schedule(s) fire the timeout although a hook is pending, e.g.: {short(bad_pending)}",
              desc=f"no hook pending whenever the callback is awaited ({fired} firing schedules of {runs})", schedules=bad_pending[:3])
    ctx.check(not bad_idle, "R10.3", where, "timeout callback awaited before the idle time elapsed",
              f"{len(bad_idle)} schedule(s) fire the timeout although there was activity / a hook completed within the timeout, e.g.: {short(bad_idle)}",
              desc=f"idle for longer than the timeout whenever the callback is awaited ({fired} firing schedules of {runs})", schedules=bad_idle[:3])
    if trouble and not any(f.rule in ("R10.1", "R10.3") for f in ctx.findings):
        raise AnalysisError(f"virtual-time model: {trouble[0]}")
    ctx.expect_instances("R10.3", 2)


# ---- R10.4 ---------------------------------------------------------------------------------------------

_CLIENT_HANDLER = re.compile(r"^self\.transports(\[self\.client\]|\.get\(self\.client(, [^()]*)?\))\.handler$")
_STARTERS = ("create_task", "ensure_future")


def _r10_4(ctx):
    m = ctx.model
    hc = ctx.func(F, "ConnectionHandler.handle_client")
    W = WD + ".watch"
    ctx.func(F, "TimeoutWatchdog.watch")  # the coroutine exists under this name (else: anchor error, not a verdict)

    def relevant_w(fn):
        return any(isinstance(c.func, ast.Attribute) and c.func.attr == "watch" for c in calls_in(fn))

    resolver = _helper_resolver(m, F, "ConnectionHandler", relevant_w)
    res, eng = _traces(hc, _XSpec(keep=lambda ev: ev[0] == "call" and ev[1] == W, resolver=resolver))
    ctx.paths += len(res)
    fns = [hc] + list(resolver.reached)
    wcalls, started = [], []
    for fn in fns:
        defs = _single_defs(fn)
        for c in calls_in(fn):
            if _xname(c) != W:
                continue
            wcalls.append(c)
            ctx.require(unconditional_in_stmt(c), f"{fn.name}: {W}() is evaluated conditionally inside an expression (not modelled)")
            par = getattr(c, "_parent", None)
            if isinstance(par, ast.keyword):
                par = getattr(par, "_parent", None)
            temps = [nm for nm, v in defs.items() if v is c]
            if isinstance(par, ast.Call) and call_name(par).split(".")[-1] in _STARTERS:
                started.append(c)
            elif temps and any(call_name(s).split(".")[-1] in _STARTERS and any(isinstance(x, ast.Name) and x.id == temps[0] for x in list(s.args) + [k.value for k in s.keywords])
                               for s in calls_in(fn)):
                started.append(c)
    ok = bool(started) and len(started) == len(wcalls) and all(any(e[1] == W for e in t) for t, how, _ in res if how == "return")
    ctx.check(ok, "R10.4", (F, "ConnectionHandler.handle_client", hc), "create_task(self.timeout_watchdog.watch())",
              "the watchdog coroutine is not started as a task on every path of handle_client: idle connections are never closed",
              desc="handle_client starts watch() as a task on all paths")

    ot = ctx.func(F, "ConnectionHandler.on_timeout")

    def relevant_c(fn):
        return any(isinstance(c.func, ast.Attribute) and c.func.attr == "cancel" for c in calls_in(fn))

    resolver = _helper_resolver(m, F, "ConnectionHandler", relevant_c)
    is_cancel = lambda ev: ev[0] == "call" and (ev[1] == "cancel" or ev[1].endswith(".cancel"))  # noqa: E731
    spec = _XSpec(keep=lambda ev: is_cancel(ev) or ev[0] in ("cond", "except"), resolver=resolver, implicit_raises=True)
    res, eng = _traces(ot, spec)
    ctx.paths += len(res)
    fns = [ot] + list(resolver.reached)
    cancels = [c for fn in fns for c in calls_in(fn) if isinstance(c.func, ast.Attribute) and c.func.attr == "cancel"]
    ctx.require(cancels, "on_timeout no longer cancels anything")
    good = sum(1 for c in cancels if _CLIENT_HANDLER.match(_xtext(c.func.value)))

    def exempt(trace):
        # the client's transport / handler task does not exist on this path: a lookup failed or a test on it was taken
        return any(e[0] == "except" or (e[0] == "cond" and mentions(_expand(e[3]), "self.transports")) for e in trace)

    allp = all(any(is_cancel(e) for e in t) or exempt(t) for t, how, _ in res if how == "return")
    some = any(any(is_cancel(e) for e in t) for t, how, _ in res if how == "return")
    ctx.check(good == len(cancels) and allp and some, "R10.4", (F, "ConnectionHandler.on_timeout", ot), "self.transports[self.client].handler.cancel(...)",
              "the timeout callback does not cancel the client connection's handler task on every path where it exists",
              desc="on_timeout cancels transports[self.client].handler")
    ctx.expect_instances("R10.4", 2)


def check(ctx):
    ctx.rule("R10.1", "disarm(): disarmed while >=1 block is open, over all interleavings of nested/overlapping blocks with normal and exceptional exits; re-armed + activity registered exactly at the last exit")
    ctx.rule("R10.2", "every await of the production handle_hook is inside disarm(); server_event registers activity before the layer runs")
    ctx.rule("R10.3", "watch(): under every bounded schedule of time / hooks / activity the callback is awaited only with no hook pending and the idle time elapsed")
    ctx.rule("R10.4", "handle_client starts watch(); on_timeout cancels the client handler task")
    ctx.assume("hooks for a connection are only ever handled through handle_hook (C09/C04 cover the callers)")
    ctx.trust("asyncio.Event / asyncio.sleep / time.time / contextlib.contextmanager semantics")
    ctor_stmt, ctor = _ctor_call(ctx)
    stamps = _stamp_attrs(ctx, ctor)
    ctx.guard(_r10_1, ctx, ctor, stamps)
    ctx.expect_instances("R10.1", 12)
    ctx.guard(_r10_2, ctx, ctor_stmt, ctor, stamps)
    ctx.guard(_r10_3, ctx, ctor)
    ctx.guard(_r10_4, ctx)


MUTANTS = [
    # reverse of the F-C10 fix (8b2167280)
    Mutant("F-C10-reverted-no-recheck-after-sleep", F,
           "                if (\n                    self.can_timeout.is_set()\n                    and self.last_activity + self.timeout < time.time()\n                ):\n",
           "                if self.last_activity + self.timeout < time.time():\n", "R10.3"),
    Mutant("watch-recheck-or-instead-of-and", F, "                    self.can_timeout.is_set()\n                    and self.last_activity", "                    self.can_timeout.is_set()\n                    or self.last_activity", "R10.3"),
    Mutant("watch-idle-comparison-swapped", F, "and self.last_activity + self.timeout < time.time()", "and self.last_activity + self.timeout > time.time()", "R10.3"),
    Mutant("watch-recheck-before-sleep-only", F,
           "                await asyncio.sleep(self.timeout - (time.time() - self.last_activity))\n                if (\n                    self.can_timeout.is_set()\n                    and self.last_activity",
           "                if not self.can_timeout.is_set():\n                    continue\n                await asyncio.sleep(self.timeout - (time.time() - self.last_activity))\n                if (\n                    True\n                    and self.last_activity",
           "R10.3"),
    Mutant("disarm-no-finally", F,
           "        try:\n            yield\n        finally:\n            self.blocker -= 1\n            if self.blocker == 0:\n                self.register_activity()\n                self.can_timeout.set()\n",
           "        yield\n        self.blocker -= 1\n        if self.blocker == 0:\n            self.register_activity()\n            self.can_timeout.set()\n", "R10.1"),
    Mutant("disarm-rearm-unconditionally", F, "            if self.blocker == 0:\n                self.register_activity()\n                self.can_timeout.set()\n",
           "            self.register_activity()\n            self.can_timeout.set()\n", "R10.1"),
    Mutant("disarm-no-activity-on-last-hook", F, "            if self.blocker == 0:\n                self.register_activity()\n", "            if self.blocker == 0:\n", "R10.1"),
    Mutant("disarm-forgets-clear", F, "        self.can_timeout.clear()\n        self.blocker += 1\n", "        self.blocker += 1\n", "R10.1"),
    Mutant("disarm-decrement-twice", F, "            self.blocker -= 1\n            if self.blocker == 0:", "            self.blocker -= 2\n            if self.blocker == 0:", "R10.1"),
    # overlapping (not nested) hooks: whether this block was the first one says nothing about whether it is the last one to finish
    Mutant("disarm-rearm-decided-at-entry", F,
           "        self.can_timeout.clear()\n        self.blocker += 1\n        try:\n            yield\n        finally:\n            self.blocker -= 1\n            if self.blocker == 0:\n",
           "        outermost = self.blocker == 0\n        self.can_timeout.clear()\n        self.blocker += 1\n        try:\n            yield\n        finally:\n            self.blocker -= 1\n            if outermost:\n", "R10.1"),
    Mutant("handle-hook-resume-outside-disarm", MS,
           "            await self.master.addons.handle_lifecycle(hook)\n            if isinstance(data, flow.Flow):\n                await data.wait_for_resume()  # pragma: no cover\n",
           "            await self.master.addons.handle_lifecycle(hook)\n        if isinstance(data, flow.Flow):\n            await data.wait_for_resume()  # pragma: no cover\n", "R10.2"),
    Mutant("server-event-activity-after-layer", F,
           "            self.timeout_watchdog.register_activity()\n            try:\n                layer_commands = self.layer.handle_event(event)\n",
           "            try:\n                layer_commands = self.layer.handle_event(event)\n", "R10.2"),
    Mutant("register-activity-stamps-nothing", F, "    def register_activity(self):\n        self.last_activity = time.time()\n", "    def register_activity(self):\n        self.last_activity\n", "R10.2"),
    Mutant("watchdog-not-started", F,
           "            self.timeout_watchdog.watch(),\n", "            asyncio.sleep(0),\n",
           "R10.4"),
    Mutant("on-timeout-cancels-nothing-for-client", F, "            handler = self.transports[self.client].handler\n        except KeyError:  # pragma: no cover",
           "            handler = self.transports[next(iter(self.transports))].handler\n        except KeyError:  # pragma: no cover", "R10.4"),
    Mutant("on-timeout-cancels-tcp-only", F,
           "                self.log(f\"Closing connection due to inactivity: {self.client}\")\n            assert handler\n            handler.cancel(\"timeout\")\n",
           "                self.log(f\"Closing connection due to inactivity: {self.client}\")\n                assert handler\n                handler.cancel(\"timeout\")\n", "R10.4"),
]
