"""C10 - idle connections time out, but never while a hook is pending.

Decided (structure of the watchdog, not wall-clock behaviour):
  R10.1 ``TimeoutWatchdog.disarm`` as a counting context manager: abstract execution for every entry count
        b in {0,1,2}, for the normal exit *and* for an exception thrown in at the ``yield``: at the yield
        can_timeout is cleared and blocker == b+1; at exit blocker == b; can_timeout is set again and activity is
        registered iff b == 0 (the last pending hook).  ``__init__`` starts with blocker == 0.
  R10.2 every ``await`` of ``ProxyConnectionHandler.handle_hook`` (hook dispatch, ``wait_for_resume``) lies inside
        ``with self.timeout_watchdog.disarm()``; ``server_event`` registers activity before the layer runs; the
        watchdog object is the ``TimeoutWatchdog`` built in ``ConnectionHandler.__init__`` with ``self.on_timeout``.
  R10.3 in ``watch`` every path reaching ``await self.callback()`` evaluates, *after the last suspension point*
        (any await) before the callback, (a) a condition that cannot have the taken value while a hook is pending
        (blocker >= 1, ``can_timeout.is_set()`` False) and (b) a condition that cannot have the taken value unless
        ``last_activity + timeout`` is in the past.  (F-C10 was the missing (a); repaired in /repo, the reverse
        of the fix is a mutant.)
  R10.4 ``handle_client`` starts ``timeout_watchdog.watch()`` as a task on every path; ``on_timeout`` cancels the
        handler task of the *client* connection.
Not decided: real timing, asyncio scheduling, that addons do not block the loop.
"""

from __future__ import annotations

import ast

from ..core import AnalysisError
from ..core import norm
from ..model import attr_chain
from ..model import call_name
from ..model import calls_in
from ..model import decorators
from ..model import walk_in_order
from ..paths import C
from ..paths import GenericSpec
from ..paths import is_const
from ..paths import precedes
from ..paths import traces_of
from ..selftest import Mutant
from ._helpers_B import ceval
from ._helpers_B import NodeCondSpec
from ._helpers_B import NotAnAtom
from ._helpers_B import unconditional_in_stmt
from ._helpers_B import with_throw_at_yield

PROP = "C10"
REG = {
    "strength": "partial",
    "technique": "abstract execution of the disarm context manager over entry counts (normal + thrown exit); "
    "path enumeration of watch with semantic evaluation of the conditions between the last suspension point and the callback",
    "claim": "disarm() is a correct counting guard (cleared while >=1 hook pending, re-armed and activity registered exactly when "
    "the last hook completes, also on exceptions); every await of the production handle_hook lies inside disarm(); watch() fires "
    "the callback only after re-checking, with no suspension in between, that no hook is pending and the idle time has elapsed.",
    "note": "Timing itself (asyncio.sleep, time.time) is library behaviour. Event.wait() is treated as a suspension point after "
    "which the armed state must be re-read.",
}
F = "mitmproxy/proxy/server.py"
MS = "mitmproxy/proxy/mode_servers.py"
CP = "mitmproxy/addons/clientplayback.py"

CLEAR, SET = "self.can_timeout.clear", "self.can_timeout.set"


class DisarmSpec(GenericSpec):
    """Events: calls on can_timeout, ('yield',''), ('blocker', n) after every write, ('activity',)."""

    def __init__(self, resolver, allow_rebind=False):
        self.allow_rebind = allow_rebind
        super().__init__(
            keep=lambda ev: (ev[0] == "call" and ev[1] in (CLEAR, SET)) or ev[0] == "yield",
            resolver=resolver,
            tracked=("self.blocker",),
        )

    def events(self, node, st):
        out = list(super().events(node, st))
        if isinstance(node, (ast.Assign, ast.AugAssign, ast.AnnAssign)):
            targets = node.targets if isinstance(node, ast.Assign) else [node.target]
            for t in targets:
                ch = attr_chain(t)
                if ch == "self.blocker":
                    st2 = self.effect(node, st, 0)
                    v = st2.get("self.blocker")
                    if not is_const(v):
                        raise AnalysisError(f"TimeoutWatchdog: write to self.blocker not modelled: {norm(node)}")
                    out.append(("blocker", v[1]))
                elif ch == "self.last_activity":
                    ok = isinstance(node, ast.Assign) and isinstance(node.value, ast.Call) and call_name(node.value) == "time.time"
                    if not ok:
                        raise AnalysisError(f"TimeoutWatchdog: write to self.last_activity not modelled: {norm(node)}")
                    out.append(("activity",))
                elif ch == "self.can_timeout" and not self.allow_rebind:
                    raise AnalysisError(f"TimeoutWatchdog: can_timeout is rebound: {norm(node)}")
        return out

    def effect(self, stmt, st, depth):
        if isinstance(stmt, ast.AugAssign) and attr_chain(stmt.target) == "self.blocker":
            cur = st.get("self.blocker")
            if is_const(cur) and isinstance(stmt.value, ast.Constant) and isinstance(stmt.value.value, int) and isinstance(stmt.op, (ast.Add, ast.Sub)):
                d = stmt.value.value if isinstance(stmt.op, ast.Add) else -stmt.value.value
                return st.set("self.blocker", C(cur[1] + d))
            raise AnalysisError(f"TimeoutWatchdog: update of self.blocker not modelled: {norm(stmt)}")
        return super().effect(stmt, st, depth)


def _fold(trace, b):
    """(armed, blocker, activity-after-yield, seen_yield) after running the events from entry count b (armed=None: untouched)."""
    armed, blocker, activity, yielded, at_yield = None, b, False, 0, None
    for ev in trace:
        if ev[0] == "call" and ev[1] == CLEAR:
            armed = False
        elif ev[0] == "call" and ev[1] == SET:
            armed = True
        elif ev[0] == "blocker":
            blocker = ev[1]
        elif ev[0] == "activity":
            if yielded:
                activity = True
        elif ev[0] == "yield":
            yielded += 1
            at_yield = (armed, blocker)
    return armed, blocker, activity, yielded, at_yield


def _r10_1(ctx):
    m = ctx.model
    dis = ctx.func(F, "TimeoutWatchdog.disarm")
    reg = ctx.func(F, "TimeoutWatchdog.register_activity")
    init = ctx.func(F, "TimeoutWatchdog.__init__")
    ctx.require(any(d.split(".")[-1] == "contextmanager" for d in decorators(dis)), "TimeoutWatchdog.disarm is no longer a @contextmanager")

    def resolver(call):
        return reg if call_name(call) == "self.register_activity" else None

    thrown, n_yields = with_throw_at_yield(dis)
    ctx.require(n_yields == 1, f"TimeoutWatchdog.disarm has {n_yields} yield statements (exactly one modelled)")
    where = (F, "TimeoutWatchdog.disarm", dis)
    for b in (0, 1, 2):
        for mode, fn in (("normal", dis), ("thrown", thrown)):
            spec = DisarmSpec(resolver)
            res, eng = traces_of(fn, spec, init_env={"self.blocker": C(b)})
            ctx.require(eng.forks == 0, f"disarm: a branch could not be decided from the counter (entry count {b}, {mode} exit)")
            ctx.require(res, "disarm: no terminal path")
            for trace, how, st in res:
                ctx.paths += 1
                if mode == "thrown" and not how.startswith("raise:"):
                    # the exception thrown in at the yield is swallowed: contextmanager then suppresses it - not modelled
                    raise AnalysisError("disarm swallows the exception thrown in at the yield (shape not modelled)")
                armed, blocker, activity, yielded, at_yield = _fold(trace, b)
                ctx.require(yielded == 1, f"disarm: path with {yielded} yields")
                tag = f"entry count {b}, {mode} exit"
                ctx.check(at_yield == (False, b + 1), "R10.1", where, f"state at yield ({tag})",
                          f"inside the with-body (armed, blocker) = {at_yield}, expected (False, {b + 1}): the watchdog is not disarmed/counted while the hook runs",
                          desc=f"at yield: cleared and blocker={b + 1} ({tag})")
                ctx.check(blocker == b, "R10.1", where, f"blocker at exit ({tag})",
                          f"blocker is {blocker} after the hook completed, expected {b}: the count of pending hooks drifts",
                          desc=f"at exit: blocker={b} ({tag})")
                if b == 0:
                    ctx.check(armed is True and activity, "R10.1", where, f"re-arm at exit ({tag})",
                              f"last pending hook completed but armed={armed}, activity registered={activity}: the idle period does not restart / the connection can never time out",
                              desc=f"at exit: re-armed and activity registered ({tag})")
                else:
                    ctx.check(armed is False, "R10.1", where, f"stay disarmed at exit ({tag})",
                              f"{b} hook(s) still pending but can_timeout armed={armed}: the connection may be closed while a hook is pending",
                              desc=f"at exit: still disarmed ({tag})")
    # initial count
    spec = DisarmSpec(None, allow_rebind=True)
    res, eng = traces_of(init, spec)
    vals = {st.get("self.blocker") for _, _, st in res}
    ctx.check(vals == {C(0)}, "R10.1", (F, "TimeoutWatchdog.__init__", init), "self.blocker initial value",
              f"the pending-hook counter does not start at 0 on all paths: {sorted(map(str, vals))}", desc="__init__: blocker = 0")


class WithSpec(GenericSpec):
    def with_enter(self, node, s):
        return tuple(("enter", call_name(i.context_expr) if isinstance(i.context_expr, ast.Call) else norm(i.context_expr)) for i in node.items)

    def with_exit(self, node):
        return tuple(("exit", call_name(i.context_expr) if isinstance(i.context_expr, ast.Call) else norm(i.context_expr)) for i in reversed(node.items))


DISARM = "self.timeout_watchdog.disarm"


def _r10_2(ctx):
    m = ctx.model
    hh = ctx.func(MS, "ProxyConnectionHandler.handle_hook")
    anc = [c.name for _, c in m.mro(MS, "ProxyConnectionHandler")]
    ctx.require("ConnectionHandler" in anc, "ProxyConnectionHandler no longer derives from ConnectionHandler")
    ctx.require(m.method(MS, "ProxyConnectionHandler", "handle_hook")[1] is hh, "ProxyConnectionHandler.handle_hook is not the resolved handle_hook")
    params = [a.arg for a in hh.args.args]
    ctx.require(len(params) == 2, "handle_hook signature changed")
    hook_param = params[1]
    # position of every await relative to the disarm region, on every path
    awaits = [n for n in walk_in_order(hh) if isinstance(n, ast.Await)]
    ctx.require(all(isinstance(a.value, ast.Call) for a in awaits), "handle_hook awaits a non-call (not modelled)")
    spec = WithSpec(keep=lambda ev: ev[0] in ("await", "enter", "exit"))
    res, eng = traces_of(hh, spec)
    where = (MS, "ProxyConnectionHandler.handle_hook", hh)
    outside = set()
    for trace, how, st in res:
        ctx.paths += 1
        depth = 0
        for ev in trace:
            if ev == ("enter", DISARM):
                depth += 1
            elif ev == ("exit", DISARM):
                depth -= 1
            elif ev[0] == "await" and depth <= 0:
                outside.add(ev[1])
    for a in awaits:
        name = call_name(a.value)
        ctx.check(name not in outside, "R10.2", where, f"await {name}(...)",
                  "this await can run outside `with self.timeout_watchdog.disarm()`: the connection can be closed for inactivity while the hook is pending",
                  desc=f"await {name} inside disarm()")
    # the hook dispatch itself and the wait for intercepted flows are among them
    dispatch = [a for a in awaits if any(isinstance(x, ast.Name) and x.id == hook_param for arg in a.value.args for x in ast.walk(arg))]
    ctx.require(dispatch, "handle_hook no longer awaits a call that receives the hook (dispatch not found)")
    resume = [a for a in awaits if call_name(a.value).endswith(".wait_for_resume")]
    ctx.require(resume, "handle_hook no longer awaits wait_for_resume() (intercept wait not found)")
    for trace, how, st in res:
        if how == "return":
            ctx.require(any(ev[0] == "await" and ev[1] == call_name(dispatch[0].value) for ev in trace),
                        "handle_hook has a returning path that does not dispatch the hook")
    ctx.expect_instances("R10.2", 2)

    # other concrete handle_hook implementations of ConnectionHandler subclasses
    for rel, qual, why in (
        (F, "SimpleConnectionHandler", "stand-alone testing handler (`# pragma: no cover`, only used under __main__)"),
    ):
        ctx.func(rel, qual + ".handle_hook")
        ctx.note(f"R10.2 suppression: {qual}.handle_hook - {why}")
    rp = ctx.func(CP, "ReplayHandler.handle_hook")
    cpmod = m.module(CP)
    starts = [c for c in calls_in(cpmod.tree) if call_name(c).endswith(".handle_client") or call_name(c).endswith("timeout_watchdog.watch")]
    ctx.check(not starts, "R10.2", (CP, "ReplayHandler.handle_hook", rp), "ReplayHandler never starts the watchdog",
              "clientplayback starts the timeout watchdog (handle_client / watch) but ReplayHandler.handle_hook does not disarm it",
              desc="ReplayHandler: watchdog never started (no handle_client()/watch() call in clientplayback)")

    # server_event registers activity before the layer handles the event
    se = ctx.func(F, "ConnectionHandler.server_event")
    REGA = "self.timeout_watchdog.register_activity"
    spec = GenericSpec(keep=lambda ev: ev[0] == "call" and ev[1] in (REGA, "self.layer.handle_event"))
    res, eng = traces_of(se, spec)
    ok = all(precedes(t, lambda e: e[1] == REGA, lambda e: e[1] == "self.layer.handle_event") for t, _, _ in res)
    has = any(any(e[1] == "self.layer.handle_event" for e in t) for t, _, _ in res)
    ctx.require(has, "server_event no longer calls self.layer.handle_event")
    ctx.paths += len(res)
    ctx.check(ok, "R10.2", (F, "ConnectionHandler.server_event", se), "register_activity() before layer.handle_event",
              "an event reaches the layer on a path that did not register activity: an active connection can be closed as idle",
              desc="server_event: register_activity precedes handle_event on all paths")
    # register_activity really stamps the time
    reg = ctx.func(F, "TimeoutWatchdog.register_activity")
    res, _ = traces_of(reg, DisarmSpec(None))
    ctx.check(all(("activity",) in t for t, _, _ in res), "R10.2", (F, "TimeoutWatchdog.register_activity", reg), "self.last_activity = time.time()",
              "register_activity does not stamp last_activity on every path", desc="register_activity stamps last_activity")
    # identity of the watchdog
    ci = ctx.func(F, "ConnectionHandler.__init__")
    wd = [s for s in walk_in_order(ci) if isinstance(s, ast.Assign) and any(attr_chain(t) == "self.timeout_watchdog" for t in s.targets)]
    ctx.require(len(wd) == 1 and isinstance(wd[0].value, ast.Call), "ConnectionHandler.__init__ no longer builds self.timeout_watchdog in one assignment")
    call = wd[0].value
    args = list(call.args) + [k.value for k in call.keywords]
    ctx.check(call_name(call) == "TimeoutWatchdog" and any(attr_chain(a) == "self.on_timeout" for a in args), "R10.2",
              (F, "ConnectionHandler.__init__", wd[0]), "self.timeout_watchdog = TimeoutWatchdog(timeout, self.on_timeout)",
              "the handler's watchdog is not a TimeoutWatchdog calling self.on_timeout", desc="timeout_watchdog = TimeoutWatchdog(..., self.on_timeout)")


# ---- R10.3 ---------------------------------------------------------------------------------------


def _pending_atom(blocker):
    def atom(node, env):
        if isinstance(node, ast.Attribute) and attr_chain(node) == "self.blocker":
            return blocker
        if isinstance(node, ast.Call) and call_name(node) == "self.can_timeout.is_set" and not node.args and not node.keywords:
            return False
        if isinstance(node, (ast.Attribute, ast.Call, ast.Name)):
            raise AnalysisError(f"watch: condition mixes the pending-hook state with something not modelled: {norm(node)}")
        raise NotAnAtom

    return atom


def _time_atom(last, timeout, now):
    def atom(node, env):
        ch = attr_chain(node) if isinstance(node, ast.Attribute) else ""
        if ch == "self.last_activity":
            return last
        if ch == "self.timeout":
            return timeout
        if isinstance(node, ast.Call) and call_name(node) == "time.time" and not node.args:
            return now
        if isinstance(node, (ast.Attribute, ast.Call, ast.Name)):
            raise AnalysisError(f"watch: idle-time condition uses something not modelled: {norm(node)}")
        raise NotAnAtom

    return atom


def _mentions_pending(expr):
    for n in ast.walk(expr):
        if isinstance(n, ast.Attribute) and attr_chain(n) in ("self.blocker", "self.can_timeout"):
            return True
    return False


def _mentions_time(expr):
    return any(isinstance(n, ast.Attribute) and attr_chain(n) == "self.last_activity" for n in ast.walk(expr))


def excludes_pending_hook(expr, taken) -> bool:
    """The leaf cannot evaluate to ``taken`` in any world with a pending hook."""
    if not _mentions_pending(expr):
        return False
    for n in ast.walk(expr):
        if isinstance(n, ast.Constant) and isinstance(n.value, int) and not isinstance(n.value, bool) and n.value not in (0, 1):
            raise AnalysisError(f"watch: blocker compared with {n.value} (only 0/1 thresholds modelled): {norm(expr)}")
    return all(bool(ceval(expr, {}, _pending_atom(b), "watch condition")) != taken for b in (1, 2, 3))


def requires_idle_elapsed(expr, taken) -> bool:
    """The leaf has the taken value when idle for longer than the timeout and cannot have it when idle for less."""
    if not _mentions_time(expr):
        return False
    worlds_not_elapsed = [(100.0, 10, 100.0), (100.0, 10, 105.0), (100.0, 10, 109.5)]
    worlds_elapsed = [(100.0, 10, 110.5), (100.0, 10, 200.0)]
    return all(bool(ceval(expr, {}, _time_atom(*w), "watch condition")) != taken for w in worlds_not_elapsed) and all(
        bool(ceval(expr, {}, _time_atom(*w), "watch condition")) == taken for w in worlds_elapsed
    )


def _r10_3(ctx):
    watch = ctx.func(F, "TimeoutWatchdog.watch")
    init = ctx.func(F, "TimeoutWatchdog.__init__")
    p = [a.arg for a in init.args.args]
    ok = any(isinstance(s, ast.Assign) and attr_chain(s.targets[0]) == "self.callback" and isinstance(s.value, ast.Name) and s.value.id in p for s in init.body)
    ctx.require(ok, "TimeoutWatchdog.__init__ no longer stores the callback parameter in self.callback")
    spec = NodeCondSpec(keep=lambda ev: ev[0] == "await", unroll=2)
    res, eng = traces_of(watch, spec)
    where = (F, "TimeoutWatchdog.watch", watch)
    n_cb = 0
    bad_pending, bad_time = 0, 0
    for trace, how, st in res:
        ctx.paths += 1
        for j, ev in enumerate(trace):
            if not (ev[0] == "await" and ev[1] == "self.callback"):
                continue
            n_cb += 1
            i = max((k for k in range(j) if trace[k][0] == "await"), default=-1)
            window = [e for e in trace[i + 1 : j] if e[0] == "cond"]
            if not any(excludes_pending_hook(e[3], e[2]) for e in window):
                bad_pending += 1
            if not any(requires_idle_elapsed(e[3], e[2]) for e in window):
                bad_time += 1
            if len(ctx.samples) < 4:
                ctx.sample({"rule": "R10.3", "conditions between last await and callback": [f"{e[1]} is {e[2]}" for e in window]})
    ctx.require(n_cb > 0, "watch: no path awaits self.callback() (anchor changed)")
    ctx.check(bad_pending == 0, "R10.3", where, "no re-check of pending hooks between the last await and await self.callback()",
              f"{bad_pending} path(s) reach the callback without a condition, evaluated after the last suspension point, that is false while a hook is pending "
              "(blocker >= 1 / can_timeout cleared): a hook that starts during the sleep and is still pending at wake-up is closed for inactivity",
              desc=f"pending-hook re-check dominates callback on {n_cb} callback occurrences")
    ctx.check(bad_time == 0, "R10.3", where, "no idle-time check between the last await and await self.callback()",
              f"{bad_time} path(s) reach the callback without a condition that holds only when last_activity + timeout has passed: "
              "activity during the sleep does not postpone the timeout",
              desc=f"idle-time check dominates callback on {n_cb} callback occurrences")
    ctx.expect_instances("R10.3", 2)


def _r10_4(ctx):
    hc = ctx.func(F, "ConnectionHandler.handle_client")
    W = "self.timeout_watchdog.watch"
    ctx.func(F, "TimeoutWatchdog.watch")  # the coroutine exists under this name (else: anchor error, not a verdict)
    wcalls = calls_in(hc, W)
    started = []
    for c in wcalls:
        par = getattr(c, "_parent", None)
        ctx.require(unconditional_in_stmt(c), f"handle_client: {W}() is evaluated conditionally inside an expression (not modelled)")
        if isinstance(par, ast.Call) and call_name(par).split(".")[-1] in ("create_task", "ensure_future") and c in par.args:
            started.append(c)
    res, eng = traces_of(hc, GenericSpec(keep=lambda ev: ev[0] == "call" and ev[1] == W))
    ctx.paths += len(res)
    ok = bool(started) and len(started) == len(wcalls) and all(any(e[1] == W for e in t) for t, how, _ in res if how == "return")
    ctx.check(ok, "R10.4", (F, "ConnectionHandler.handle_client", hc), "create_task(self.timeout_watchdog.watch())",
              "the watchdog coroutine is not started as a task on every path of handle_client: idle connections are never closed",
              desc="handle_client starts watch() as a task on all paths")
    ot = ctx.func(F, "ConnectionHandler.on_timeout")
    cancels = [c for c in calls_in(ot) if call_name(c).endswith(".cancel")]
    ctx.require(cancels, "on_timeout no longer cancels anything")
    good = 0
    for c in cancels:
        recv = c.func.value
        src = None
        if isinstance(recv, ast.Name):
            defs = [s for s in walk_in_order(ot) if isinstance(s, ast.Assign) and any(isinstance(t, ast.Name) and t.id == recv.id for t in s.targets)]
            if len(defs) == 1:
                src = defs[0].value
        else:
            src = recv
        if src is not None and norm(src) == "self.transports[self.client].handler":
            good += 1
    res, eng = traces_of(ot, GenericSpec(keep=lambda ev: ev[0] == "call" and ev[1].endswith(".cancel")))
    allp = all(any(e[0] == "call" for e in t) for t, how, _ in res if how == "return")
    ctx.check(good == len(cancels) and allp, "R10.4", (F, "ConnectionHandler.on_timeout", ot), "self.transports[self.client].handler.cancel(...)",
              "the timeout callback does not cancel the client connection's handler task on every path where it exists",
              desc="on_timeout cancels transports[self.client].handler")
    ctx.expect_instances("R10.4", 2)


def check(ctx):
    ctx.rule("R10.1", "disarm(): cleared and counted while a hook runs; count restored on normal and exceptional exit; re-armed + activity registered iff last hook")
    ctx.rule("R10.2", "every await of the production handle_hook is inside disarm(); server_event registers activity before the layer runs")
    ctx.rule("R10.3", "watch(): pending-hook re-check and idle-time check between the last suspension point and the callback, on all paths")
    ctx.rule("R10.4", "handle_client starts watch(); on_timeout cancels the client handler task")
    ctx.assume("hooks for a connection are only ever handled through handle_hook (C09/C04 cover the callers)")
    ctx.trust("asyncio.Event / asyncio.sleep / time.time semantics")
    _r10_1(ctx)
    ctx.expect_instances("R10.1", 19)
    _r10_2(ctx)
    _r10_3(ctx)
    _r10_4(ctx)


MUTANTS = [
    # reverse of the F-C10 fix (8b2167280)
    Mutant("F-C10-reverted-no-recheck-after-sleep", F,
           "                if (\n                    self.can_timeout.is_set()\n                    and self.last_activity + self.timeout < time.time()\n                ):\n",
           "                if self.last_activity + self.timeout < time.time():\n", "R10.3"),
    Mutant("watch-recheck-or-instead-of-and", F, "                    self.can_timeout.is_set()\n                    and self.last_activity", "                    self.can_timeout.is_set()\n                    or self.last_activity", "R10.3"),
    Mutant("watch-idle-comparison-swapped", F, "and self.last_activity + self.timeout < time.time()", "and self.last_activity + self.timeout > time.time()", "R10.3"),
    Mutant("watch-recheck-before-sleep-only", F,
           "                await asyncio.sleep(self.timeout - (time.time() - self.last_activity))\n                if (\n                    self.can_timeout.is_set()\n                    and self.last_activity",
           "                if not self.can_timeout.is_set():\n                    continue\n                await asyncio.sleep(self.timeout - (time.time() - self.last_activity))\n                if (\n                    True\n                    and self.last_activity",
           "R10.3"),
    Mutant("disarm-no-finally", F,
           "        try:\n            yield\n        finally:\n            self.blocker -= 1\n            if self.blocker == 0:\n                self.register_activity()\n                self.can_timeout.set()\n",
           "        yield\n        self.blocker -= 1\n        if self.blocker == 0:\n            self.register_activity()\n            self.can_timeout.set()\n", "R10.1"),
    Mutant("disarm-rearm-unconditionally", F, "            if self.blocker == 0:\n                self.register_activity()\n                self.can_timeout.set()\n",
           "            self.register_activity()\n            self.can_timeout.set()\n", "R10.1"),
    Mutant("disarm-no-activity-on-last-hook", F, "            if self.blocker == 0:\n                self.register_activity()\n", "            if self.blocker == 0:\n", "R10.1"),
    Mutant("disarm-forgets-clear", F, "        self.can_timeout.clear()\n        self.blocker += 1\n", "        self.blocker += 1\n", "R10.1"),
    Mutant("disarm-decrement-twice", F, "            self.blocker -= 1\n            if self.blocker == 0:", "            self.blocker -= 2\n            if self.blocker == 0:", "R10.1"),
    Mutant("handle-hook-resume-outside-disarm", MS,
           "            await self.master.addons.handle_lifecycle(hook)\n            if isinstance(data, flow.Flow):\n                await data.wait_for_resume()  # pragma: no cover\n",
           "            await self.master.addons.handle_lifecycle(hook)\n        if isinstance(data, flow.Flow):\n            await data.wait_for_resume()  # pragma: no cover\n", "R10.2"),
    Mutant("server-event-activity-after-layer", F,
           "            self.timeout_watchdog.register_activity()\n            try:\n                layer_commands = self.layer.handle_event(event)\n",
           "            try:\n                layer_commands = self.layer.handle_event(event)\n", "R10.2"),
    Mutant("watchdog-not-started", F,
           "            self.timeout_watchdog.watch(),\n", "            asyncio.sleep(0),\n",
           "R10.4"),
    Mutant("on-timeout-cancels-nothing-for-client", F, "            handler = self.transports[self.client].handler\n        except KeyError:  # pragma: no cover",
           "            handler = self.transports[next(iter(self.transports))].handler\n        except KeyError:  # pragma: no cover", "R10.4"),
]
