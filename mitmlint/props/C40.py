"""C40 - backup, revert and copy behave exactly.

Decided (flow.py::Flow, coretypes/serializable.py::Serializable):
  R40.1 ``Flow.backup`` stores ``self.get_state()`` exactly when no backup exists (an existing backup is never
        overwritten); ``Flow.revert`` calls ``self.set_state(self._backup)`` - with the backup still in place - exactly
        when a backup exists, and the backup is cleared afterwards (explicitly, or by ``Flow.set_state`` taking
        ``_backup`` from the state's own "backup" entry); ``Flow.modified`` returns False without a backup and the
        inequality of ``self._backup`` and ``self.get_state()`` otherwise.
  R40.2 ``Serializable.copy`` replaces ``state["id"]`` by a fresh ``uuid4`` BEFORE ``from_state``; ``Flow.copy`` returns
        that copy with ``live = False``; ``Flow.get_state`` deep-copies its mutable members (``metadata`` and the backup)
        so that neither a copy nor a backup aliases the live flow.
  R40.3 (added) ``modified()`` is False for an unedited flow, for every concrete flow class: abstract two-run evaluation
        of ``Flow.get_state`` (+ the literal keys the subclass adds) - run 1 with ``_backup = None`` yields the snapshot B
        that ``backup()`` stores, run 2 with ``_backup = B`` and all other components equal yields the state
        ``modified()`` compares with B - must give equal key sets and equal "backup"
        entries, after applying what ``modified()`` itself does to that entry (``state["backup"] = None`` / pop) before it
        compares.  (Defect F-C40 on the pinned tree: the entry is None in B but a copy of B in run 2, so a flow was
        "modified" as soon as it was backed up; repaired in /repo by ec24fccfb, which resets the entry in ``modified()``.
        A repair inside ``get_state`` cannot work because the partial state there lacks the subclass keys.)
  R40.4 (added; "reverting restores exactly the backed-up state") ``set_state`` is a TOTAL overwrite for every flow class
        (Flow, HTTPFlow, TCPFlow, UDPFlow, DNSFlow): every attribute ``self.A`` that the class's ``get_state`` reads into the
        state is definitely written on EVERY path of the class's ``set_state`` (must-definition analysis over if / conditional
        expression / walrus / match, ``super().set_state`` and ``self.<helper>()`` followed along the MRO) - by an assignment
        whose value does not read ``self.A`` back, or by ``self.A.set_state(...)`` - or is compared with the state by an
        ``assert`` (class constants such as ``type``).  An attribute written only when the state carries a value (``if r :=
        state.pop("response"): self.response = ...``) keeps what was attached after the backup: revert() then returns a
        flow that differs from the backed-up state while the backup is already gone.
NOT decided: that set_state assigns each attribute from ITS OWN key (R36.1 key agreement), edit-history equivalence.
Dropped from DESIGN R40.2: "HTTPFlow.copy copies request and response" - from_state already builds fresh message objects
from the copied state, so the explicit copies are not a necessary condition of independence.
"""

from __future__ import annotations

import ast

from ..core import AnalysisError
from ..core import norm
from ..model import attr_chain
from ..model import last_attr
from ..model import stmts_of
from ..selftest import Mutant
from ._helpers_E import expect
from ._helpers_E import fact
from ._helpers_E import params
from ._helpers_E import paths
from ._helpers_E import show

PROP = "C40"
REG = {
    "strength": "narrow",
    "technique": "path rules on Flow.backup/revert/modified/copy and Serializable.copy + abstract two-run evaluation of Flow.get_state's self-referential 'backup' entry "
    "+ must-definition analysis of every flow class's set_state against the attributes its get_state reads",
    "claim": "backup stores a state only when none exists, revert restores it through set_state and leaves no backup, modified is the "
    "inequality of backup and current state and is False for an unedited flow (R40.3); copies get a fresh id before from_state, are not "
    "live, and neither copies nor backups alias the flow's mutable members; set_state overwrites every attribute get_state reads on every path (R40.4), "
    "so revert cannot keep anything attached after the backup.",
    "note": "Assumes set_state(get_state()) is the identity on flow attributes (key agreement is R36.1's subject).",
}

FLOW = "mitmproxy/flow.py"
SER = "mitmproxy/coretypes/serializable.py"
BK = "self._backup"


def _q(s):
    return s.replace('"', "'")


# ---------------------------------------------------------------------------------------------------
# R40.3: abstract evaluation of Flow.get_state with respect to the "backup" entry


class _Unmodelled(Exception):
    pass


def _eval_get_state(fn, bk):
    """bk = None (no backup) | (frozenset(keys of snapshot), snapshot's 'backup' value: 'none' | 'dict').
    Returns (frozenset(keys), value of the 'backup' entry: 'absent' | 'none' | 'dict')."""
    body = stmts_of(fn)
    if not body or not isinstance(body[0], (ast.Assign, ast.AnnAssign)) or not isinstance(body[0].value, ast.Dict):
        raise _Unmodelled("does not start with 'state = {...}'")
    tgt = body[0].targets[0] if isinstance(body[0], ast.Assign) else body[0].target
    if not isinstance(tgt, ast.Name):
        raise _Unmodelled("state literal is not bound to a name")
    sv = tgt.id
    d = body[0].value
    if any(k is None or not isinstance(k, ast.Constant) for k in d.keys):
        raise _Unmodelled("state literal has computed keys")
    st = {"keys": {k.value for k in d.keys}, "b": "absent"}

    def is_bk(e):
        return attr_chain(e) == BK

    def ev(e):
        if isinstance(e, ast.Constant) and e.value is None:
            return "none"
        if is_bk(e) or (isinstance(e, ast.Call) and last_attr(e.func) in ("deepcopy", "copy", "dict") and len(e.args) == 1 and is_bk(e.args[0])):
            return "none" if bk is None else "dict"
        if isinstance(e, ast.IfExp):
            return ev(e.body) if cond(e.test) else ev(e.orelse)
        raise _Unmodelled(f"backup entry value {ast.unparse(e)}")

    def equal():
        if bk is None:
            return False  # None == <dict>
        keys_b, val_b = bk
        if frozenset(st["keys"]) != keys_b:
            return False
        return ("backup" not in st["keys"]) or st["b"] == val_b  # all other components are equal by hypothesis

    def cond(t):
        if isinstance(t, ast.UnaryOp) and isinstance(t.op, ast.Not):
            return not cond(t.operand)
        if isinstance(t, ast.BoolOp):
            vals = [cond(v) for v in t.values]
            return all(vals) if isinstance(t.op, ast.And) else any(vals)
        if is_bk(t):
            return bk is not None
        if isinstance(t, ast.Compare) and len(t.ops) == 1:
            l, r, op = t.left, t.comparators[0], t.ops[0]
            sides = {ast.unparse(l), ast.unparse(r)}
            if sides == {BK, sv} and isinstance(op, (ast.Eq, ast.NotEq)):
                return equal() if isinstance(op, ast.Eq) else not equal()
            if is_bk(l) and isinstance(r, ast.Constant) and r.value is None and isinstance(op, (ast.Is, ast.IsNot, ast.Eq, ast.NotEq)):
                isnone = bk is None
                return isnone if isinstance(op, (ast.Is, ast.Eq)) else not isnone
        raise _Unmodelled(f"condition {ast.unparse(t)}")

    if "backup" in st["keys"]:
        st["b"] = ev(d.values[[k.value for k in d.keys].index("backup")])

    def run(stmts):
        for s in stmts:
            if isinstance(s, ast.Assign) and len(s.targets) == 1 and isinstance(s.targets[0], ast.Subscript) and attr_chain(s.targets[0].value) == sv \
                    and isinstance(s.targets[0].slice, ast.Constant):
                k = s.targets[0].slice.value
                if k == "backup":
                    st["b"] = ev(s.value)
                elif BK in ast.unparse(s.value):
                    raise _Unmodelled(f"entry {k!r} depends on the backup")
                st["keys"].add(k)
            elif isinstance(s, ast.If):
                run(s.body if cond(s.test) else s.orelse)
            elif isinstance(s, ast.Return):
                if attr_chain(s.value) != sv:
                    raise _Unmodelled(f"returns {ast.unparse(s.value) if s.value else None}")
                return True
            else:
                raise _Unmodelled(f"statement {ast.unparse(s)[:60]}")
        return False

    if not run(body[1:]):
        raise _Unmodelled("no 'return state' at the end")
    return frozenset(st["keys"]), st["b"]

# ---------------------------------------------------------------------------------------------------
# R40.4: set_state definitely writes every attribute get_state reads

FLOW_CLASSES = (("mitmproxy/flow.py", "Flow"), ("mitmproxy/http.py", "HTTPFlow"), ("mitmproxy/tcp.py", "TCPFlow"),
                ("mitmproxy/udp.py", "UDPFlow"), ("mitmproxy/dns.py", "DNSFlow"))


def _self_attr(e):
    """'A' for the expression ``self.A`` (first level only), else None."""
    if isinstance(e, ast.Attribute) and isinstance(e.value, ast.Name) and e.value.id == "self":
        return e.attr
    return None


def _state_attrs(fn):
    """First-level attributes of self that get_state reads as data (not the methods it calls)."""
    out = {}
    for n in ast.walk(fn):
        a = _self_attr(n)
        if a is None or not isinstance(n.ctx, ast.Load):
            continue
        par = n._parent
        if isinstance(par, ast.Call) and par.func is n:
            continue  # self.method(...)
        out.setdefault(a, n)
    return out


class _MustDef:
    """Attributes of self definitely written on every normally-ending path of a method (raising paths restore nothing
    and are not revert results).  Unmodelled writers are recorded in ``self.opaque`` (the rule then refuses instead of alarming)."""

    def __init__(self, model, rel, cls):
        self.model = model
        self.mro = model.mro(rel, cls)
        self.opaque = []
        self.asserted = set()
        self.stack = []

    def _find(self, classes, name):
        for m, c in classes:
            for st in c.body:
                if isinstance(st, (ast.FunctionDef, ast.AsyncFunctionDef)) and st.name == name:
                    return c, st
        return None

    def method(self, fn, owner):
        """must-def set of ``fn`` (defined in class ``owner``)."""
        if fn in self.stack or len(self.stack) > 4:
            self.opaque.append(f"recursive/deep helper {fn.name}")
            return set()
        self.stack.append(fn)
        self.owner_stack = getattr(self, "owner_stack", []) + [owner]
        fall, exits = self.block(stmts_of(fn), set())
        self.stack.pop()
        self.owner_stack.pop()
        ends = exits + ([fall] if fall is not None else [])
        return set.intersection(*ends) if ends else set()

    # expressions: walrus / calls evaluated inside an expression may write too (self.x.set_state(..), helpers)
    def expr(self, e, d):
        d = set(d)
        if e is None:
            return d
        for n in ast.walk(e):
            if isinstance(n, ast.Call):
                d |= self.call(n)
            elif isinstance(n, (ast.Lambda, ast.ListComp, ast.SetComp, ast.DictComp, ast.GeneratorExp)):
                pass
        return d

    def call(self, c):
        f = c.func
        if isinstance(f, ast.Attribute):
            a = _self_attr(f.value)
            if a is not None and f.attr == "set_state":
                return {a}  # in-place restore of a sub-object
            if isinstance(f.value, ast.Name) and f.value.id == "self":
                hit = self._find(self.mro, f.attr)
                if hit is not None:
                    return self.method(hit[1], hit[0])
                return set()
            v = f.value
            if isinstance(v, ast.Call) and isinstance(v.func, ast.Name) and v.func.id == "super" and not v.args:
                owner = self.owner_stack[-1]
                idx = [i for i, (m, k) in enumerate(self.mro) if k is owner]
                if not idx:
                    self.opaque.append(f"super() outside the MRO in {norm(c)[:60]}")
                    return set()
                hit = self._find(self.mro[idx[0] + 1:], f.attr)
                if hit is not None:
                    return self.method(hit[1], hit[0])
                return set()
        if isinstance(f, ast.Name) and f.id in ("setattr", "vars") or (isinstance(f, ast.Attribute) and f.attr in ("update", "__setattr__") and "__dict__" in norm(f)):
            self.opaque.append(f"dynamic attribute write {norm(c)[:60]}")
        return set()

    def store(self, target, value, d):
        d = set(d)
        for t in target.elts if isinstance(target, (ast.Tuple, ast.List)) else [target]:
            a = _self_attr(t)
            if a is None:
                continue
            reads_back = value is not None and any(_self_attr(n) == a and isinstance(n.ctx, ast.Load) and not (isinstance(n._parent, ast.Call) and n._parent.func is n)
                                                   and not self._only_tested(n) for n in ast.walk(value))
            if not reads_back:
                d.add(a)
        return d

    @staticmethod
    def _only_tested(n):
        """Is the read of self.A only a condition (``X if self.A else Y`` test), not a stored value?"""
        par = n._parent
        return isinstance(par, ast.IfExp) and par.test is n

    def block(self, stmts, d):
        """-> (set at fall-through | None, [sets at return])"""
        exits = []
        cur = set(d)
        for s in stmts:
            if cur is None:
                break
            if isinstance(s, ast.Assign):
                cur = self.expr(s.value, cur)
                for t in s.targets:
                    cur = self.store(t, s.value, cur)
            elif isinstance(s, ast.AnnAssign):
                if s.value is not None:
                    cur = self.store(s.target, s.value, self.expr(s.value, cur))
            elif isinstance(s, ast.AugAssign):
                cur = self.expr(s.value, cur)
            elif isinstance(s, ast.Expr):
                cur = self.expr(s.value, cur)
            elif isinstance(s, ast.Assert):
                # assert <state value> == self.A : nothing to restore for A when it holds
                t = s.test
                if isinstance(t, ast.Compare) and len(t.ops) == 1 and isinstance(t.ops[0], (ast.Eq, ast.Is)):
                    for side in (t.left, t.comparators[0]):
                        a = _self_attr(side)
                        if a is not None:
                            self.asserted.add(a)
                cur = self.expr(t, cur)
            elif isinstance(s, ast.If):
                c0 = self.expr(s.test, cur)
                f1, e1 = self.block(s.body, c0)
                f2, e2 = self.block(s.orelse, c0)
                exits += e1 + e2
                falls = [x for x in (f1, f2) if x is not None]
                cur = set.intersection(*falls) if falls else None
            elif isinstance(s, ast.Match):
                c0 = self.expr(s.subject, cur)
                falls = []
                total = False
                for case in s.cases:
                    f1, e1 = self.block(case.body, c0)
                    exits += e1
                    if f1 is not None:
                        falls.append(f1)
                    if case.guard is None and isinstance(case.pattern, ast.MatchAs) and case.pattern.pattern is None:
                        total = True
                if not total:
                    falls.append(c0)
                cur = set.intersection(*falls) if falls else None
            elif isinstance(s, ast.Return):
                exits.append(self.expr(s.value, cur))
                cur = None
            elif isinstance(s, ast.Raise):
                cur = None
            elif isinstance(s, (ast.Pass, ast.Import, ast.ImportFrom, ast.Global, ast.Nonlocal, ast.FunctionDef, ast.AsyncFunctionDef, ast.ClassDef, ast.Delete)):
                pass
            else:
                # loops / try / with: zero iterations or an exception may skip the body - count nothing, but remember
                # that writes in there are not modelled so that a missing attribute is refused, not alarmed
                if any(_self_attr(n) is not None and isinstance(n.ctx, ast.Store) for n in ast.walk(s)) or any(isinstance(n, ast.Call) for n in ast.walk(s)):
                    self.opaque.append(f"{type(s).__name__} statement `{norm(s)[:50]}`")
        return cur, exits


def _set_state_total(ctx):
    m = ctx.model
    for rel, cl in FLOW_CLASSES:
        gs = m.module(rel).get(f"{cl}.get_state")
        ss = m.module(rel).get(f"{cl}.set_state")
        ctx.require(gs is not None and ss is not None, f"{cl} no longer defines both get_state and set_state: R40.4 must be re-anchored")
        ctx.functions.add(f"{rel}::{cl}.set_state")
        attrs = _state_attrs(gs)
        ctx.require(attrs, f"{cl}.get_state reads no attribute of self (shape not modelled)")
        md = _MustDef(m, rel, cl)
        owner = m.cls(rel, cl)
        written = md.method(ss, owner)
        missing = sorted(a for a in attrs if a not in written and a not in md.asserted)
        if missing and md.opaque:
            raise AnalysisError(f"{cl}.set_state: {missing} not seen written, but the method contains writers R40.4 does not model: {md.opaque[:3]}")
        ctx.cells += len(attrs)
        for a in missing:
            ctx.fail("R40.4", (rel, f"{cl}.set_state", ss), f"{cl}.set_state: self.{a} is not written on every path",
                     f"{cl}.get_state puts self.{a} into the state, but set_state leaves it untouched on some path (e.g. when the state carries no value for it): "
                     "revert() keeps what was attached after the backup, so the flow differs from the backed-up state while the backup is already cleared")
        if not missing:
            ctx.ok("R40.4", f"{cl}.set_state definitely writes {sorted(a for a in attrs if a in written)}" + (f"; asserted equal: {sorted(md.asserted & set(attrs))}" if md.asserted & set(attrs) else ""))



def check(ctx):
    ctx.rule("R40.1", "backup stores get_state() iff no backup exists; revert = set_state(backup) iff a backup exists, leaving no backup; modified = (backup != get_state()) or False without backup")
    ctx.rule("R40.2", "Serializable.copy assigns a fresh uuid4 id before from_state; Flow.copy is not live; get_state deep-copies metadata and the backup")
    ctx.rule("R40.3", "modified() is False for an unedited flow: the 'backup' entry of get_state() is the same in the stored snapshot and in the state compared with it")
    ctx.rule("R40.4", "set_state is a total overwrite: every attribute a flow class's get_state reads is written (or asserted equal) on every path of its set_state, so revert restores exactly the backup")
    m = ctx.model

    # ---- R40.1 backup
    bk = ctx.func(FLOW, "Flow.backup")
    trs, eng = paths(bk, keep=lambda e: e[0] == "assign" and e[1] == BK)
    ctx.paths += len(trs)
    bad = False
    seen = set()
    for t, how in trs:
        has = fact([e for e in t if e[0] == "cond"], BK)
        asg = [e for e in t if e[0] == "assign"]
        seen.add(has)
        good = how == "return" and ((has is False and len(asg) == 1 and asg[0][2] == "self.get_state()") or (has is True and not asg))
        if not good:
            bad = True
            ctx.fail("R40.1", (FLOW, "Flow.backup", bk), f"backup: path [{show(t)}]",
                     "backup must store self.get_state() exactly when no backup exists (an existing backup must survive repeated backup() calls; a missing one must be created)")
    ctx.require(bad or seen == {True, False}, "Flow.backup: both cases (backup exists / not) expected")
    if not bad:
        ctx.ok("R40.1", "backup: _backup := get_state() iff no backup")

    # ---- R40.1 revert
    rv = ctx.func(FLOW, "Flow.revert")
    ss = ctx.func(FLOW, "Flow.set_state")
    sp = params(ss)
    set_state_clears = any(isinstance(n, ast.Assign) and attr_chain(n.targets[0]) == BK and isinstance(n.value, ast.Call) and ast.unparse(n.value.func) == f"{sp[0]}.pop"
                           and n.value.args and isinstance(n.value.args[0], ast.Constant) and n.value.args[0].value == "backup" for n in ss.body) if sp else False
    trs, eng = paths(rv, keep=lambda e: (e[0] == "assign" and e[1] == BK) or (e[0] == "call" and e[1] == "self.set_state"))
    ctx.paths += len(trs)
    bad = False
    seen = set()
    for t, how in trs:
        has = fact([e for e in t if e[0] == "cond"], BK)
        seen.add(has)
        calls_ = [i for i, e in enumerate(t) if e[0] == "call"]
        clears = [i for i, e in enumerate(t) if e[0] == "assign"]
        if has is True:
            good = how == "return" and len(calls_) == 1 and t[calls_[0]][2] == (BK,) and not any(i < calls_[0] for i in clears) \
                and ((clears and t[clears[-1]][2] == "None") or (not clears and set_state_clears))
        elif has is False:
            good = not calls_
        else:
            good = False
        if not good:
            bad = True
            ctx.fail("R40.1", (FLOW, "Flow.revert", rv), f"revert: path [{show(t)}]",
                     "revert must call set_state(self._backup) while the backup is still in place, exactly when a backup exists, and leave no backup behind")
    ctx.require(bad or seen == {True, False}, "Flow.revert: both cases (backup exists / not) expected")
    if not bad:
        ctx.ok("R40.1", "revert: set_state(_backup) iff backup, then no backup")

    # ---- R40.1 modified
    mo = ctx.func(FLOW, "Flow.modified")
    trs, eng = paths(mo, keep=lambda e: e[0] in ("return", "assign", "del") or (e[0] == "call" and e[1].endswith(".pop")))
    ctx.paths += len(trs)
    bad = False
    seen = set()
    plain_compare = False
    overrides = None  # what modified() does to the "backup" entry of the state it compares: None | "none" | "absent"
    for t, how in trs:
        has = fact([e for e in t if e[0] == "cond"], BK)
        seen.add(has)
        ret = [e for e in t if e[0] == "return"]
        r = ast.parse(ret[-1][1], mode="eval").body if ret else None
        if has is True:
            cmp_ = r.operand if isinstance(r, ast.UnaryOp) and isinstance(r.op, ast.Not) else r
            want_op = ast.Eq if cmp_ is not r else ast.NotEq
            good = isinstance(cmp_, ast.Compare) and len(cmp_.ops) == 1 and isinstance(cmp_.ops[0], want_op) and BK in (ast.unparse(cmp_.left), ast.unparse(cmp_.comparators[0]))
            if good:
                other = cmp_.comparators[0] if ast.unparse(cmp_.left) == BK else cmp_.left
                ov = None
                if ast.unparse(other) == "self.get_state()":
                    pass
                elif isinstance(other, ast.Name):
                    src = [e for e in t if e[0] == "assign" and e[1] == other.id]
                    good = len(src) == 1 and src[0][2] == "self.get_state()"
                    for e in t:
                        if e[0] == "assign" and e[1].startswith(other.id + "["):
                            ctx.require(_q(e[1]) == f"{other.id}['backup']" and e[2] == "None", f"Flow.modified edits the compared state in a way R40.3 does not model: {e[1]} = {e[2]}")
                            ov = "none"
                        elif (e[0] == "del" and e[1].startswith(other.id + "[")) or (e[0] == "call" and e[1] == f"{other.id}.pop"):
                            ctx.require(_q(e[1] if e[0] == "del" else e[2][0]) in (f"{other.id}['backup']", "'backup'"), f"Flow.modified edits the compared state in a way R40.3 does not model: {e}")
                            ov = "absent"
                else:
                    good = False
                if good:
                    plain_compare = True
                    overrides = ov
        elif has is False:
            good = isinstance(r, ast.Constant) and r.value is False
        else:
            good = False
        if not good:
            bad = True
            ctx.fail("R40.1", (FLOW, "Flow.modified", mo), f"modified: path [{show(t)}]",
                     "modified must be False without a backup and the inequality of self._backup and the current get_state() with one")
    ctx.require(bad or seen == {True, False}, "Flow.modified: both cases (backup exists / not) expected")
    if not bad:
        ctx.ok("R40.1", "modified: False without backup, backup != current state otherwise")

    # ---- R40.2 Serializable.copy
    cp = ctx.func(SER, "Serializable.copy")
    trs, eng = paths(cp, keep=lambda e: e[0] in ("assign", "return") or (e[0] == "call" and e[1] in ("self.from_state", "self.get_state")))
    ctx.paths += len(trs)
    bad = False
    n_id = 0
    for t, how in trs:
        svs = [e[1] for e in t if e[0] == "assign" and e[2] == "self.get_state()"]
        fs = [i for i, e in enumerate(t) if e[0] == "call" and e[1] == "self.from_state"]
        ctx.require(len(svs) == 1 and len(fs) == 1 and how == "return", f"Serializable.copy: path shape not modelled [{show(t)}]")
        sv = svs[0]
        has_id = [e[2] for e in t if e[0] == "cond" and _q(e[1]) == f"'id' in {sv}"]
        is_dict = [e[2] for e in t if e[0] == "cond" and e[1] == f"isinstance({sv}, dict)"]
        ids = [i for i, e in enumerate(t) if e[0] == "assign" and _q(e[1]) == f"{sv}['id']"]
        must = (not has_id or has_id[-1]) and (not is_dict or is_dict[-1])
        if has_id and has_id[-1]:
            n_id += 1
        if must:
            ok_ = ids and ids[-1] < fs[0] and "uuid4()" in t[ids[-1]][2] and t[fs[0]][2] == (sv,)
            if not ok_:
                bad = True
                ctx.fail("R40.2", (SER, "Serializable.copy", cp), f"copy: path [{show(t)}]", "a copy of a state that carries an id must get a fresh uuid4 before from_state consumes the state")
    ctx.require(bad or n_id >= 1, "Serializable.copy: no path decides 'id' in state")
    if not bad:
        ctx.ok("R40.2", "Serializable.copy: state['id'] := uuid4 before from_state(state)")

    # ---- R40.2 Flow.copy not live
    fc = ctx.func(FLOW, "Flow.copy")
    trs, eng = paths(fc, keep=lambda e: e[0] in ("assign", "return"))
    ctx.paths += len(trs)
    bad = False
    for t, how in trs:
        ret = [e for e in t if e[0] == "return"]
        rv_ = ret[-1][1] if ret else None
        src = [e for e in t if e[0] == "assign" and e[1] == rv_ and e[2] == "super().copy()"]
        live = [e for e in t if e[0] == "assign" and e[1] == f"{rv_}.live"]
        if not (how == "return" and src and live and live[-1][2] == "False"):
            bad = True
            ctx.fail("R40.2", (FLOW, "Flow.copy", fc), f"Flow.copy: path [{show(t)}]", "a copied flow must come from Serializable.copy and be marked not live")
    if not bad:
        ctx.ok("R40.2", "Flow.copy: super().copy() with live = False")

    # ---- R40.2 get_state deep-copies mutable members
    gs = ctx.func(FLOW, "Flow.get_state")
    leaks = []
    n_deep = 0
    for member in ("self.metadata", BK):
        uses = [n for n in ast.walk(gs) if attr_chain(n) == member and isinstance(n, ast.Attribute) and isinstance(n.ctx, ast.Load)]
        ctx.require(uses, f"Flow.get_state no longer reads {member}")
        for u in uses:
            par = u._parent
            if isinstance(par, ast.Call) and last_attr(par.func) == "deepcopy" and u in par.args:
                n_deep += 1
            elif isinstance(par, (ast.Compare, ast.BoolOp, ast.UnaryOp, ast.If, ast.IfExp)) and (not isinstance(par, ast.IfExp) or par.test is u):
                pass  # only tested, not stored
            else:
                leaks.append(f"{member} in {ast.unparse(par)[:60]}")
    ctx.check(not leaks and n_deep >= 2, "R40.2", (FLOW, "Flow.get_state", gs), f"get_state stores live mutable members: {leaks}",
              "the state shares a mutable object with the flow: editing the flow changes its backup / its copy (or from_state consumes the original's backup)",
              desc="get_state deep-copies metadata and the backup")

    # ---- R40.3 (per concrete flow class: the subclass adds keys to the state AFTER Flow.get_state has evaluated its own
    # `self._backup != state` test, so inside Flow.get_state a stored backup never equals the partial state)
    if plain_compare:
        subs = []
        for sub in ("mitmproxy/http.py::HTTPFlow", "mitmproxy/tcp.py::TCPFlow", "mitmproxy/udp.py::UDPFlow", "mitmproxy/dns.py::DNSFlow"):
            rel, cl = sub.split("::")
            ctx.require("Flow" in m.base_names(rel, cl), f"{cl} is no longer a Flow")
            g2 = m.module(rel).get(f"{cl}.get_state")
            ctx.require(g2 is not None and "_backup" not in ast.unparse(g2), f"{cl}.get_state missing or touching _backup: R40.3 does not model it")
            ctx.functions.add(f"{rel}::{cl}.get_state")
            rets = [n for n in ast.walk(g2) if isinstance(n, ast.Return)]
            okr = len(rets) == 1 and isinstance(rets[0].value, ast.Dict) and rets[0].value.keys and rets[0].value.keys[0] is None \
                and ast.unparse(rets[0].value.values[0]) == "super().get_state()" and all(isinstance(k, ast.Constant) for k in rets[0].value.keys[1:])
            ctx.require(okr, f"{cl}.get_state is not '{{**super().get_state(), <literal keys>}}': R40.3 does not model it")
            extra = frozenset(k.value for k in rets[0].value.keys[1:])
            ctx.require("backup" not in extra, f"{cl}.get_state overrides the backup entry: R40.3 does not model it")
            subs.append((cl, extra))
        # (helpers shipped under mitmproxy/test/ are not product flow types)
        known = {c.name for mod_, c in m.subclasses("Flow") if not mod_.rel.startswith("mitmproxy/test/")} if ctx.tier == "thorough" else {c for c, _ in subs}
        ctx.require(known == {c for c, _ in subs}, f"Flow subclasses changed: {sorted(known)} - extend R40.3")
        for cl, extra in subs:
            try:
                base1 = _eval_get_state(gs, None)
                snap = (base1[0] | extra, base1[1])  # what backup() stores for this class
                base2 = _eval_get_state(gs, snap)  # Flow.get_state evaluated with _backup = snap (the partial state lacks `extra`)
                now = (base2[0] | extra, base2[1])
                if overrides == "none":  # modified() neutralises the entry of the freshly computed state before comparing
                    now = (now[0] | {"backup"}, "none")
                elif overrides == "absent":
                    now = (now[0] - {"backup"}, "absent")
            except _Unmodelled as e:
                ctx.require(False, f"Flow.get_state: shape not modelled by R40.3: {e}")
            ctx.cells += 2
            same = snap == now
            what = (f"'backup' entry is {snap[1]} in the snapshot stored by backup() but {now[1]} in the state modified() compares" if snap[0] == now[0]
                    else f"key sets differ by {sorted(snap[0] ^ now[0])} between the snapshot stored by backup() and the state modified() compares")
            ctx.check(same, "R40.3", (FLOW, "Flow.modified", mo), f"{cl}: {what}",
                      "for an unedited flow the stored backup and the state it is compared with differ in the nested backup entry, so modified() is True as soon as a backup exists",
                      desc=f"{cl}: unedited flow => backup == compared state (backup entry {snap[1]} on both sides)", snapshot=[sorted(snap[0]), snap[1]], current=[sorted(now[0]), now[1]])
    else:
        ctx.require(any(f.rule == "R40.1" for f in ctx.findings), "Flow.modified does not compare _backup with a get_state() result: R40.3 does not model this shape")

    # ---- R40.4 set_state overwrites everything get_state reads
    ctx.guard(_set_state_total, ctx)

    expect(ctx, "R40.1", 3)
    expect(ctx, "R40.2", 3)
    expect(ctx, "R40.4", 5)
    if plain_compare:
        expect(ctx, "R40.3", 4)


MUTANTS = [
    # seed C40b: response / websocket only assigned when the state has one
    Mutant("set-state-keeps-later-response", "mitmproxy/http.py", "        self.response = Response.from_state(r) if (r := state.pop(\"response\")) else None\n",
           "        if r := state.pop(\"response\"):\n            self.response = Response.from_state(r)\n", "R40.4"),
    Mutant("set-state-websocket-falls-back-to-current", "mitmproxy/http.py", "WebSocketData.from_state(w) if (w := state.pop(\"websocket\")) else None",
           "WebSocketData.from_state(w) if (w := state.pop(\"websocket\")) else self.websocket", "R40.4"),
    Mutant("dns-set-state-keeps-later-response", "mitmproxy/dns.py", "        self.response = (\n            DNSMessage.from_state(r) if (r := state.pop(\"response\")) else None\n        )\n",
           "        if r := state.pop(\"response\"):\n            self.response = DNSMessage.from_state(r)\n", "R40.4"),
    Mutant("set-state-keeps-later-error", FLOW, "        else:\n            self.error = state.pop(\"error\")\n", "        else:\n            state.pop(\"error\")\n", "R40.4"),
    Mutant("set-state-drops-comment", FLOW, "        self.comment = state.pop(\"comment\")\n", "        state.pop(\"comment\")\n", "R40.4"),
    Mutant("backup-overwrites", FLOW, "        if not self._backup:\n            self._backup = self.get_state()\n", "        self._backup = self.get_state()\n", "R40.1"),
    Mutant("backup-guard-inverted", FLOW, "        if not self._backup:\n            self._backup = self.get_state()\n", "        if self._backup:\n            self._backup = self.get_state()\n", "R40.1"),
    Mutant("revert-clears-first", FLOW, "            self.set_state(self._backup)\n            self._backup = None\n", "            self._backup = None\n            self.set_state(self._backup)\n", "R40.1"),
    Mutant("revert-only-clears", FLOW, "            self.set_state(self._backup)\n            self._backup = None\n", "            self._backup = None\n", "R40.1"),
    Mutant("modified-equality", FLOW, "            return self._backup != state\n", "            return self._backup == state\n", "R40.1"),
    Mutant("modified-true-without-backup", FLOW, "            return self._backup != state\n        else:\n            return False\n", "            return self._backup != state\n        else:\n            return True\n", "R40.1"),
    Mutant("modified-compares-stale-state", FLOW, "            state = self.get_state()\n            state[\"backup\"] = None\n            return self._backup != state\n",
           "            state = self._backup\n            return self._backup != state\n", "R40.1"),
    Mutant("copy-keeps-id", SER, "        if isinstance(state, dict) and \"id\" in state:\n            state[\"id\"] = str(uuid.uuid4())\n", "", "R40.2"),
    Mutant("copy-fresh-id-too-late", SER, "        if isinstance(state, dict) and \"id\" in state:\n            state[\"id\"] = str(uuid.uuid4())\n        return self.from_state(state)\n",
           "        c = self.from_state(state)\n        if isinstance(state, dict) and \"id\" in state:\n            state[\"id\"] = str(uuid.uuid4())\n        return c\n", "R40.2"),
    Mutant("copy-stays-live", FLOW, "        f = super().copy()\n        f.live = False\n        return f\n", "        f = super().copy()\n        return f\n", "R40.2"),
    Mutant("metadata-shared", FLOW, "\"metadata\": copy.deepcopy(self.metadata),", "\"metadata\": self.metadata,", "R40.2"),
    Mutant("backup-shared", FLOW, "state[\"backup\"] = copy.deepcopy(self._backup) if self._backup != state else None", "state[\"backup\"] = self._backup if self._backup != state else None", "R40.2"),
    Mutant("revert-fix-modified-compares-own-backup-entry", FLOW, "            state = self.get_state()\n            state[\"backup\"] = None\n            return self._backup != state\n",
           "            state = self.get_state()\n            return self._backup != state\n", "R40.3"),
    Mutant("revert-fix-modified-plain-compare", FLOW, "            state = self.get_state()\n            state[\"backup\"] = None\n            return self._backup != state\n",
           "            return self._backup != self.get_state()\n", "R40.3"),
    Mutant("backup-entry-only-when-backed-up", FLOW, "        state[\"backup\"] = copy.deepcopy(self._backup) if self._backup != state else None\n",
           "        if self._backup:\n            state[\"backup\"] = copy.deepcopy(self._backup)\n", "R40.3"),
]
