"""C40 - backup, revert and copy behave exactly.

All four rules are decided by INTERPRETING the methods of every flow class (Flow, HTTPFlow, TCPFlow, UDPFlow, DNSFlow) from
their AST with ``mitmlint/pyint.py`` on abstract flows (nothing is imported or run): ``get_state`` / ``set_state`` /
``backup`` / ``revert`` / ``modified`` / ``copy`` (and ``Serializable.copy``, whatever helpers they call, ``super()`` chains,
``__init__``) are followed by the interpreter, so renamed locals, early returns, inverted branches, extracted helpers,
``dict.update`` instead of ``{**super().get_state(), ...}``, added logging / assertions / annotations do not matter.

The abstract flow: a record bound to the flow class, created by interpreting the class's ``__init__``; its data attributes are
discovered from the class bodies' annotations and ``__init__`` (kind by annotation: scalar / optional scalar / dict / list of
sub-objects / (optional) sub-object).  Sub-objects (connections, messages, errors, websocket data) are opaque serialisable
values of the rule (``get_state`` returns a fresh deep copy of the content, ``set_state`` / ``<Class>.from_state`` consume
the given state, equality by content).  Every attribute ranges over a small value set that contains None / falsy / two
different truthy values (and an in-place mutation for containers).

  R40.1 ``backup()`` stores exactly ``get_state()`` when there is no backup and never overwrites an existing one;
        ``revert()`` restores what ``set_state(<the backup>)`` restores - exactly when a backup exists -, leaves no backup
        behind and does nothing without one; ``modified()`` is False without a backup, True after every edit that changes
        the state, False again when the edit is undone and after ``revert()``; a second backup / edit / revert cycle works.
  R40.2 a copy has a fresh id (taken from a ``uuid`` generator, present BEFORE ``from_state`` consumed the state), equal
        content, ``live == False``, and shares no mutable object with the original; ``get_state()`` shares no mutable object
        with the flow (``metadata`` and the stored backup are deep copies) - otherwise an in-place edit of the flow changes its
        backup / its copy.
  R40.3 ``modified()`` is False for an unedited flow with a backup, for every flow class (defect F-C40 on the pinned tree,
        repaired by ec24fccfb).
  R40.4 ``set_state`` is a total overwrite: for every state attribute A and every ordered pair (v1, v2) of its values,
        ``set_state(<state with A = v1>)`` on a flow with A = v2 yields the state with A = v1 (an attribute written only when
        the state carries a value keeps what was attached after the backup).
NOT decided: key agreement beyond what the scenarios exercise (R36.1), ``Flow.from_state`` itself (the registry lookup is C36's
subject; here ``from_state(state)`` = a new instance of the receiver's class + interpreted ``set_state(state)``).
"""

from __future__ import annotations

import ast
import copy as _copy

from ..core import AnalysisError
from ..pyint import ClassRef
from ..pyint import Interp
from ..pyint import NullLog
from ..pyint import Raised
from ..pyint import Rec
from ..selftest import Mutant
from ._helpers_E import expect

PROP = "C40"
REG = {
    "strength": "partial",
    "technique": "abstract interpretation (pyint) of get_state / set_state / backup / revert / modified / copy of every flow class on abstract flows "
    "whose attributes range over None / falsy / two truthy values; object-graph aliasing check between states, backups, copies and the flow",
    "claim": "backup stores the state only when none exists, revert restores it through set_state and leaves no backup, modified is False "
    "without a backup / for an unedited flow and True after each single-attribute edit; set_state overwrites every state attribute for every "
    "value pair; copies get a fresh uuid before from_state, equal content, live=False and share no mutable object with the original; "
    "get_state shares no mutable object with the flow.",
    "note": "Sub-objects (connections, messages, errors) are opaque serialisable values; Flow.from_state is modelled as new instance + set_state.",
}

FLOW = "mitmproxy/flow.py"
SER = "mitmproxy/coretypes/serializable.py"
FLOW_CLASSES = (("mitmproxy/flow.py", "Flow"), ("mitmproxy/http.py", "HTTPFlow"), ("mitmproxy/tcp.py", "TCPFlow"),
                ("mitmproxy/udp.py", "UDPFlow"), ("mitmproxy/dns.py", "DNSFlow"))


# ---------------------------------------------------------------------------------------------------
# the rule's own abstract values (native objects: pyint hands them around like trusted-library values)


class _Sub:
    """opaque serialisable sub-object (connection / message / error / websocket data)"""

    _pyint_accepts_abstract = True

    def __init__(self, kind, content):
        self.kind = kind
        self.content = content

    def get_state(self):
        return _copy.deepcopy(self.content)

    def set_state(self, state):
        self.content = state  # consumes the state, like the repository's set_state

    def copy(self):
        return _Sub(self.kind, _copy.deepcopy(self.content))

    def __bool__(self):
        return True

    def __eq__(self, other):
        return isinstance(other, _Sub) and other.content == self.content

    __hash__ = None

    def __repr__(self):
        return f"<{self.kind} {self.content!r}>"

    def __getattr__(self, name):
        if name.startswith("__"):
            raise AttributeError(name)
        raise AnalysisError(f"C40: the abstract sub-object {self.kind} has no attribute '{name}' (extend the rule's domain)")


class _FreshId:
    def __init__(self, n):
        self.n = n
        self.hex = f"fresh{n:032d}"

    def __str__(self):
        return f"fresh-{self.n}"

    __repr__ = __str__


class _Uuid:
    """stand-in for the uuid module: every generator call yields a value that is recognisably fresh"""

    def __init__(self):
        self.n = 0

    def _gen(self, *a, **k):
        self.n += 1
        return _FreshId(self.n)

    uuid1 = uuid4 = uuid6 = uuid7 = _gen


class _Time:
    def __init__(self):
        self.t = 1000.0

    def time(self):
        self.t += 1.0
        return self.t

    monotonic = perf_counter = time


def _is_fresh(v) -> bool:
    return (isinstance(v, str) and v.startswith("fresh")) or isinstance(v, _FreshId)


class _FlowInterp(Interp):
    """pyint + ``<SubObjectClass>.from_state(state)`` builds one of the rule's opaque sub-objects"""

    flow_from_state = None  # set by the harness: ClassRef of a flow class -> from_state stand-in

    def class_attr(self, cref, attr, depth):
        if attr == "from_state":
            names = {c.name for _, c in self.model.mro(cref.mod.rel, getattr(cref.node, "_qual", cref.node.name))}
            if "Flow" in names and self.flow_from_state is not None:
                return self.flow_from_state(cref)  # `type(self).from_state(state)` / `HTTPFlow.from_state(state)`
            if "Flow" not in names:
                kind = cref.node.name

                def from_state(state, _kind=kind):
                    return _Sub(_kind, state)

                from_state._pyint_accepts_abstract = True
                return from_state
        return super().class_attr(cref, attr, depth)


# ---------------------------------------------------------------------------------------------------
# attribute discovery


_META = ("_cls", "_bases", "_impl", "_name", "_items")
_SCALARS = {"str": "str", "bytes": "str", "bool": "bool", "float": "num", "int": "num"}


def _split_union(t: str):
    depth, cur, parts = 0, "", []
    for ch in t:
        if ch in "[(":
            depth += 1
        elif ch in "])":
            depth -= 1
        if ch == "|" and depth == 0:
            parts.append(cur)
            cur = ""
        else:
            cur += ch
    parts.append(cur)
    return parts


def _kind_of_annotation(text: str):
    """(kind, optional) of an attribute annotation, None when the annotation says nothing usable"""
    t = text.replace("typing.", "").replace(" ", "").strip("'\"")
    opt = False
    if t.startswith("Optional[") and t.endswith("]"):
        t, opt = t[len("Optional["):-1], True
    parts = _split_union(t)
    if "None" in parts:
        opt = True
        parts = [p for p in parts if p != "None"]
    if len(parts) != 1:
        return None
    b = parts[0]
    head = b.split("[")[0].split(".")[-1]
    if b in _SCALARS:
        return _SCALARS[b], opt
    if head in ("dict", "Dict", "MutableMapping", "Mapping"):
        return "dict", opt
    if head in ("list", "List", "Sequence", "MutableSequence"):
        return "list", opt
    if head in ("Any", "object", "ClassVar", "Callable", "tuple", "set", "frozenset", "State"):
        return None
    return "sub", opt


def _kind_of_value(v):
    if isinstance(v, bool):
        return "bool", False
    if isinstance(v, (str, bytes)):
        return "str", False
    if isinstance(v, (int, float)):
        return "num", False
    if isinstance(v, dict):
        return "dict", False
    if isinstance(v, list):
        return "list", False
    if isinstance(v, _Sub):
        return "sub", False
    return None


def _attributes(model, rel, cl, rec):
    """{public data attribute: (kind, optional)} of the flow class, from class-level annotations, ``__init__`` and the instance"""
    out = {}
    for m, c in reversed(model.mro(rel, cl)):
        if c.name in ("Serializable", "object", "ABC"):
            continue
        for st in c.body:
            if isinstance(st, ast.AnnAssign) and isinstance(st.target, ast.Name) and not st.target.id.startswith("_"):
                ann = ast.unparse(st.annotation)
                if "ClassVar" in ann:
                    continue
                k = _kind_of_annotation(ann)
                if k is not None:
                    out[st.target.id] = k
            elif isinstance(st, ast.FunctionDef) and st.name == "__init__":
                for n in ast.walk(st):
                    if isinstance(n, ast.AnnAssign) and isinstance(n.target, ast.Attribute) and isinstance(n.target.value, ast.Name) and n.target.value.id == "self" \
                            and not n.target.attr.startswith("_"):
                        k = _kind_of_annotation(ast.unparse(n.annotation))
                        if k is not None:
                            out[n.target.attr] = k
    for a, v in rec.__dict__.items():
        if a.startswith("_") or a in out or callable(v) or a == "type":
            continue
        k = _kind_of_value(v)
        if k is not None:
            out[a] = k
    out.pop("type", None)
    return out


def _sub(attr, n):
    return _Sub(attr, {"of": attr, "v": n, "nested": {"l": [n, n + 1]}})


def _values(attr, kind, opt):
    """factories of the values the attribute ranges over; index 0 of the non-optional part is falsy where the kind has a falsy value"""
    if kind == "str":
        vals = [lambda: "", lambda: f"{attr}-a", lambda: f"{attr}-b"]
    elif kind == "bool":
        vals = [lambda: False, lambda: True]
    elif kind == "num":
        vals = [lambda: 0.0, lambda: 1.5, lambda: 2.5]
    elif kind == "dict":
        vals = [lambda: {}, lambda: {"a": ["x"], "n": {"k": [1]}}, lambda: {"a": ["z"]}]
    elif kind == "list":
        vals = [lambda: [], lambda: [_sub(attr, 1)], lambda: [_sub(attr, 1), _sub(attr, 2)]]
    else:
        vals = [lambda: _sub(attr, 1), lambda: _sub(attr, 2)]
    if opt:
        vals = [lambda: None] + vals
    return vals


def _base_index(kind, opt):
    """index of the 'rich' default: the first truthy value"""
    i = 0 if kind == "sub" else 1
    return i + (1 if opt else 0)


def _mutate(kind, v):
    """an in-place edit of a container value (None when the kind has none)"""
    if kind == "dict" and isinstance(v, dict) and isinstance(v.get("a"), list):
        v["a"].append("edited-in-place")
        return True
    if kind == "list" and isinstance(v, list):
        v.append(_sub("appended", 9))
        return True
    return False


# ---------------------------------------------------------------------------------------------------
# object graph


def _reach(roots):
    """{id: (object, label)} of every mutable object reachable from the labelled roots"""
    out = {}
    todo = list(roots)
    while todo:
        label, v = todo.pop()
        if isinstance(v, (dict, list, set, bytearray, _Sub, Rec)):
            if id(v) in out:
                continue
            out[id(v)] = (v, label)
        if isinstance(v, dict):
            todo.extend((label, x) for x in v.values())
        elif isinstance(v, (list, tuple, set, frozenset)):
            todo.extend((label, x) for x in v)
        elif isinstance(v, _Sub):
            todo.append((label, v.content))
        elif isinstance(v, Rec):
            todo.extend((label, x) for k, x in v.__dict__.items() if k not in _META and not callable(x))
    return out


def _flow_roots(rec, skip=()):
    return [(f"self.{k}", v) for k, v in rec.__dict__.items() if k not in _META and k not in skip and not callable(v)]


def _shared(roots_a, roots_b):
    a, b = _reach(roots_a), _reach(roots_b)
    return sorted({f"{a[i][1]} is shared with {b[i][1]}" for i in a.keys() & b.keys()})


# ---------------------------------------------------------------------------------------------------
# the scenarios


class _Harness:
    def __init__(self, ctx, rel, cl, reduced=()):
        self.ctx, self.rel, self.cl = ctx, rel, cl
        self.reduced = set(reduced)
        self.model = ctx.model
        self.uuid = _Uuid()
        self.it = _FlowInterp(self.model, trusted_modules={"copy": _copy, "uuid": self.uuid, "time": _Time(), "logging": NullLog()}, max_steps=4_000_000)
        self.cref = ClassRef(self.model.module(rel), self.model.cls(rel, cl))
        self.it.flow_from_state = self.from_state_of
        self.fails = {}  # (rule, method, kind) -> set(details)
        self.slot = None  # name of the attribute holding the backup (discovered by scenario_basic)
        self.n = 0
        probe = self.new()
        self.attrs = _attributes(self.model, rel, cl, probe)
        ctx.require(len(self.attrs) >= 8, f"{cl}: only {sorted(self.attrs)} discovered as data attributes (model of the flow class not understood)")

    # -- construction
    def new(self, cref=None):
        cref = cref or self.cref
        rec = self.it.instantiate(cref, [_sub("client_conn", 0), _sub("server_conn", 0)], {}, 0, f"{cref.node.name}(client, server)")
        if "type" not in rec.__dict__:
            object.__setattr__(rec, "type", cref.node.name.removesuffix("Flow").lower())  # what __init_subclass__ derives
        object.__setattr__(rec, "from_state", self.from_state_of(cref))
        return rec

    def from_state_of(self, cref):
        """stand-in for Flow.from_state on a flow class: a new instance (constructor defaults) + the interpreted set_state(state)"""

        def from_state(state, _self=self, _cref=cref):
            new = _self.new(_cref if _cref.node.name != "Flow" else None)
            _self.it.method(new, "set_state", state)
            return new

        from_state._pyint_accepts_abstract = True
        return from_state

    def make(self, **over):
        """a flow with every attribute at its rich default, except ``over`` = {attr: value index}"""
        rec = self.new()
        for a, (kind, opt) in self.attrs.items():
            vals = _values(a, kind, opt)
            object.__setattr__(rec, a, vals[over.get(a, _base_index(kind, opt))]())
        return rec

    def set(self, rec, a, idx):
        kind, opt = self.attrs[a]
        object.__setattr__(rec, a, _values(a, kind, opt)[idx]())

    # -- interpreted calls
    def call(self, rec, name, *args):
        self.n += 1
        try:
            return True, self.it.method(rec, name, *args)
        except Raised as r:
            return False, r.name + (f" ({r.msg})" if r.msg else "")

    def state(self, rec):
        ok, s = self.call(rec, "get_state")
        if not ok:
            raise AnalysisError(f"{self.cl}.get_state raises {s} on an abstract flow: not modelled")
        if not isinstance(s, dict):
            raise AnalysisError(f"{self.cl}.get_state returns {type(s).__name__}, not a dict: not modelled")
        return s

    def fail(self, rule, method, kind, detail=""):
        self.fails.setdefault((rule, method, kind), set()).add(detail)

    # -- checks
    def modified_is(self, rec, want, rule, kind, detail=""):
        ok, v = self.call(rec, "modified")
        if not ok:
            self.fail(rule, "modified", f"modified() raises {v}", detail)
            return False
        if bool(v) != want:
            self.fail(rule, "modified", kind, detail)
            return False
        return True

    # The scenarios are observational: what is compared are get_state() results and modified() answers.  The attribute that holds
    # the backup is *discovered* (the attribute that equals the state after the first backup()); it is used only for the more
    # precise diagnoses and for the aliasing check of the stored backup.
    def stored(self, rec):
        return rec.__dict__.get(self.slot) if self.slot else None

    def scenario_basic(self):
        f = self.make()
        if not self.modified_is(f, False, "R40.1", "modified() is not False for a flow without a backup"):
            return
        s_before = self.state(f)
        ok, v = self.call(f, "revert")
        if not ok or self.state(f) != s_before:
            self.fail("R40.1", "revert", "revert() without a backup " + (f"raises {v}" if not ok else "changes the flow"))
            return
        s0 = _copy.deepcopy(self.state(f))
        before = {k: _copy.deepcopy(v) for k, v in f.__dict__.items() if k not in _META and not callable(v)}
        ok, v = self.call(f, "backup")
        if not ok:
            self.fail("R40.1", "backup", f"backup() raises {v}")
            return
        changed = [k for k, v in f.__dict__.items() if k not in _META and not callable(v) and (k not in before or before[k] != v)]
        slots = [k for k in changed if f.__dict__[k] == s0]
        self.slot = slots[0] if len(slots) == 1 else None
        if self.slot is None and "_backup" in f.__dict__:
            # nothing that equals the state was stored: with today's representation (Flow._backup holds the state) that is the defect itself
            self.slot = "_backup"
            self.fail("R40.1", "backup", "backup() on a flow without a backup does not store get_state()")
            return
        if self.slot:
            sh = _shared([("the stored backup", f.__dict__[self.slot])], _flow_roots(f, skip=(self.slot,)))
            if sh:
                self.fail("R40.2", "get_state", "the stored backup shares a mutable object with the flow", "; ".join(sh))
        self.modified_is(f, False, "R40.3", "modified() is True for an unedited flow with a backup")
        s1 = self.state(f)
        sh = _shared([(f"state[{k!r}]", v) for k, v in s1.items()], _flow_roots(f))
        if sh:
            self.fail("R40.2", "get_state", "get_state() shares a mutable object with the flow", "; ".join(sh))

    def edit(self, rec, a, j):
        if j == "inplace":
            return _mutate(self.attrs[a][0], rec.__dict__[a])
        self.set(rec, a, j)
        return True

    def scenario_edit(self, a, i, j):
        """attribute ``a``: value i when the backup is taken, then edited to value j (j == 'inplace': container mutated in place)"""
        what = f"{a}: {self.describe(a, i)} -> {self.describe(a, j)}"
        f = self.make(**{a: i})
        s0 = _copy.deepcopy(self.state(f))
        ok, v = self.call(f, "backup")
        if not ok or (self.slot and self.stored(f) != s0):
            self.fail("R40.1", "backup", f"backup() raises {v}" if not ok else "backup() on a flow without a backup does not store get_state()", what)
            return
        if not self.edit(f, a, j):
            return
        # the same flow, edited alike, that never had a backup: what the edit does to the state, and the subject of R40.4
        g = self.make(**{a: i})
        self.edit(g, a, j)
        s_edit = _copy.deepcopy(self.state(g))
        if s_edit == s0:
            if j == "inplace":
                return  # (the mutation is not part of the state)
            raise AnalysisError(f"{self.cl}: editing {what} does not change get_state() although other values of the attribute do: not modelled")
        if self.slot and self.stored(f) != s0:
            self.fail("R40.2", "get_state", "the stored backup shares a mutable object with the flow", f"an in-place edit of self.{a} changes the stored backup")
            return
        if not self.modified_is(f, True, "R40.1", "modified() is not True after an edit that changes the state", what):
            return
        # a second backup keeps the first one
        ok, v = self.call(f, "backup")
        if not ok or (self.slot and self.stored(f) != s0):
            self.fail("R40.1", "backup", f"backup() raises {v}" if not ok else "a second backup() overwrites the existing backup", what)
            return
        # R40.4: set_state alone
        ok, v = self.call(g, "set_state", _copy.deepcopy(s0))
        if not ok:
            self.fail("R40.4", "set_state", f"set_state(get_state()) raises {v}", what)
            return
        sg = self.state(g)
        if sg != s0:
            keys = sorted(k for k in set(sg) | set(s0) if sg.get(k, "<absent>") != s0.get(k, "<absent>"))
            self.fail("R40.4", "set_state", f"set_state does not restore {keys}", what)
            return
        # R40.1: revert restores what set_state restores and leaves no backup
        ok, v = self.call(f, "revert")
        if not ok:
            self.fail("R40.1", "revert", f"revert() raises {v}", what)
            return
        if self.state(f) != s0:
            self.fail("R40.1", "revert", "backup(), edit, backup(), revert() does not restore the state of the first backup (set_state(<that state>) would)", what)
            return
        if not self.modified_is(f, False, "R40.1", "modified() is not False after revert()", what):
            return
        if self.slot and self.stored(f):
            self.fail("R40.1", "revert", "revert() leaves a backup behind", what)
            return
        self.edit(f, a, j)
        s_again = _copy.deepcopy(self.state(f))
        ok, v = self.call(f, "revert")
        if not ok or self.state(f) != s_again:
            self.fail("R40.1", "revert", f"a second revert() raises {v}" if not ok else "revert() leaves a backup behind: a second revert() changes the flow again", what)

    def scenario_undo(self, a, i, j):
        what = f"{a}: {self.describe(a, i)} -> {self.describe(a, j)} -> {self.describe(a, i)}"
        f = self.make(**{a: i})
        ok, v = self.call(f, "backup")
        if not ok:
            return
        self.set(f, a, j)
        self.set(f, a, i)
        self.modified_is(f, False, "R40.1", "modified() is not False after the edit was undone", what)

    def scenario_cycles(self):
        """all attributes edited at once, two backup / edit / revert cycles"""
        f = self.make()
        for cycle in (1, 2):
            s0 = _copy.deepcopy(self.state(f))
            ok, v = self.call(f, "backup")
            if not ok or (self.slot and self.stored(f) != s0):
                self.fail("R40.1", "backup", f"backup() raises {v}" if not ok else "backup() after a revert() does not store get_state()", f"cycle {cycle}")
                return
            for a, (kind, opt) in self.attrs.items():
                n = len(_values(a, kind, opt))
                self.set(f, a, (_base_index(kind, opt) + cycle) % n)
            if not self.modified_is(f, True, "R40.1", "modified() is not True after an edit that changes the state", f"all attributes, cycle {cycle}"):
                return
            ok, v = self.call(f, "revert")
            if not ok or self.state(f) != s0:
                g = self.make()
                okg, _ = self.call(g, "set_state", _copy.deepcopy(s0))
                if okg and self.state(g) != s0:
                    self.fail("R40.4", "set_state", "set_state does not restore the state when all attributes were edited", f"cycle {cycle}")
                else:
                    self.fail("R40.1", "revert", f"revert() raises {v}" if not ok else "revert() does not restore the backed-up state", f"all attributes, cycle {cycle}")
                return
            if not self.modified_is(f, False, "R40.1", "modified() is not False after revert()", f"cycle {cycle}"):
                return

    def scenario_copy(self, with_backup):
        what = "flow with a backup and later edits" if with_backup else "flow without a backup"
        f = self.make()
        object.__setattr__(f, "live", True)
        if with_backup:
            ok, v = self.call(f, "backup")
            if not ok:
                return
            for a, (kind, opt) in self.attrs.items():
                if kind in ("str", "dict") and a != "id":
                    self.set(f, a, len(_values(a, kind, opt)) - 1)
        before = self.uuid.n
        ok, c = self.call(f, "copy")
        if not ok:
            self.fail("R40.2", "copy", f"copy() raises {c}", what)
            return
        if not isinstance(c, Rec) or c is f:
            self.fail("R40.2", "copy", "copy() does not return a new flow", what)
            return
        cid, fid = c.__dict__.get("id"), f.__dict__.get("id")
        if cid == fid:
            self.fail("R40.2", "copy", "the copy has the id of the original", what)
            return
        if not (_is_fresh(cid) and self.uuid.n > before):
            raise AnalysisError(f"{self.cl}.copy: the copy's id {cid!r} differs from the original's but does not come from a uuid generator: freshness not modelled")
        if c.__dict__.get("live") is not False:
            self.fail("R40.2", "copy", "the copy is live", what)
            return
        sc, sf = dict(self.state(c)), dict(self.state(f))
        sc.pop("id", None)
        sf.pop("id", None)
        if sc != sf:
            keys = sorted(k for k in set(sc) | set(sf) if sc.get(k, "<absent>") != sf.get(k, "<absent>"))
            self.fail("R40.2", "copy", f"the copy's content differs from the original's in {keys}", what)
            return
        sh = _shared(_flow_roots(c), _flow_roots(f))
        if sh:
            self.fail("R40.2", "copy", "the copy shares a mutable object with the original", "; ".join(s.replace("self.", "copy.", 1) for s in sh))

    def describe(self, a, i):
        if i == "inplace":
            return "mutated in place"
        v = _values(a, *self.attrs[a])[i]()
        if v is None:
            return "None"
        if isinstance(v, _Sub):
            return f"<{v.kind} #{v.content['v']}>"
        if isinstance(v, list):
            return f"[{len(v)} item(s)]"
        if isinstance(v, dict):
            return "{}" if not v else "{%d key(s)}" % len(v)
        return repr(v)

    # -- driver
    def in_state(self, a):
        """does the attribute take part in get_state() at all?"""
        kind, opt = self.attrs[a]
        seen = []
        for i in range(len(_values(a, kind, opt))):
            s = _copy.deepcopy(self.state(self.make(**{a: i})))
            if s not in seen:
                seen.append(s)
        return len(seen) > 1

    def run(self):
        self.scenario_basic()
        self.state_attrs = [a for a in self.attrs if self.in_state(a)]
        self.ctx.require(len(self.state_attrs) >= 8, f"{self.cl}: only {self.state_attrs} influence get_state() (model of the flow class not understood)")
        for a in self.state_attrs:
            kind, opt = self.attrs[a]
            n = len(_values(a, kind, opt))
            for i in range(n):
                for j in list(range(n)) + (["inplace"] if kind in ("dict", "list") else []):
                    if i == j:
                        continue
                    if a in self.reduced and j != "inplace" and j != (i + 1) % n:
                        continue  # quick tier: attributes handled by the base class got all pairs there; here one successor each
                    self.scenario_edit(a, i, j)
                    self.ctx.cells += 1
            self.scenario_undo(a, _base_index(kind, opt), (_base_index(kind, opt) + 1) % n)
        for a in self.attrs:
            if a not in self.state_attrs:
                # not part of the state (e.g. live): editing it must not make the flow "modified"
                kind, opt = self.attrs[a]
                f = self.make()
                ok, _ = self.call(f, "backup")
                if ok:
                    self.set(f, a, (_base_index(kind, opt) + 1) % len(_values(a, kind, opt)))
                    self.modified_is(f, False, "R40.1", "modified() is True although the state equals the backup", f"edit of self.{a}, which get_state() does not include")
        self.scenario_cycles()
        self.scenario_copy(False)
        self.scenario_copy(True)


def _one_class(ctx, rel, cl, base_attrs):
    m = ctx.model
    for name in ("get_state", "set_state", "backup", "revert", "modified", "copy"):
        ctx.require(m.method(rel, cl, name) is not None, f"{cl}.{name} vanished: C40 must be re-anchored")
    ctx.functions.add(f"{rel}::{cl}.get_state")
    ctx.functions.add(f"{rel}::{cl}.set_state")
    h = _Harness(ctx, rel, cl, reduced=base_attrs if (ctx.tier == "quick" and cl != "Flow") else ())
    h.run()
    if cl == "Flow":
        base_attrs.update(h.state_attrs)
    ctx.paths += h.n
    by_rule = {}
    for (rule, method, kind), details in sorted(h.fails.items()):
        by_rule.setdefault(rule, []).append((method, kind, details))
    for rule in ("R40.1", "R40.2", "R40.3", "R40.4"):
        if rule not in by_rule:
            continue
        for method, kind, details in by_rule[rule]:
            if method == "set_state":
                owner = m.method(rel, cl, "set_state")
                where = (owner[0].rel, f"{cl}.set_state", owner[1])
            else:
                owner = m.method(rel, cl, method)
                oc = next((c.name for mm, c in m.mro(rel, cl) if any(st is owner[1] for st in c.body)), cl)
                where = (owner[0].rel, f"{oc}.{method}", owner[1])
            ds = sorted(d for d in details if d)
            ctx.fail(rule, where, f"{cl}: {kind}", (f"on an abstract {cl}: " + "; ".join(ds[:4]) + (f"; ... ({len(ds)} cases)" if len(ds) > 4 else "")) if ds else f"on an abstract {cl}",
                     cases=ds[:20])
    sa = sorted(h.state_attrs)
    if "R40.1" not in by_rule:
        ctx.ok("R40.1", f"{cl}: backup stores get_state() once, revert == set_state(backup) and clears it, modified() follows the edits of {sa}")
    if "R40.2" not in by_rule:
        ctx.ok("R40.2", f"{cl}: copy has a fresh uuid id, equal content, live=False, no shared mutable object; get_state() / the backup share nothing with the flow")
    if "R40.3" not in by_rule:
        ctx.ok("R40.3", f"{cl}: unedited flow with a backup => modified() is False")
    if "R40.4" not in by_rule:
        ctx.ok("R40.4", f"{cl}.set_state restores every value of {sa} over every other value")


def check(ctx):
    ctx.rule("R40.1", "backup stores get_state() iff no backup exists; revert = set_state(backup) iff a backup exists, leaving no backup; modified = False without backup, True exactly after state-changing edits")
    ctx.rule("R40.2", "a copy has a fresh uuid id (before from_state), equal content, live=False and shares no mutable object with the original; get_state() and the stored backup share no mutable object with the flow")
    ctx.rule("R40.3", "modified() is False for an unedited flow with a backup, for every flow class")
    ctx.rule("R40.4", "set_state is a total overwrite: every state attribute is restored from every value to every other value, so revert restores exactly the backup")
    m = ctx.model
    for q in ("Flow.backup", "Flow.revert", "Flow.modified", "Flow.copy", "Flow.get_state", "Flow.set_state"):
        ctx.func(FLOW, q)
    ctx.func(SER, "Serializable.copy")
    for rel, cl in FLOW_CLASSES[1:]:
        ctx.require("Flow" in m.base_names(rel, cl), f"{cl} is no longer a Flow")
    if ctx.tier == "thorough":
        # (helpers shipped under mitmproxy/test/ are not product flow types)
        known = {c.name for mod_, c in m.subclasses("Flow") if not mod_.rel.startswith("mitmproxy/test/")}
        ctx.require(known == {c for _, c in FLOW_CLASSES[1:]}, f"Flow subclasses changed: {sorted(known)} - extend C40's FLOW_CLASSES")
    base_attrs: set = set()  # state attributes of Flow itself (filled by the first run)
    for rel, cl in FLOW_CLASSES:
        ctx.guard(_one_class, ctx, rel, cl, base_attrs)
    ctx.trust("copy.deepcopy (handed to the interpreter as trusted module); uuid / time / logging replaced by stand-ins")
    ctx.assume("Flow.from_state(state) = new instance of the flow class + set_state(state) (registry lookup is C36's subject)")
    ctx.assume("sub-objects' get_state() returns a fresh state, their set_state / from_state consume the given state")
    ctx.bounds.append("C40: every attribute ranges over None (if optional) / a falsy value / two truthy values, one attribute edited at a time (+ all at once), two backup-revert cycles; "
                      "quick tier: all ordered value pairs for Flow's attributes on Flow and for each subclass's own attributes, one successor pair for inherited attributes on subclasses")
    for r in ("R40.1", "R40.2", "R40.3", "R40.4"):
        expect(ctx, r, len(FLOW_CLASSES))


MUTANTS = [
    # seed C40b: response / websocket only assigned when the state has one
    Mutant("set-state-keeps-later-response", "mitmproxy/http.py", "        self.response = Response.from_state(r) if (r := state.pop(\"response\")) else None\n",
           "        if r := state.pop(\"response\"):\n            self.response = Response.from_state(r)\n", "R40.4"),
    Mutant("set-state-websocket-falls-back-to-current", "mitmproxy/http.py", "WebSocketData.from_state(w) if (w := state.pop(\"websocket\")) else None",
           "WebSocketData.from_state(w) if (w := state.pop(\"websocket\")) else self.websocket", "R40.4"),
    Mutant("dns-set-state-keeps-later-response", "mitmproxy/dns.py", "        self.response = (\n            DNSMessage.from_state(r) if (r := state.pop(\"response\")) else None\n        )\n",
           "        if r := state.pop(\"response\"):\n            self.response = DNSMessage.from_state(r)\n", "R40.4"),
    Mutant("set-state-keeps-later-error", FLOW, "        else:\n            self.error = state.pop(\"error\")\n", "        else:\n            state.pop(\"error\")\n", "R40.4"),
    Mutant("set-state-drops-comment", FLOW, "        self.comment = state.pop(\"comment\")\n", "        state.pop(\"comment\")\n", "R40.4"),
    Mutant("set-state-keeps-marker-when-unmarked", FLOW, "        self.marked = state.pop(\"marked\")\n", "        self.marked = state.pop(\"marked\") or self.marked\n", "R40.4"),
    Mutant("tcp-set-state-appends-messages", "mitmproxy/tcp.py", "        self.messages = [TCPMessage.from_state(m) for m in state.pop(\"messages\")]\n",
           "        self.messages.extend(TCPMessage.from_state(m) for m in state.pop(\"messages\"))\n", "R40.4"),
    Mutant("backup-overwrites", FLOW, "        if not self._backup:\n            self._backup = self.get_state()\n", "        self._backup = self.get_state()\n", "R40.1"),
    Mutant("backup-guard-inverted", FLOW, "        if not self._backup:\n            self._backup = self.get_state()\n", "        if self._backup:\n            self._backup = self.get_state()\n", "R40.1"),
    Mutant("revert-clears-first", FLOW, "            self.set_state(self._backup)\n            self._backup = None\n", "            self._backup = None\n            self.set_state(self._backup)\n", "R40.1"),
    Mutant("revert-only-clears", FLOW, "            self.set_state(self._backup)\n            self._backup = None\n", "            self._backup = None\n", "R40.1"),
    Mutant("modified-equality", FLOW, "            return self._backup != state\n", "            return self._backup == state\n", "R40.1"),
    Mutant("modified-true-without-backup", FLOW, "            return self._backup != state\n        else:\n            return False\n", "            return self._backup != state\n        else:\n            return True\n", "R40.1"),
    Mutant("modified-compares-stale-state", FLOW, "            state = self.get_state()\n            state[\"backup\"] = None\n            return self._backup != state\n",
           "            state = self._backup\n            return self._backup != state\n", "R40.1"),
    Mutant("modified-ignores-comment", FLOW, "            state[\"backup\"] = None\n            return self._backup != state\n",
           "            state[\"backup\"] = None\n            state[\"comment\"] = self._backup[\"comment\"]\n            return self._backup != state\n", "R40.1"),
    Mutant("copy-keeps-id", SER, "        if isinstance(state, dict) and \"id\" in state:\n            state[\"id\"] = str(uuid.uuid4())\n", "", "R40.2"),
    Mutant("copy-fresh-id-too-late", SER, "        if isinstance(state, dict) and \"id\" in state:\n            state[\"id\"] = str(uuid.uuid4())\n        return self.from_state(state)\n",
           "        c = self.from_state(state)\n        if isinstance(state, dict) and \"id\" in state:\n            state[\"id\"] = str(uuid.uuid4())\n        return c\n", "R40.2"),
    # (dropping `f.live = False` altogether is NOT a defect: from_state builds the copy with the constructor's default live=False)
    Mutant("copy-inherits-live", FLOW, "        f = super().copy()\n        f.live = False\n        return f\n", "        f = super().copy()\n        f.live = self.live\n        return f\n", "R40.2"),
    Mutant("copy-shares-metadata", FLOW, "        f = super().copy()\n        f.live = False\n        return f\n", "        f = super().copy()\n        f.live = False\n        f.metadata = self.metadata\n        return f\n", "R40.2"),
    Mutant("copy-drops-comment", FLOW, "        f = super().copy()\n        f.live = False\n        return f\n", "        f = super().copy()\n        f.live = False\n        f.comment = \"\"\n        return f\n", "R40.2"),
    Mutant("metadata-shared", FLOW, "\"metadata\": copy.deepcopy(self.metadata),", "\"metadata\": self.metadata,", "R40.2"),
    # seed C40a
    Mutant("metadata-shallow-copy", FLOW, "\"metadata\": copy.deepcopy(self.metadata),", "\"metadata\": self.metadata.copy(),", "R40.2"),
    Mutant("backup-shared", FLOW, "state[\"backup\"] = copy.deepcopy(self._backup) if self._backup != state else None", "state[\"backup\"] = self._backup if self._backup != state else None", "R40.2"),
    Mutant("revert-fix-modified-compares-own-backup-entry", FLOW, "            state = self.get_state()\n            state[\"backup\"] = None\n            return self._backup != state\n",
           "            state = self.get_state()\n            return self._backup != state\n", "R40.3"),
    Mutant("revert-fix-modified-plain-compare", FLOW, "            state = self.get_state()\n            state[\"backup\"] = None\n            return self._backup != state\n",
           "            return self._backup != self.get_state()\n", "R40.3"),
    Mutant("backup-entry-only-when-backed-up", FLOW, "        state[\"backup\"] = copy.deepcopy(self._backup) if self._backup != state else None\n",
           "        if self._backup:\n            state[\"backup\"] = copy.deepcopy(self._backup)\n", "R40.3"),
]
